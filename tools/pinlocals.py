#!/usr/bin/env python3
"""writes contracts/pinned_locals.json: the locals every function of bt/{core,algos,backtest}.py binds, in binding order, on the tree the
contracts were written against (run against /repo at the pinned commit + fix commits; rerun after a fix: commit that changes a function)"""
import json, os, sys
sys.path.insert(0, os.path.dirname(os.path.dirname(os.path.abspath(__file__))))
from pyvc.source import Program, local_binding_order, PINNED_LOCALS
prog = Program()
out = {q: local_binding_order(fi.node) for q, fi in sorted(prog.functions.items())}
out = {q: v for q, v in out.items() if v}
json.dump(out, open(PINNED_LOCALS, "w"), indent=0, sort_keys=True)
print(len(out), "functions")
