#!/bin/sh
# Build the overlay venv (offline): /venv's python + z3-solver, cvc5, jsonschema from the wheelhouse,
# plus a .pth that exposes /venv's site-packages (pandas, numpy, ffn, ... the repo's own deps).
set -e
cd "$(dirname "$0")/.."
if [ -x .venv/bin/python ] && .venv/bin/python -c "import z3, pandas" 2>/dev/null; then
  echo "venv ok"; exit 0
fi
rm -rf .venv
/venv/bin/python -m venv .venv
PIP_NO_INDEX=1 .venv/bin/pip install -q --no-index --find-links /opt/veriftools/wheels z3-solver cvc5 jsonschema >/dev/null
SP=$(.venv/bin/python -c "import sysconfig; print(sysconfig.get_paths()['purelib'])")
echo "import site; site.addsitedir('/venv/lib/python3.12/site-packages')" > "$SP/zz_repo_deps.pth"
.venv/bin/python -c "import z3, cvc5, pandas, numpy; print('venv built', z3.get_version_string(), pandas.__version__)"
