#!/usr/bin/env python3
"""Mutation campaign (development aid, not a registered check): AST-level mutants of the functions the checks are anchored in, filtered by the
interpreted test suite (a mutant that fails a test is not interesting), then run against the mapped checks on a scratch copy (BT_REPO).
usage: mutate.py list | run <n> <seed> [<qualname-substring>]   -> out/mutation/<id>.json"""
import ast, copy, json, os, random, shutil, subprocess, sys, tempfile, hashlib, glob
from concurrent.futures import ThreadPoolExecutor

HERE = os.path.dirname(os.path.dirname(os.path.abspath(__file__)))
REPO = "/repo"
FILES = {"core": "bt/core.py", "algos": "bt/algos.py", "backtest": "bt/backtest.py"}


def fn_props():
    """qualified function name -> properties whose evidence lists it (functions under contract)"""
    m = {}
    for p in glob.glob(os.path.join(HERE, "evidence", "C*.json")):
        d = json.load(open(p))
        for f in d["coverage"].get("functions_under_contract", []):
            m.setdefault(f["qualname"], set()).add(d["property_id"])
    extra = {  # bodies covered by bounded stand-ins or tolerant tasks
        "bt.algos.HedgeRisks.__call__": {"C20"}, "bt.backtest.Backtest.turnover": {"C18"}, "bt.backtest.Backtest.herfindahl_index": {"C18"}, "bt.core.StrategyBase.get_transactions": {"C18"},
        "bt.algos.ReplayTransactions.__call__": {"C18", "C04"}, "bt.core.StrategyBase.setup": {"C19", "C09", "C16", "C10", "C04"}, "bt.backtest.Backtest.__init__": {"C11", "C09", "C19"},
        "bt.backtest.Backtest._process_data": {"C11", "C04"}, "bt.core.Node.__init__": {"C19"}, "bt.algos.WeighInvVol.__call__": {"C15", "C04"}, "bt.algos.WeighERC.__call__": {"C15", "C04"},
        "bt.algos.WeighMeanVar.__call__": {"C15", "C04"}, "bt.algos.TargetVol.__call__": {"C15", "C04"}, "bt.algos.PTE_Rebalance.__call__": {"C15", "C04"}, "bt.algos.LimitWeights.__call__": {"C15"},
        "bt.algos.SelectMomentum.__init__": {"C14"}, "bt.algos.ResolveOnTheRun.__call__": {"C14"}, "bt.core.SecurityBase.setup": {"C04", "C10"}, "bt.core.CouponPayingSecurity.setup": {"C17", "C04"},
    }
    for k, v in extra.items():
        m.setdefault(k, set()).update(v)
    return m


def functions(tree, modname):
    out = {}
    for n in tree.body:
        if isinstance(n, ast.ClassDef):
            for b in n.body:
                if isinstance(b, ast.FunctionDef):
                    out["bt.%s.%s.%s" % (modname, n.name, b.name)] = b
        elif isinstance(n, ast.FunctionDef):
            out["bt.%s.%s" % (modname, n.name)] = n
    return out


CMP = {ast.Lt: ast.LtE, ast.LtE: ast.Lt, ast.Gt: ast.GtE, ast.GtE: ast.Gt, ast.Eq: ast.NotEq, ast.NotEq: ast.Eq, ast.Is: ast.IsNot, ast.IsNot: ast.Is, ast.In: ast.NotIn, ast.NotIn: ast.In}
BIN = {ast.Add: ast.Sub, ast.Sub: ast.Add, ast.Mult: ast.Div, ast.Div: ast.Mult}


def sites(fn):
    """(statement node, description, mutator(stmt_copy) -> bool) for one function"""
    out = []
    body_stmts = [n for n in ast.walk(fn) if isinstance(n, ast.stmt) and n is not fn and not isinstance(n, (ast.FunctionDef, ast.ClassDef))]
    for st in body_stmts:
        if isinstance(st, ast.Expr) and isinstance(st.value, ast.Constant):
            continue  # docstring
        inner = [n for n in ast.walk(st)]
        # only nodes that belong to this statement's own header/expression, not nested statements
        nested = set()
        for ch in ast.iter_child_nodes(st):
            if isinstance(ch, ast.stmt):
                nested.update(id(x) for x in ast.walk(ch))
        own = [n for n in inner if id(n) not in nested]
        k = 0
        for n in own:
            if isinstance(n, ast.Compare) and len(n.ops) == 1 and type(n.ops[0]) in CMP:
                out.append((st, "cmp:%s->%s" % (type(n.ops[0]).__name__, CMP[type(n.ops[0])].__name__), ("cmp", own.index(n))))
            if isinstance(n, ast.BinOp) and type(n.op) in BIN:
                out.append((st, "bin:%s->%s" % (type(n.op).__name__, BIN[type(n.op)].__name__), ("bin", own.index(n))))
            if isinstance(n, ast.Constant) and isinstance(n.value, bool):
                out.append((st, "bool:%s->%s" % (n.value, not n.value), ("bool", own.index(n))))
            if isinstance(n, ast.Constant) and isinstance(n.value, (int, float)) and not isinstance(n.value, bool) and n.value in (0, 1, 0.0, 1.0):
                out.append((st, "const:%s->%s" % (n.value, 1 - n.value), ("const", own.index(n))))
            if isinstance(n, ast.UnaryOp) and isinstance(n.op, ast.Not):
                out.append((st, "dropnot", ("dropnot", own.index(n))))
            if isinstance(n, ast.BoolOp):
                out.append((st, "boolop:%s" % type(n.op).__name__, ("boolop", own.index(n))))
        if isinstance(st, (ast.Expr, ast.Assign, ast.AugAssign)) and not (isinstance(st, ast.Assign) and isinstance(st.value, ast.Constant)):
            out.append((st, "delete-statement", ("delete", None)))
        if isinstance(st, ast.If):
            out.append((st, "if-always-true", ("iftrue", None)))
    return out


def apply(stmt, how):
    s2 = copy.deepcopy(stmt)
    kind, idx = how
    if kind == "delete":
        return ast.Pass()
    if kind == "iftrue":
        s2.test = ast.Constant(True)
        return s2
    nested = set()
    for ch in ast.iter_child_nodes(s2):
        if isinstance(ch, ast.stmt):
            nested.update(id(x) for x in ast.walk(ch))
    own = [n for n in ast.walk(s2) if id(n) not in nested]
    n = own[idx]
    if kind == "cmp":
        n.ops = [CMP[type(n.ops[0])]()]
    elif kind == "bin":
        n.op = BIN[type(n.op)]()
    elif kind == "bool":
        n.value = not n.value
    elif kind == "const":
        n.value = type(n.value)(1 - n.value)
    elif kind == "dropnot":
        # replace `not x` by x: find parent
        for p in ast.walk(s2):
            for f, v in ast.iter_fields(p):
                if v is n:
                    setattr(p, f, n.operand)
                elif isinstance(v, list):
                    for i, e in enumerate(v):
                        if e is n:
                            v[i] = n.operand
    elif kind == "boolop":
        n.op = ast.Or() if isinstance(n.op, ast.And) else ast.And()
    return s2


def splice(src_lines, stmt, new_stmt):
    indent = " " * stmt.col_offset
    text = ast.unparse(new_stmt).split("\n")
    new = [indent + t for t in text]
    return src_lines[: stmt.lineno - 1] + new + src_lines[stmt.end_lineno :]


def enumerate_mutants(filt=None):
    fp = fn_props()
    muts = []
    for mod, rel in FILES.items():
        src = open(os.path.join(REPO, rel)).read()
        tree = ast.parse(src)
        for q, fn in functions(tree, mod).items():
            if q not in fp or (filt and filt not in q):
                continue
            for (st, desc, how) in sites(fn):
                muts.append(dict(file=rel, qualname=q, line=st.lineno, desc=desc, how=how, props=sorted(fp[q])))
    return muts


def build(m, d):
    os.makedirs(os.path.join(d, "bt"), exist_ok=True)
    for x in os.listdir(os.path.join(REPO, "bt")):
        if x.endswith(".py"):
            shutil.copy(os.path.join(REPO, "bt", x), os.path.join(d, "bt", x))
    src = open(os.path.join(REPO, m["file"])).read()
    tree = ast.parse(src)
    target = None
    for n in ast.walk(tree):
        if isinstance(n, ast.stmt) and getattr(n, "lineno", None) == m["line"] and not isinstance(n, (ast.FunctionDef, ast.ClassDef)):
            # the same statement as enumerated: first statement starting on that line with a matching site
            target = n
            break
    new_stmt = apply(target, tuple(m["how"]))
    lines = splice(src.split("\n"), target, new_stmt)
    open(os.path.join(d, m["file"]), "w").write("\n".join(lines))
    m["mutated_text"] = ast.unparse(new_stmt)[:200]
    m["original_text"] = ast.unparse(target)[:200]


def run_one(m):
    d = tempfile.mkdtemp(prefix="mutant", dir="/tmp")
    res = dict(m)
    try:
        build(m, d)
        res.update(mutated_text=m["mutated_text"], original_text=m["original_text"])
        if m["mutated_text"] == m["original_text"]:
            res["status"] = "no-op"
            return res
        shutil.copytree(os.path.join(REPO, "tests"), os.path.join(d, "tests"))
        r = subprocess.run(["/venv/bin/python", "-m", "pytest", "-q", "-x", "-p", "no:cacheprovider", "tests"], cwd=d, capture_output=True, text=True, timeout=600)
        tail = r.stdout.strip().split("\n")[-1] if r.stdout.strip() else ""
        if r.returncode != 0:
            res["status"] = "killed-by-tests"
            return res
        env = dict(os.environ, BT_REPO=d, VERIF_JOBS="6")
        codes = {}
        for p in m["props"]:
            c = subprocess.run([os.path.join(HERE, "check"), p], cwd=HERE, env=env, capture_output=True, text=True, timeout=1800)
            codes[p] = c.returncode
            if c.returncode == 1:
                res["first_violation"] = [l for l in c.stdout.split("\n") if l.startswith("VIOLATION")][:1]
                break
        res["codes"] = codes
        res["status"] = "killed" if 1 in codes.values() else ("undecided" if any(v in (2, 3) for v in codes.values()) else "SURVIVED")
    except Exception as e:
        res["status"] = "error: %s" % str(e)[:200]
    finally:
        shutil.rmtree(d, ignore_errors=True)
    return res


if __name__ == "__main__":
    cmd = sys.argv[1]
    if cmd == "list":
        ms = enumerate_mutants(sys.argv[2] if len(sys.argv) > 2 else None)
        from collections import Counter
        print(len(ms), "mutants;", Counter(m["qualname"] for m in ms).most_common(12))
    else:
        n, seed = int(sys.argv[2]), int(sys.argv[3])
        filt = sys.argv[4] if len(sys.argv) > 4 else None
        ms = enumerate_mutants(filt)
        random.Random(seed).shuffle(ms)
        ms = ms[:n]
        os.makedirs(os.path.join(HERE, "out", "mutation"), exist_ok=True)
        with ThreadPoolExecutor(max_workers=int(os.environ.get("MUT_PAR", "3"))) as ex:
            for r in ex.map(run_one, ms):
                h = hashlib.sha1(json.dumps([r["qualname"], r["line"], r["desc"], r["how"]]).encode()).hexdigest()[:10]
                json.dump(r, open(os.path.join(HERE, "out", "mutation", h + ".json"), "w"), indent=1)
                print(r["status"], r["qualname"], r["line"], r["desc"], r.get("codes"), "|", r.get("original_text", "")[:70], "=>", r.get("mutated_text", "")[:70], flush=True)
