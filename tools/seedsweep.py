#!/usr/bin/env python3
"""runs every bounded stand-in of every property for several VERIF_SEED values against /repo (false-alarm hunt); prints failures"""
import importlib, sys, os, json
HERE = os.path.dirname(os.path.dirname(os.path.abspath(__file__)))
sys.path.insert(0, HERE)
from pyvc.runner import run_tasks
seeds = [int(x) for x in sys.argv[1].split(",")] if len(sys.argv) > 1 else [1, 2, 3]
tier = sys.argv[2] if len(sys.argv) > 2 else "quick"
tasks, tags = [], []
for i in range(1, 21):
    pid = "C%02d" % i
    mod = importlib.import_module("props." + pid)
    for sd in seeds:
        for t in mod.tasks(tier, sd):
            if t.get("kind") == "custom" and (t.get("fn") in ("run_script", "hashseed_task")):
                tasks.append(t); tags.append((pid, sd, t.get("script", t.get("fn")), json.dumps(t.get("params", {}))))
res = run_tasks(tasks, jobs=16)
bad = 0
for tg, r in zip(tags, res):
    v = r.get("violations") or []
    v = [x for x in v if not x.get("known")]
    if r.get("error") or v:
        bad += 1
        print(tg, "ERROR" if r.get("error") else "", str(r.get("error") or "")[:300], [str(x.get("model"))[:300] for x in v[:2]])
print("ran", len(tasks), "bounded tasks; problems:", bad)
