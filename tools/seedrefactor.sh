#!/bin/sh
# usage: tools/seedrefactor.sh <kind> <patch.diff> <prop> [<prop>...]  -- a seeded change AND an equivalent rewrite (tools/refactor.py) on a scratch copy:
# the seeded change must still be reported (exit 1) or, at worst, left undecided (exit 2); never exit 0
KIND=$1; PATCH=$2; shift; shift
D=$(mktemp -d /tmp/seedrepo.XXXX); E=$(mktemp -d /tmp/seedrepo.XXXX)
mkdir -p $D/bt && cp /repo/bt/*.py $D/bt/
( cd $D && patch -p1 -s < "$PATCH" ) || { echo "PATCH-FAILED $PATCH"; rm -rf $D $E; exit 9; }
cd /verif
.venv/bin/python tools/refactor.py $KIND $E $D > /dev/null
for p in "$@"; do
  BT_REPO=$E ./check $p > $E/$p.log 2>&1; rc=$?
  echo "$KIND+$(basename $(dirname $PATCH)) check $p exit=$rc :: $(grep '^VIOLATION' $E/$p.log | head -3 | cut -c1-200 | tr '\n' '|')"
  [ $rc -ge 2 ] && grep -E 'UNDECIDED|CHECKER' $E/$p.log | head -2 | cut -c1-300
done
rm -rf $D $E
