#!/bin/sh
# usage: tools/seedtest.sh <worktree> <patch> <demo.py> <prop> [<prop>...]
# 1. confirms in the scratch worktree: patch applies, suite passes, demo fails with / passes without
# 2. applies the patch to /repo, runs the listed checks, reverts /repo
WT=$1; PATCH=$2; DEMO=$3; shift 3
cd "$WT" || exit 9
git checkout -q -- bt
git apply "$PATCH" || { echo "PATCH-DOES-NOT-APPLY"; exit 9; }
T=$(/venv/bin/python -m pytest -q -p no:cacheprovider tests 2>&1 | tail -1)
/venv/bin/python "$DEMO" >/dev/null 2>&1; D1=$?
git checkout -q -- bt
/venv/bin/python "$DEMO" >/dev/null 2>&1; D0=$?
echo "worktree: tests-with-patch=[$T] demo-with-patch=$D1 demo-without=$D0"
cd /repo && git apply "$PATCH" || { echo "PATCH-DOES-NOT-APPLY-TO-REPO"; exit 9; }
cd /verif
for p in "$@"; do
  ./check $p > /tmp/seedtest_$p.log 2>&1; rc=$?
  echo "check $p exit=$rc :: $(grep -c '^VIOLATION' /tmp/seedtest_$p.log) violation line(s): $(grep '^VIOLATION' /tmp/seedtest_$p.log | head -2 | cut -c1-220)"
  [ $rc -ge 2 ] && grep -E 'UNDECIDED|CHECKER' /tmp/seedtest_$p.log | head -3 | cut -c1-300
done
git -C /repo checkout -- .
