#!/usr/bin/env python3
"""Semantics-preserving rewrites of /repo/bt/*.py into a scratch tree (development aid): the checks must not raise a VIOLATION on them.
usage: refactor.py <kind> <outdir> [<srcdir>]   kind: ifswap | augassign | rename | comp2for | elsereturn | tempvar; srcdir defaults to /repo"""
import ast, os, shutil, sys

kind, out = sys.argv[1], sys.argv[2]
SRC = os.path.join(sys.argv[3] if len(sys.argv) > 3 else "/repo", "bt")
os.makedirs(os.path.join(out, "bt"), exist_ok=True)


class IfSwap(ast.NodeTransformer):
    def visit_If(self, n):
        self.generic_visit(n)
        if n.orelse and not (len(n.orelse) == 1 and isinstance(n.orelse[0], ast.If)):
            return ast.If(test=ast.UnaryOp(op=ast.Not(), operand=n.test), body=n.orelse, orelse=n.body)
        return n


class Aug(ast.NodeTransformer):
    def visit_AugAssign(self, n):
        self.generic_visit(n)
        if isinstance(n.target, ast.Name):
            return ast.Assign(targets=[ast.Name(id=n.target.id, ctx=ast.Store())], value=ast.BinOp(left=ast.Name(id=n.target.id, ctx=ast.Load()), op=n.op, right=n.value))
        return n


class Rename(ast.NodeTransformer):
    """rename every plain local (not a parameter, not used in a nested function) of every function: x -> x_"""

    def visit_FunctionDef(self, fn):
        params = {a.arg for a in fn.args.args + fn.args.kwonlyargs} | ({fn.args.vararg.arg} if fn.args.vararg else set()) | ({fn.args.kwarg.arg} if fn.args.kwarg else set())
        nested = any(isinstance(x, (ast.FunctionDef, ast.Lambda)) for x in ast.walk(fn) if x is not fn)
        if nested:
            return fn
        stored = {x.id for x in ast.walk(fn) if isinstance(x, ast.Name) and isinstance(x.ctx, ast.Store)} - params
        for x in ast.walk(fn):
            if isinstance(x, ast.Name) and x.id in stored:
                x.id = x.id + "_"
        return fn


class Comp2For(ast.NodeTransformer):
    """a list comprehension used as a statement (for its side effects) becomes a for loop"""

    def visit_Expr(self, n):
        v = n.value
        if isinstance(v, ast.ListComp) and len(v.generators) == 1 and not v.generators[0].is_async:
            g = v.generators[0]
            body = [ast.Expr(value=v.elt)]
            for cond in reversed(g.ifs):
                body = [ast.If(test=cond, body=body, orelse=[])]
            return ast.For(target=g.target, iter=g.iter, body=body, orelse=[])
        return n


class ElseReturn(ast.NodeTransformer):
    """`if c: ...return/raise` followed by statements: the rest moves into an explicit else"""

    def _block(self, stmts):
        out = []
        for i, st in enumerate(stmts):
            st = self.visit(st)
            if isinstance(st, ast.If) and not st.orelse and st.body and isinstance(st.body[-1], (ast.Return, ast.Raise)) and i + 1 < len(stmts):
                rest = self._block(stmts[i + 1:])
                st.orelse = rest
                out.append(st)
                return out
            out.append(st)
        return out

    def visit_FunctionDef(self, fn):
        fn.body = self._block(fn.body)
        return fn


class TempVar(ast.NodeTransformer):
    """`return <expr>` becomes `_ret = <expr>; return _ret`, and `self.f = <call>` goes through a temporary"""

    def visit_FunctionDef(self, fn):
        self.generic_visit(fn)
        if any(isinstance(x, (ast.Yield, ast.YieldFrom)) for x in ast.walk(fn)):
            return fn

        class R(ast.NodeTransformer):
            def visit_FunctionDef(self, n):
                return n

            def visit_Lambda(self, n):
                return n

            def visit_Return(self, n):
                if n.value is None or isinstance(n.value, (ast.Name, ast.Constant)):
                    return n
                return [ast.Assign(targets=[ast.Name(id="_ret", ctx=ast.Store())], value=n.value), ast.Return(value=ast.Name(id="_ret", ctx=ast.Load()))]

        fn.body = [x for st in fn.body for x in (lambda r: r if isinstance(r, list) else [r])(R().visit(st))]
        return fn


T = {"ifswap": IfSwap, "augassign": Aug, "rename": Rename, "comp2for": Comp2For, "elsereturn": ElseReturn, "tempvar": TempVar}[kind]
for f in os.listdir(SRC):
    if not f.endswith(".py"):
        continue
    src = open(os.path.join(SRC, f)).read()
    if f in ("core.py", "algos.py", "backtest.py"):
        tree = T().visit(ast.parse(src))
        ast.fix_missing_locations(tree)
        src = ast.unparse(tree)
    open(os.path.join(out, "bt", f), "w").write(src)
print("written", out)
