#!/usr/bin/env python3
"""Semantics-preserving rewrites of /repo/bt/*.py into a scratch tree (development aid): the checks must not raise a VIOLATION on them.
usage: refactor.py <kind> <outdir>    kind: ifswap | augassign | rename"""
import ast, os, shutil, sys

kind, out = sys.argv[1], sys.argv[2]
os.makedirs(os.path.join(out, "bt"), exist_ok=True)


class IfSwap(ast.NodeTransformer):
    def visit_If(self, n):
        self.generic_visit(n)
        if n.orelse and not (len(n.orelse) == 1 and isinstance(n.orelse[0], ast.If)):
            return ast.If(test=ast.UnaryOp(op=ast.Not(), operand=n.test), body=n.orelse, orelse=n.body)
        return n


class Aug(ast.NodeTransformer):
    def visit_AugAssign(self, n):
        self.generic_visit(n)
        if isinstance(n.target, ast.Name):
            return ast.Assign(targets=[ast.Name(id=n.target.id, ctx=ast.Store())], value=ast.BinOp(left=ast.Name(id=n.target.id, ctx=ast.Load()), op=n.op, right=n.value))
        return n


class Rename(ast.NodeTransformer):
    """rename every plain local (not a parameter, not used in a nested function) of every function: x -> x_"""

    def visit_FunctionDef(self, fn):
        params = {a.arg for a in fn.args.args + fn.args.kwonlyargs} | ({fn.args.vararg.arg} if fn.args.vararg else set()) | ({fn.args.kwarg.arg} if fn.args.kwarg else set())
        nested = any(isinstance(x, (ast.FunctionDef, ast.Lambda)) for x in ast.walk(fn) if x is not fn)
        if nested:
            return fn
        stored = {x.id for x in ast.walk(fn) if isinstance(x, ast.Name) and isinstance(x.ctx, ast.Store)} - params
        for x in ast.walk(fn):
            if isinstance(x, ast.Name) and x.id in stored:
                x.id = x.id + "_"
        return fn


T = {"ifswap": IfSwap, "augassign": Aug, "rename": Rename}[kind]
for f in os.listdir("/repo/bt"):
    if not f.endswith(".py"):
        continue
    src = open(os.path.join("/repo/bt", f)).read()
    if f in ("core.py", "algos.py", "backtest.py"):
        tree = T().visit(ast.parse(src))
        ast.fix_missing_locations(tree)
        src = ast.unparse(tree)
    open(os.path.join(out, "bt", f), "w").write(src)
print("written", out)
