#!/usr/bin/env python3
"""usage: tools/filldetect.py <sweep log> [--all]  -- records in seeded/<name>/meta.json which obligations reported each seeded change (from the lines
tools/seedrun.sh prints); only seeds whose detected_by is empty unless --all"""
import json, os, re, sys
log = open(sys.argv[1]).read().splitlines()
allp = "--all" in sys.argv
for ln in log:
    m = re.match(r"(\S+?)/patch\.diff check (C\d\d) exit=(\d) :: (.*)", ln)
    if not m:
        continue
    name, prop, rc, rest = m.group(1), m.group(2), m.group(3), m.group(4)
    mp = os.path.join("/verif/seeded", name, "meta.json")
    if not os.path.exists(mp):
        continue
    meta = json.load(open(mp))
    if meta.get("detected_by", {}).get(prop) and not allp:
        continue
    obs = []
    for v in rest.split("|"):
        mm = re.search(r"obligation=(.*?)( no-failing-input-found)?$", v.strip())
        if mm:
            o = mm.group(1).strip()
            obs.append(o + ("" if mm.group(2) else " (failing input reproduced on the real code)"))
    meta.setdefault("detected_by", {})[prop] = ("exit %s: " % rc) + "; ".join(obs[:3]) if obs else "exit %s" % rc
    json.dump(meta, open(mp, "w"), indent=1)
    print(name, prop, meta["detected_by"][prop][:120])
