#!/bin/sh
# usage: tools/seedall.sh [parallel]  -- every archived seeded change against the check(s) of its property (and the other checks recorded as detecting it),
# each on its own scratch copy; one line per (seed, check).  Expect exit=1 everywhere.
cd /verif
P=${1:-3}
for d in seeded/*/; do
  n=$(basename $d)
  props=$(python3 -c "import json;m=json.load(open('$d/meta.json'));print(' '.join(sorted(set([m['property']])|set(m.get('detected_by',{}).keys()))))")
  echo "/verif/$d/patch.diff $props"
done | xargs -P $P -L 1 tools/seedrun.sh 2>&1 | grep -v conda
