#!/bin/sh
# runs every claimed check against /repo (fresh evidence); prints one line per check
cd /verif
for p in $(python3 -c "import json;print(' '.join(c['property_id'] if 'property_id' in c else c['id'] for c in json.load(open('MANIFEST.json'))['checks']))" 2>/dev/null || ls props | sed -n 's/^\(C[0-9][0-9]\)\.py$/\1/p'); do
  ./check $p --tier ${1:-quick} > out/runall_$p.log 2>&1; echo "$p exit=$? $(tail -1 out/runall_$p.log)"
done
