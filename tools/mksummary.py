#!/usr/bin/env python3
"""refreshes the numeric columns (obligations, bounded stand-ins, wall time) of the summary table in DESIGN.md section 0 from evidence/*.json"""
import json, os, re
V = os.path.dirname(os.path.dirname(os.path.abspath(__file__)))
s = open(os.path.join(V, "DESIGN.md")).read()
out = []
for ln in s.splitlines(True):
    m = re.match(r"\| (C\d\d) \| ([^|]*) \| (.*) \| (\d+) \| ([^|]*) \| (\d+) s \|\s*$", ln)
    if m:
        ev = json.load(open(os.path.join(V, "evidence", m.group(1) + ".json")))
        cov = ev["coverage"]
        names = []
        for b in cov.get("bounded_stand_ins", []) or []:
            nm = "`%s`" % b.get("name", "?")
            if nm not in names:
                names.append(nm)
        stand = m.group(5).strip()
        if names:
            keep = [x.strip() for x in re.split(r",\s*", stand) if x.strip() and not x.strip().startswith("`") and x.strip() != "—"]
            stand = ", ".join(names + keep)
        ln = "| %s | %s | %s | %d | %s | %d s |\n" % (m.group(1), m.group(2), m.group(3), cov["obligations"], stand, round(ev["wall_s"]))
    out.append(ln)
open(os.path.join(V, "DESIGN.md"), "w").write("".join(out))
print("summary table refreshed")
