#!/bin/sh
# usage: tools/treerun.sh <tree> <label> [<prop>...]  -- every check against another tree (BT_REPO); one summary line per check
T=$1; L=$2; shift; shift
[ $# -eq 0 ] && set -- C01 C02 C03 C04 C05 C06 C07 C08 C09 C10 C11 C12 C13 C14 C15 C16 C17 C18 C19 C20
cd /verif
for p in "$@"; do
  BT_REPO=$T ./check $p > /tmp/tr_${L}_$p.log 2>&1; rc=$?
  echo "$L $p exit=$rc :: $(grep -E '^(VIOLATION|UNDECIDED|CHECKER)' /tmp/tr_${L}_$p.log | head -2 | cut -c1-220 | tr '\n' '|')"
done
