#!/bin/sh
# usage: tools/seedrun.sh <patch.diff> <prop> [<prop>...]   -- runs the checks against a scratch copy of /repo with the patch applied
PATCH=$1; shift
D=$(mktemp -d /tmp/seedrepo.XXXX)
mkdir -p $D/bt && cp /repo/bt/*.py $D/bt/
( cd $D && patch -p1 -s < "$PATCH" ) || { echo "PATCH-FAILED $PATCH"; rm -rf $D; exit 9; }
cd /verif
for p in "$@"; do
  BT_REPO=$D ./check $p > $D/$p.log 2>&1; rc=$?
  echo "$(basename $(dirname $PATCH))/$(basename $PATCH) check $p exit=$rc :: $(grep '^VIOLATION' $D/$p.log | head -3 | cut -c1-200 | tr '\n' '|')"
  [ $rc -ge 2 ] && grep -E 'UNDECIDED|CHECKER' $D/$p.log | head -2 | cut -c1-300
done
rm -rf $D
