#!/usr/bin/env python3
"""Regenerate MANIFEST.json from the property modules present in props/ (run by hand; never at check time)."""
import importlib, json, os, sys
HERE = os.path.dirname(os.path.dirname(os.path.abspath(__file__)))
sys.path.insert(0, HERE)
props = [json.loads(l) for l in open(os.path.join(HERE, "properties.jsonl"))]
na_reasons = json.load(open(os.path.join(HERE, "tools", "not_applicable.json")))
checks = []
na = []
for p in props:
    pid = p["id"]
    path = os.path.join(HERE, "props", pid + ".py")
    if os.path.exists(path) and pid not in na_reasons:
        src = open(path).read()
        ns = {}
        # read MANIFEST_ENTRY literal without importing z3
        import ast
        tree = ast.parse(src)
        entry = None
        for n in tree.body:
            if isinstance(n, ast.Assign) and getattr(n.targets[0], "id", None) == "MANIFEST_ENTRY":
                entry = ast.literal_eval(n.value)
        if entry is None:
            raise SystemExit("props/%s.py lacks MANIFEST_ENTRY" % pid)
        checks.append(dict(
            property_id=pid, quick_cmd="./check %s --tier quick" % pid, thorough_cmd="./check %s --tier thorough" % pid,
            evidence_file="evidence/%s.json" % pid, replay_cmd_template="./check --replay {path}", engine="pyvc",
            level_claimed=dict(category=entry.get("category", "proof"), text=entry["level_text"], design_ref=entry.get("design_ref", "DESIGN.md 4 (%s)" % pid)),
            level_note=entry["level_note"], technique=entry["technique"]))
    else:
        na.append(dict(property_id=pid, reason=na_reasons.get(pid, "check not built yet in this session (contract-based verification planned, see DESIGN.md 4)")))
m = dict(
    version=1, setup_cmd="sh tools/setup.sh",
    hooks=dict(guard="BT_VERIF", enable="none needed: contracts are sidecars and the prover reads /repo/bt/*.py source; no hook code exists in /repo",
               baseline_off_cmd="cd /repo && /venv/bin/python -m pytest -q -p no:cacheprovider tests", source_commits=[], add_only=True),
    engines=[dict(name="pyvc", path="pyvc/", serves_properties=[c["property_id"] for c in checks],
                  kind_free_text="verification-condition generator: forking symbolic execution of the real Python AST of /repo/bt against sidecar contracts (functional specs, relational contracts, loop invariants), obligations discharged by z3 (cvc5 on unknown)")],
    checks=checks, not_applicable=na,
    notes="Exit codes of ./check: 0 held, 1 VIOLATION, 2 undecided (never reported as violation), 3 checker error. See DESIGN.md.")
json.dump(m, open(os.path.join(HERE, "MANIFEST.json"), "w"), indent=1)
print("checks:", [c["property_id"] for c in checks], "not_applicable:", [x["property_id"] for x in na])
