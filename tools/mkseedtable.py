#!/usr/bin/env python3
"""Regenerates the seeded-changes table of DESIGN.md (between the SEEDTABLE markers) from seeded/*/meta.json."""
import glob, json, os, re
HERE = os.path.dirname(os.path.dirname(os.path.abspath(__file__)))
rows = []
for d in sorted(glob.glob(os.path.join(HERE, "seeded", "*"))):
    m = json.load(open(os.path.join(d, "meta.json")))
    det = "; ".join("%s: %s" % (k, v) for k, v in (m.get("detected_by") or {}).items())
    rows.append("| %s | %s | %s |" % (os.path.basename(d), (m.get("needs_to_manifest") or "").replace("|", "/"), det.replace("|", "/")))
p = os.path.join(HERE, "DESIGN.md")
s = open(p).read()
block = "<!-- SEEDTABLE:begin -->\n" + "\n".join(rows) + "\n<!-- SEEDTABLE:end -->"
if "<!-- SEEDTABLE:begin -->" in s:
    s = re.sub(r"<!-- SEEDTABLE:begin -->.*?<!-- SEEDTABLE:end -->", lambda _: block, s, flags=re.S)
else:
    s = s.replace("SEEDTABLE", block, 1)
s = re.sub(r"\d+ independently seeded", "%d independently seeded" % len(rows), s)
open(p, "w").write(s)
print(len(rows), "seeded changes")
