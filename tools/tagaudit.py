#!/usr/bin/env python3
"""which functions under contract produce obligations tagged with a property whose check does not run them?  (development aid)"""
import importlib, json, os, sys
sys.path.insert(0, os.path.dirname(os.path.dirname(os.path.abspath(__file__))))
from pyvc.runner import run_tasks
PIDS = ["C%02d" % i for i in range(1, 21)]
tasks_of, alltasks = {}, {}
for pid in PIDS:
    mod = importlib.import_module("props." + pid)
    ts = [t for t in mod.tasks("quick", 0) if t.get("kind") == "func"]
    tasks_of[pid] = {json.dumps(t, sort_keys=True) for t in ts}
    for t in ts:
        alltasks[json.dumps(t, sort_keys=True)] = t
keys = sorted(alltasks)
res = run_tasks([alltasks[k] for k in keys], jobs=16)
tags = {}
for k, r in zip(keys, res):
    s = set()
    for o in r.get("results", []):
        for p in o.get("props") or []:
            s.add(p)
    tags[k] = s
for pid in PIDS:
    missing = [k for k in keys if pid in tags[k] and k not in tasks_of[pid]]
    for k in missing:
        t = alltasks[k]
        ids = sorted({o["id"] for r, kk in zip(res, keys) if kk == k for o in r.get("results", []) if pid in (o.get("props") or [])})
        print(pid, "does not run", t["qualname"], t.get("kw") or "", "->", len(ids), "tagged obligations e.g.", ids[:3])
