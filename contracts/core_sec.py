"""
Contracts of the security-level functions of bt/core.py and of StrategyBase.adjust.

Every spec function below is a *postcondition in functional form*: post-state = spec(pre-state),
with an empty frame for every field it does not assign.  Property clauses (the sentences of
C02/C03/C05/C07/C17 ... that talk about one call) are proved from these specs as lemmas, and the
real bodies are proved to satisfy the specs.
"""
from pyvc import dsl
from pyvc.dsl import Num, And, Or, Not, Implies, ite, absv, isnan, is_zero, eq, ne, isnone, optval

SEC_PLAIN = ("SecurityBase", "Security")
SEC_FI = ("FixedIncomeSecurity",)
SEC_COUPON = ("CouponPayingSecurity",)
SEC_HEDGE = ("HedgeSecurity",)
SEC_CPHEDGE = ("CouponPayingHedgeSecurity",)
SEC_ALL = SEC_PLAIN + SEC_FI + SEC_COUPON + SEC_HEDGE + SEC_CPHEDGE


# ------------------------------------------------------------------ StrategyBase.adjust (A.2)
def spec_adjust(S, self, amount, update, flow, fee):
    S.set(self, "_capital", S.get(self, "_capital") + amount)
    S.set(self, "_last_fee", S.get(self, "_last_fee") + fee)
    with S.when(flow):
        S.set(self, "_net_flows", S.get(self, "_net_flows") + amount)
    with S.when(update):
        S.set(S.get(self, "root"), "stale", True)
    return None


# ------------------------------------------------------------------ SecurityBase.outlay (A.1), commission
def spec_commission(S, self, q, p):
    return S.comm(S.get(self, "parent"), q, p)


def spec_outlay(S, self, q, p):
    price = S.get(self, "_price")
    mult = S.get(self, "multiplier")
    pn = isnone(p)
    peff = ite(pn, price, optval(p)) if not isinstance(pn, bool) else (price if pn else optval(p))
    fee = S.comm(S.get(self, "parent"), q, peff * mult)
    if isinstance(pn, bool):
        bidoffer = absv(q) * 0.5 * S.get(self, "_bidoffer") * mult if pn else q * (optval(p) - price) * mult
    else:
        bidoffer = ite(pn, absv(q) * 0.5 * S.get(self, "_bidoffer") * mult, q * (optval(p) - price) * mult)
    outlay = q * price * mult + bidoffer
    return (outlay + fee, outlay, fee, bidoffer)


# ------------------------------------------------------------------ SecurityBase.update family (A.4)
def _inow(S, self, date, inow):
    n = isnone(inow)
    computed = ite(eq(date, 0), 0, S.idx(self, date))
    if isinstance(n, bool):
        return computed if n else optval(inow)
    return ite(n, computed, optval(inow))


def spec_secbase_update(S, self, date, data, inow):
    """exact behaviour of SecurityBase.update"""
    now = S.get(self, "now")
    S.return_if(And(eq(date, now), eq(S.get(self, "_last_pos"), S.get(self, "_position"))))
    i = _inow(S, self, date, inow)
    with S.when(ne(date, now)):
        S.set(self, "now", date)
        with S.when(S.get(self, "_prices_set")):
            S.set(self, "_price", S.hist_get(self, "_prices", i))
        # traditional data update: the price for the date is handed in
        with S.when(And(Not(S.get(self, "_prices_set")), Not(isnone(data)))):
            prc = S.dataval(data, self)
            S.set(self, "_price", prc)
            S.hist_set(self, "_prices", i, prc)
        with S.when(S.get(self, "_bidoffer_set")):
            S.set(self, "_bidoffer", S.hist_get(self, "_bidoffers", i))
            S.set(self, "_bidoffer_paid", 0.0)
    pos = S.get(self, "_position")
    S.hist_set(self, "_positions", i, pos)
    S.set(self, "_last_pos", pos)
    price = S.get(self, "_price")
    S.raise_if(And(isnan(price), Not(is_zero(pos))), "Exception")
    S.set(self, "_value", ite(isnan(price), 0.0, pos * price * S.get(self, "multiplier")))
    S.set(self, "_notl_value", S.get(self, "_value"))
    S.hist_set(self, "_values", i, S.get(self, "_value"))
    S.hist_set(self, "_notl_values", i, S.get(self, "_notl_value"))
    with S.when(And(is_zero(S.get(self, "_weight")), is_zero(pos))):
        S.set(self, "_needupdate", False)
    with S.when(ne(S.get(self, "_outlay"), 0)):
        S.hist_set(self, "_outlays", i, S.hist_get(self, "_outlays", i) + S.get(self, "_outlay"))
        S.set(self, "_outlay", 0.0)
    with S.when(S.get(self, "_bidoffer_set")):
        S.hist_set(self, "_bidoffers_paid", i, S.get(self, "_bidoffer_paid"))
    return None


def spec_fi_update(S, self, date, data, inow):
    i = _inow(S, self, date, inow)
    S.call(spec_secbase_update, self, date, data, i)
    S.set(self, "_notl_value", S.get(self, "_position"))
    S.hist_set(self, "_notl_values", i, S.get(self, "_notl_value"))
    return None


def spec_coupon_update(S, self, date, data, inow):
    i = _inow(S, self, date, inow)
    cp = S.get(self, "_coupons")
    S.raise_if(isnone(cp), "Exception")
    S.call(spec_fi_update, self, date, data, i)
    coupon = S.hist_get(self, "_coupons", i)
    pos = S.get(self, "_position")
    S.raise_if(And(isnan(coupon), Not(is_zero(pos))), "Exception")
    S.set(self, "_coupon", ite(isnan(coupon), 0.0, pos * coupon))
    longc = And(pos > 0, Not(isnone(S.get(self, "_cost_long"))))
    shortc = And(Not(longc), pos < 0, Not(isnone(S.get(self, "_cost_short"))))
    hc = ite(longc, pos * S.hist_get(self, "_cost_long", i), ite(shortc, -pos * S.hist_get(self, "_cost_short", i), 0.0))
    S.set(self, "_holding_cost", hc)
    S.set(self, "_capital", S.get(self, "_coupon") - S.get(self, "_holding_cost"))
    S.hist_set(self, "_coupon_income", i, S.get(self, "_coupon"))
    S.hist_set(self, "_holding_costs", i, S.get(self, "_holding_cost"))
    return None


def spec_hedge_update(S, self, date, data, inow):
    S.call(spec_secbase_update, self, date, data, inow)
    S.set(self, "_notl_value", 0.0)
    S.hist_fill(self, "_notl_values", 0.0)
    return None


def spec_cphedge_update(S, self, date, data, inow):
    S.call(spec_coupon_update, self, date, data, inow)
    S.set(self, "_notl_value", 0.0)
    S.hist_fill(self, "_notl_values", 0.0)
    return None


def spec_sec_update(S, self, date, data, inow, exact=False):
    """family contract: dispatch on the dynamic class of the security"""
    if exact:
        return S.call(spec_secbase_update, self, date, data, inow)
    for names, fn in (
        (SEC_PLAIN, spec_secbase_update),
        (SEC_FI, spec_fi_update),
        (SEC_COUPON, spec_coupon_update),
        (SEC_HEDGE, spec_hedge_update),
        (SEC_CPHEDGE, spec_cphedge_update),
    ):
        with S.when(S.cls_is(self, names)):
            S.call(fn, self, date, data, inow)
    return None


# ------------------------------------------------------------------ SecurityBase.transact (A.3)
def spec_transact(S, self, q, update, update_self, price):
    parent = S.get(self, "parent")
    with S.when(And(update_self, Or(S.get(self, "_needupdate"), ne(S.get(self, "now"), S.get(parent, "now"))))):
        S.call(spec_sec_update, self, S.get(parent, "now"), None, None)
    S.return_if(Or(is_zero(q), isnan(q)))
    S.raise_if(And(Not(isnone(price)), Not(S.get(self, "_bidoffer_set"))), "ValueError")
    S.set(self, "_needupdate", True)
    S.set(self, "_position", S.get(self, "_position") + q)
    full, outlay, fee, bidoffer = S.call(spec_outlay, self, q, price)
    S.set(self, "_outlay", S.get(self, "_outlay") + outlay)
    S.set(self, "_bidoffer_paid", S.get(self, "_bidoffer_paid") + bidoffer)
    S.call(spec_adjust, parent, -full, update, False, fee)
    return None
