"""
Backtest.run under contract (C03 call order with initial capital as a flow, C11 has_run, C16 no algos
once bankrupt, C04 one date at a time in index order, C08 update before and after the algos).
"""
import time
import traceback

import z3

from pyvc import dsl
from pyvc.dsl import Num, And, Or, Not, Implies, ite
from pyvc.heap import RefV
from pyvc.state import SpecState, Oblig, Undecided
from pyvc.contracts import RelationalContract, LoopSpec, value_same
from pyvc.symexec import NONEV, _Raised
from pyvc.ext_algos import idxlen_c, dateat_f
from .tree import treeof_f
from .core_strat import update_modkeys


def _zb(f):
    return z3.BoolVal(f) if isinstance(f, bool) else f


def apply_setup(ex, st, recv, args, exact=False):
    """StrategyBase.setup(universe, **kwargs): (re)initialises the whole tree; the bankrupt flag is reset"""
    h = st.heap
    rt = h.get(recv, "root")
    for key in update_modkeys():
        h.havoc(key, cond=lambda x: treeof_f(x) == rt.term)
    h.set(recv, "bankrupt", False)
    s2 = st.fork()
    s2.assume(dsl.fresh_bool("setup_raises"))
    return [(s2, _Raised("Exception")), (st, NONEV)]


def setup_contract():
    c = RelationalContract("bt.core.StrategyBase.setup", [("universe", "any")], apply_setup, self_cls="StrategyBase", note="opaque: rebuilds histories of the whole tree; ensures bankrupt == False")
    c.raw_args = True
    return c


def _names(log):
    return [c[0].rsplit(".", 1)[1] if c[0] != "<algo>" else "<algo>" for c in log]


def _bt_inv(ctx):
    """per-iteration clauses are checked in the step phase from the ghost call log of the iteration"""
    st = ctx.cur
    self = ctx.entry.locals["self"]
    out = [("strategy-field-unchanged", st.heap.get(self, "strategy").term == ctx.entry.heap.get(self, "strategy").term)]
    strat0 = ctx.entry.heap.get(self, "strategy")
    # the strategy's clock follows the loop: after i iterations it stands on date number i of the data (row 0 is the pre-start row updated before the loop)
    out.append(("clock-is-on-the-last-date-fed", st.heap.get(strat0, "now").eq(Num(dateat_f(Num.lift(ctx.i).r), False, True))))
    if ctx.phase != "step":
        return out
    strat = ctx.entry.heap.get(self, "strategy")
    new = [c for c in st.log[len(ctx.head.log):] if len(c) == 4]
    names = _names(new)
    dt = st.locals["dt"]
    ih = ctx.i - 1
    out.append(("feeds-dates-in-index-order", dt.eq(Num(dateat_f((ih + 1).r), False, True))))
    ok_shape = names in (["update", "run", "update"], ["update"], ["update", "update"])
    out.append(("iteration-is-update-[run-update]", ok_shape))
    for c in new:
        out.append(("calls-are-on-the-backtest-strategy", c[1].term == strat.term))
        if c[0].endswith(".update"):
            out.append(("update-is-for-the-current-date", c[2][0].eq(dt)))
    # bankrupt flag as left by the first update of the iteration decides whether the algos run
    if new:
        first = new[0]
        after_first = new[1][3] if len(new) > 1 else st.heap
        b = after_first.get(strat, "bankrupt")
        ran = "run" in names or names == ["update", "update"]
        out.append(("algos-not-run-once-bankrupt", Implies(b, not ran)))
        out.append(("algos-run-and-updated-again-while-solvent", Implies(Not(b), names[0] == "update" and names[-1] == "update" and len(names) >= 2)))
    return out


def _bt_havoc(ctx):
    self = ctx.entry.locals["self"]
    strat = ctx.entry.heap.get(self, "strategy")
    rt = ctx.entry.heap.get(strat, "root")
    keys = [k for k in ctx.entry.heap.maps.keys() if k.split("#")[0] not in ("strategy", "has_run", "progress_bar", "initial_capital", "parent", "root", "_issec", "_paper", "_paper_trade", "_fixed_income", "_bidoffer_set", "_has_strat_children")]

    def condfn(i):
        return lambda x: treeof_f(x) == rt.term

    from .algos_flow import tree_keys

    ks = (set(keys) | set(update_modkeys()) | {"stale"} | set(tree_keys())) - {"_universe_tickers"}
    for k in ks:
        ctx.entry.heap.ensure(k)
    return [(k, condfn) for k in sorted(ks)]


BT_LOOP = LoopSpec(_bt_inv, havoc_heap=_bt_havoc, name="date loop")


def verify_backtest_run(ex, contract, timeout_ms=30000):
    from pyvc.verify import FuncReport, discharge, entry_state

    fr = FuncReport(contract.qualname)
    try:
        fi = ex.prog.func(contract.qualname)
        fr.source_hash = fi.source_hash()
        st0, self, args = entry_state(ex, contract)
        E = st0.heap
        strat = E.get(self, "strategy")
        rt = E.get(strat, "root")
        st0.assume(And(strat.term != dsl.NONE, strat.term != self.term, rt.term == strat.term, E.get(strat, "parent").term == strat.term, treeof_f(strat.term) == strat.term, treeof_f(self.term) != strat.term, Not(E.get(self, "progress_bar")),
                       Not(dsl.isnan(E.get(self, "initial_capital"))), idxlen_c >= 1))
        from .tree import cls_in, STRAT_CLASSES

        st0.assume(cls_in(E.schema, strat.term, STRAT_CLASSES))
        for k in update_modkeys() + ["stale", "strategy", "has_run"]:
            E.ensure(k)
        E = st0.heap.copy()
        t0 = time.time()
        exits = ex.run_function(fi, st0.fork(), self, [])
        fr.symexec_s = time.time() - t0
        fr.paths = len(exits)
        obligs = []
        for xi, (st, oc) in enumerate(exits):
            kind = oc.kind if oc.kind != "raise" else "raise:" + oc.exc
            fr.exits[kind] = fr.exits.get(kind, 0) + 1
            obligs.extend(st.obligs)
            if oc.kind == "raise":
                continue
            F = st.heap
            calls = [c for c in st.log if len(c) == 4]
            names = _names(calls)

            def ob(cid, goal, props):
                obligs.append(Oblig("Backtest.run/%s" % cid, st.pc, goal, "post", props))

            had = E.get(self, "has_run")
            # C11: asking a finished backtest to run again does nothing
            same = And(*[_zb(True)] + [F.ensure(k).select(x) == E.ensure(k).select(x) for k in F.maps for x in [z3.Const(dsl.fresh_name("xfr"), dsl.Ref)] if k in E.maps and F.maps[k] is not E.maps[k]]) if False else True
            ob("rerun-does-nothing", Implies(had, len(calls) == 0), ("C11",))
            x = z3.Const(dsl.fresh_name("xfr"), dsl.Ref)
            for k in sorted(F.maps.keys()):
                a, b = F.maps[k], E.ensure(k)
                from pyvc.heap import map_same

                if map_same(a, b):
                    continue
                ob("rerun-writes-nothing:%s" % k, Implies(had, a.select(x) == b.select(x)), ("C11",))
            ob("sets-has_run", F.get(self, "has_run"), ("C11",))
            if calls:
                # C03: setup, then the initial capital enters as a flow (adjust's defaults), then the pre-start row is updated
                ob("starts-with-setup-adjust-update", names[:3] == ["setup", "adjust", "update"], ("C03", "C08"))
                if names[:3] == ["setup", "adjust", "update"]:
                    adj = calls[1]
                    amount, upd, flow, fee = adj[2]
                    ob("initial-capital-enters-as-a-flow", And(adj[1].term == strat.term, value_same(amount, E.get(self, "initial_capital")), flow is True or (flow is not False and flow), dsl.same(fee, 0.0)), ("C03",))
                    up0 = calls[2]
                    ob("first-update-is-the-pre-start-row", And(up0[1].term == strat.term, up0[2][0].eq(Num(dateat_f(0), False, True))), ("C03", "C12"))
                ob("no-algos-before-the-date-loop", "run" not in names, ("C12", "C16"))
                # every date of the data is visited, whatever happens on the way (a bankrupt strategy is still updated): the run ends on the last date
                ob("the-run-ends-on-the-last-date-of-the-data", Implies(idxlen_c >= 1, F.get(strat, "now").eq(Num(dateat_f(idxlen_c - 1), False, True))), ("C09", "C16", "C10", "C08"))
                # shadow copies are deep-copied inside setup and are not reached by set_commissions/use_integer_positions afterwards
                ob("settings-not-changed-after-setup", "set_commissions" not in names and "use_integer_positions" not in names, ("C09", "C19", "C07"))
        s = z3.Solver()
        for p in st0.pc:
            s.add(p)
        fr.canary = str(s.check())
        discharge(obligs, timeout_ms, fr, contract.qualname)
        fr.stats = dict(feas_queries=ex.stats.feas_queries, feas_s=round(ex.stats.feas_time, 3), inlined=sorted(ex.stats.inlined), contracts_used=sorted(ex.stats.contracts_used))
    except Undecided as e:
        fr.undecided = str(e)
    except Exception as e:
        fr.undecided = "ENGINE-ERROR: %s\n%s" % (e, traceback.format_exc())
    return fr


def contracts():
    return [
        (setup_contract(), None),
        (RelationalContract("bt.backtest.Backtest.run", [], None, self_cls="Backtest", note="see verify_backtest_run"), verify_backtest_run),
    ]


LOOPS = {("bt.backtest.Backtest.run", 0): BT_LOOP}
