"""
Contracts of the weighting algos that do not delegate to an external optimiser (property C15):
WeighEqually, WeighSpecified, ScaleWeights, WeighTarget, LimitDeltas; glue of LimitWeights.
temp['weights'] is a string-keyed dict (or Series) of floats; equalities are proved at skolem labels.
"""
import time
import traceback

import z3

from pyvc import dsl
from pyvc.dsl import Num, And, Or, Not, Implies, ite, absv
from pyvc.heap import RefV, StrV
from pyvc.state import Oblig, Undecided
from pyvc.contracts import RelationalContract, LoopSpec, ForallInt, value_same
from pyvc.ext_frames import DictObjV, RowV, ListLV, IndexLV, dict_has, dict_get, fresh_label, lst_mem, lst_ord, fidx_mem, fcol_mem, fcell, fcell_nan
from .algos_select import label_hyps, entry_selected

P15 = ("C15",)


def _zb(f):
    return z3.BoolVal(f) if isinstance(f, bool) else f


def verify_weigher(ex, contract, timeout_ms=30000):
    from pyvc.verify import FuncReport, discharge, entry_state
    from pyvc.ext_algos import TempV

    fr = FuncReport(contract.qualname)
    cls = contract.self_cls
    name = "%s.__call__" % cls
    try:
        fi = ex.prog.func(contract.qualname)
        fr.source_hash = fi.source_hash()
        st0, self, args = entry_state(ex, contract)
        target = args[0]
        E = st0.heap
        st0.assume(And(target.term != dsl.NONE, target.term != self.term))
        if cls in ("WeighEqually",):
            st0.assume(st0.heap.ensure_ghost_bool("tmp#has:temp:selected").select(target.term))
        if cls in ("ScaleWeights",):
            st0.assume(st0.heap.ensure_ghost_bool("tmp#has:temp:weights").select(target.term))
        W0 = ex.temp_value(st0, TempV(target, "temp"), "weights") if cls in ("ScaleWeights",) else None
        E = st0.heap.copy()
        sel = entry_selected(ex, self, target)
        t0 = time.time()
        exits = ex.run_function(fi, st0.fork(), self, [target])
        fr.symexec_s = time.time() - t0
        fr.paths = len(exits)
        obligs = []
        for xi, (st, oc) in enumerate(exits):
            kind = oc.kind if oc.kind != "raise" else "raise:" + oc.exc
            fr.exits[kind] = fr.exits.get(kind, 0) + 1
            obligs.extend(st.obligs)
            if oc.kind == "raise":
                continue
            if oc.kind != "return":
                obligs.append(Oblig("%s/no-other-exit" % name, st.pc, False, "post", P15))
                continue
            F = st.heap
            w = st.ghost.get("temp:temp:weights")
            x = fresh_label("x")
            pc = list(st.pc) + label_hyps(st, [x])

            def ob(cid, goal):
                obligs.append(Oblig("%s/%s" % (name, cid), pc, goal, "post", P15))

            if cls == "WeighEqually":
                ob("returns-True", oc.value is True)
                isd = isinstance(w, DictObjV)
                ob("sets-weights", isd)
                if isd:
                    n = st.ghost.get("we_n")
                    ob("exactly-the-selected-tickers-are-weighted", dict_has(F, w.ref, x) == _zb(sel.mem(x)))
                    selv = st.ghost.get("temp:temp:selected")
                    card = selv.ls.n if selv is not None and selv.ls.n is not None else None
                    ob("cardinality-known", card is not None)
                    if card is not None:
                        ob("each-weight-is-one-over-n", Implies(sel.mem(x), And(card > 0, value_same(dict_get(F, w.ref, x), Num.lift(1.0) / card))))
                        ob("weights-sum-to-one:n-times-one-over-n", Implies(card > 0, (card * (Num.lift(1.0) / card)).eq(1)))
            elif cls == "ScaleWeights":
                ob("returns-True", oc.value is True)
                isd = isinstance(w, DictObjV)
                ob("sets-weights", isd)
                if isd:
                    ob("same-keys", dict_has(F, w.ref, x) == dict_has(E, W0.ref, x))
                    ob("each-weight-scaled-linearly", Implies(dict_has(E, W0.ref, x), value_same(dict_get(F, w.ref, x), E.get(self, "scale") * dict_get(E, W0.ref, x))))
            elif cls == "WeighSpecified":
                ob("returns-True", oc.value is True)
                tok = ex._dict_token(self, "weights") if hasattr(ex, "_dict_token") else None
                isd = isinstance(w, DictObjV)
                ob("sets-weights", isd)
                if isd:
                    src = z3.Function("specified_weights", dsl.Ref, dsl.Ref)(self.term)
                    if src is not None:
                        ob("copy-not-alias", w.ref != src)
                        ob("same-content-as-specified", And(dict_has(F, w.ref, x) == dict_has(E, src, x), Implies(dict_has(E, src, x), value_same(dict_get(F, w.ref, x), dict_get(E, src, x)))))
            elif cls == "WeighTarget":
                nm = E.get(self, "weights_name")
                byname = z3.Function("data_by_name", dsl.Ref, dsl.Str, dsl.Ref)
                tok = z3.If(nm.isnone, ex._lst_token(self, "weights"), byname(target.term, nm.val.term))
                now = E.get(target, "now")
                res = oc.value if not isinstance(oc.value, bool) else z3.BoolVal(oc.value)
                ob("true-iff-a-target-row-exists-for-now", res == fidx_mem(tok, now.r))
                if isinstance(w, RowV):
                    v = Num(fcell(tok, now.r, x), fcell_nan(tok, now.r, x), False)
                    ob("weights-are-the-non-missing-targets-of-now", And(_zb(w.ls.mem(x)) == And(fcol_mem(tok, x), Not(dsl.isnan(v))), Implies(w.ls.mem(x), dsl.same(w.val(x), v))))
                else:
                    ob("weights-untouched-when-false", Not(res))
        s = z3.Solver()
        for p in st0.pc:
            s.add(p)
        fr.canary = str(s.check())
        discharge(obligs, timeout_ms, fr, contract.qualname)
        fr.stats = dict(feas_queries=ex.stats.feas_queries, feas_s=round(ex.stats.feas_time, 3), inlined=sorted(ex.stats.inlined), contracts_used=sorted(ex.stats.contracts_used))
    except Undecided as e:
        fr.undecided = str(e)
    except Exception as e:
        fr.undecided = "ENGINE-ERROR: %s\n%s" % (e, traceback.format_exc())
    return fr


def contracts():
    T = [("target", "ref:StrategyBase")]
    out = []
    for cls in ("WeighEqually", "ScaleWeights", "WeighTarget", "WeighSpecified"):
        out.append((RelationalContract("bt.algos.%s.__call__" % cls, T, None, self_cls=cls, note="temp['weights'] == documented weights"), verify_weigher))
    out.append((RelationalContract("bt.algos.LimitDeltas.__call__", T, None, self_cls="LimitDeltas", note="every key's change is capped at its limit; keys within their limit untouched"), verify_limit_deltas_proxy))
    return out


def verify_limit_deltas_proxy(ex, contract, timeout_ms=30000):
    return verify_limit_deltas(ex, contract, timeout_ms=timeout_ms)


# ------------------------------------------------------------------ LimitDeltas
from pyvc.ext_frames import dkey_at, dlen_f, dkey_pos  # noqa: E402
from .core_ops import named_child, named_child_facts  # noqa: E402


def _ld_terms(E, self, target, tw0, k):
    """per-key quantities of the contract, on the entry state"""
    has0 = dict_has(E, tw0, k)
    tgt = ite(has0, dict_get(E, tw0, k), 0.0)
    c = named_child(E, target, StrV(k))
    cur = ite(E.dict_has(target, "children", StrV(k)), E.get(c, "_weight"), 0.0)
    delta = tgt - cur
    ldict = z3.Function("limit_dict", dsl.Ref, dsl.Ref)(self.term)
    glob = E.get(self, "global_limit")
    limited = Or(glob, dict_has(E, ldict, k))
    lim = ite(glob, E.get(self, "limit_f"), dict_get(E, ldict, k))
    return has0, tgt, cur, delta, limited, lim


def _ld_clause(h, E, self, target, tw0, k):
    has0, tgt, cur, delta, limited, lim = _ld_terms(E, self, target, tw0, k)
    capped = And(limited, absv(delta) > lim)
    new = cur + lim * dsl.sign(delta)
    return And(
        Implies(capped, And(dict_has(h, tw0, k), value_same(dict_get(h, tw0, k), new))),
        Implies(Not(capped), And(dict_has(h, tw0, k) == has0, Implies(has0, value_same(dict_get(h, tw0, k), dict_get(E, tw0, k))))),
    )


def _ld_inv(ctx):
    st, E = ctx.cur, ctx.entry.heap
    self, target = ctx.entry.locals["self"], ctx.entry.locals["target"]
    tw = ctx.entry.locals["tw"]
    keys = ctx.entry.locals["all_keys"]
    tok = keys.ls.tok if getattr(keys.ls, "tok", None) is not None else None
    if tok is None:
        tok = dsl.fresh_ref("coll")
        keys.ls.tok = tok
    h = st.heap
    n = Num(dlen_f(tok), False, True)
    rt = h.get(target, "root")
    key = lambda j: dkey_at(tok, Num.lift(j).r)
    return [
        ("root-not-stale(weights-are-current)", Not(h.get(rt, "stale"))),
        ("processed-keys-are-limited", ForallInt(0, ctx.i, lambda j: _ld_clause(h, E, self, target, tw.ref, key(j)), name="jp")),
        ("unprocessed-keys-untouched", ForallInt(ctx.i, n, lambda j: And(dict_has(h, tw.ref, key(j)) == dict_has(E, tw.ref, key(j)), value_same(dict_get(h, tw.ref, key(j)), dict_get(E, tw.ref, key(j)))), name="ju")),
    ]


def _ld_havoc(ctx):
    tw = ctx.entry.locals["tw"]
    only = lambda i: (lambda x: x == tw.ref)
    return [("dct#has", only), ("dct#val", only), ("dct#valnan", only)]


def _ld_on_iter(ctx, c):
    st = ctx.cur
    target = st.locals["target"]
    st.assume(_zb(named_child_facts(ctx.entry.heap, target, c)))
    self = st.locals["self"]
    tw = ctx.entry.locals["tw"]
    ldict = z3.Function("limit_dict", dsl.Ref, dsl.Ref)(self.term)
    st.assume(tw.ref != ldict)


LD_LOOP = LoopSpec(_ld_inv, havoc_heap=_ld_havoc, on_iter=_ld_on_iter, name="limit each key's change")
LOOPS = {("bt.algos.LimitDeltas.__call__", 0): LD_LOOP}


def verify_limit_deltas(ex, contract, timeout_ms=30000):
    from pyvc.verify import FuncReport, discharge, entry_state
    from pyvc.ext_algos import TempV

    fr = FuncReport(contract.qualname)
    name = "LimitDeltas.__call__"
    try:
        fi = ex.prog.func(contract.qualname)
        fr.source_hash = fi.source_hash()
        st0, self, args = entry_state(ex, contract)
        target = args[0]
        E = st0.heap
        rt = E.get(target, "root")
        lim = E.get(self, "limit_f")
        st0.assume(And(target.term != dsl.NONE, target.term != self.term, Not(E.get(rt, "stale")), Not(dsl.isnan(lim)), lim >= 0, st0.heap.ensure_ghost_bool("tmp#has:temp:weights").select(target.term)))
        tw0 = ex.temp_value(st0, TempV(target, "temp"), "weights")
        E = st0.heap.copy()
        t0 = time.time()
        exits = ex.run_function(fi, st0.fork(), self, [target])
        fr.symexec_s = time.time() - t0
        fr.paths = len(exits)
        obligs = []
        for xi, (st, oc) in enumerate(exits):
            kind = oc.kind if oc.kind != "raise" else "raise:" + oc.exc
            fr.exits[kind] = fr.exits.get(kind, 0) + 1
            obligs.extend(st.obligs)
            if oc.kind == "raise":
                continue
            if oc.kind != "return":
                obligs.append(Oblig("%s/no-other-exit" % name, st.pc, False, "post", P15))
                continue
            F = st.heap
            keys = st.locals.get("all_keys")
            tok = keys.ls.tok
            n = Num(dlen_f(tok), False, True)
            key = lambda j: dkey_at(tok, Num.lift(j).r)

            def ob(cid, goal):
                o = Oblig("%s/%s" % (name, cid), st.pc, goal, "post", P15)
                o.schemas = list(st.ghost.get("schemas", []))
                obligs.append(o)

            ob("returns-True", oc.value is True)

            def within(j, F=F):
                has0, tgt, cur, delta, limited, lim_ = _ld_terms(E, self, target, tw0.ref, key(j))
                k = key(j)
                # new target for the key (absent == 0): its distance to the current weight never exceeds the limit once limited,
                # and it is untouched when it was already within the limit
                neww = ite(dict_has(F, tw0.ref, k), dict_get(F, tw0.ref, k), 0.0)
                return And(Implies(And(limited, lim_ >= 0, absv(delta) > lim_), absv(neww - cur).eq(lim_)), Implies(Not(And(limited, absv(delta) > lim_)), value_same(neww, tgt)))

            ob("every-key:change-no-larger-than-its-limit,-untouched-when-within", ForallInt(0, n, within, name="jw"))
        s = z3.Solver()
        for p in st0.pc:
            s.add(p)
        fr.canary = str(s.check())
        discharge(obligs, timeout_ms, fr, contract.qualname)
        fr.stats = dict(feas_queries=ex.stats.feas_queries, feas_s=round(ex.stats.feas_time, 3), inlined=sorted(ex.stats.inlined), contracts_used=sorted(ex.stats.contracts_used))
    except Undecided as e:
        fr.undecided = str(e)
    except Exception as e:
        fr.undecided = "ENGINE-ERROR: %s\n%s" % (e, traceback.format_exc())
    return fr
