"""All sidecar contracts, inlining decisions, loop invariants and per-function verifiers."""
from pyvc.contracts import FunctionalContract
from pyvc.verify import verify_functional
from . import core_sec as cs
from . import core_alloc as ca
from . import core_strat as st_
from . import algos_sched as sched
from . import algos_flow as flow
from . import core_ops as ops
from . import backtest_run as btr
from . import algos_select as sel
from . import algos_rebalance as rb
from . import core_getters as gt
from . import algos_weigh as wg
from . import core_tree as tr
from . import algos_risk as rk
from . import algos_close as cl
from . import reports as rp
from . import algos_roll as rl

UPD = [("date", "date"), ("data", "optdata"), ("inow", "optint")]

# which properties each post-state field of a functional contract carries
P_ADJUST = {"_capital": ("C02", "C07"), "_last_fee": ("C07",), "_net_flows": ("C03", "C07"), "stale": ("C08", "C01"), "*": ("C07",)}
P_OUTLAY = {"result": ("C02", "C05", "C07", "C18"), "*": ("C07",)}
P_TRANSACT = {
    "_position": ("C02", "C07", "C18"), "_outlay": ("C07", "C18"), "_bidoffer_paid": ("C07", "C18"), "_capital": ("C02", "C07"),
    "_last_fee": ("C07",), "_net_flows": ("C03", "C07"), "_needupdate": ("C01", "C08"), "stale": ("C08", "C01"), "raises": ("C10",), "*": ("C07", "C08"),
}
P_SECUPD = {
    "_value": ("C01", "C02"), "_notl_value": ("C01", "C17"), "_price": ("C01", "C04", "C10"), "now": ("C08",), "_positions": ("C01", "C08", "C18"),
    "_values": ("C01", "C08"), "_notl_values": ("C01", "C17", "C08"), "_outlays": ("C07", "C18", "C08"), "_outlay": ("C07",),
    "_needupdate": ("C01", "C08", "C02"), "_last_pos": ("C08",), "_bidoffer": ("C07", "C04"), "_bidoffer_paid": ("C07",), "_bidoffers_paid": ("C07", "C08"),
    "raises": ("C10",), "_coupon": ("C17", "C02"), "_holding_cost": ("C17", "C02"), "_capital": ("C17", "C02"), "_coupon_income": ("C17", "C08"),
    "_holding_costs": ("C17", "C08"), "*": ("C01", "C08"),
}


def ops_verify_flatten(ex, contract, timeout_ms=30000, variant="one-level"):
    if variant == "subs":
        return ops.verify_flatten_subs(ex, contract, timeout_ms=timeout_ms)
    return ops.verify_flatten(ex, contract, timeout_ms=timeout_ms)


def build():
    C = {}
    verifiers = {}

    def reg(c, verifier=None):
        C[c.qualname] = c
        verifiers[c.qualname] = verifier or verify_functional

    reg(FunctionalContract("bt.core.StrategyBase.adjust", [("amount", "float"), ("update", "bool"), ("flow", "bool"), ("fee", "float")], cs.spec_adjust, self_cls="StrategyBase", field_props=P_ADJUST))
    reg(FunctionalContract("bt.core.SecurityBase.outlay", [("q", "float"), ("p", "optfloat")], cs.spec_outlay, self_cls="SecurityBase", field_props=P_OUTLAY))
    reg(FunctionalContract("bt.core.SecurityBase.update", UPD, cs.spec_sec_update, self_cls="SecurityBase", family=True, field_props=P_SECUPD))
    reg(FunctionalContract("bt.core.FixedIncomeSecurity.update", UPD, cs.spec_fi_update, self_cls="FixedIncomeSecurity", field_props=P_SECUPD))
    reg(FunctionalContract("bt.core.CouponPayingSecurity.update", UPD, cs.spec_coupon_update, self_cls="CouponPayingSecurity", field_props=P_SECUPD))
    reg(FunctionalContract("bt.core.HedgeSecurity.update", UPD, cs.spec_hedge_update, self_cls="HedgeSecurity", field_props=P_SECUPD))
    reg(FunctionalContract("bt.core.CouponPayingHedgeSecurity.update", UPD, cs.spec_cphedge_update, self_cls="CouponPayingHedgeSecurity", field_props=P_SECUPD))
    reg(FunctionalContract("bt.core.SecurityBase.transact", [("q", "float"), ("update", "bool"), ("update_self", "bool"), ("price", "optfloat")], cs.spec_transact, self_cls="SecurityBase", field_props=P_TRANSACT))
    reg(ca.allocate_contract(), ca.verify_allocate)
    reg(st_.update_contract(), st_.verify_update)
    reg(st_.flatten_contract(), ops_verify_flatten)
    for c in sched.contracts():
        reg(c)
    verifiers.pop("bt.algos.RunPeriod.compare_dates")
    for c, v in flow.contracts():
        reg(c, v)
    from pyvc.contracts import RelationalContract as _RC

    getter_contracts = {}
    for (cls, g) in gt.GETTERS:
        c = _RC("bt.core.%s.%s" % (cls, g), [], None, self_cls=cls, note="read accessor: refresh iff pending, returns the field / own series cut at own date")
        getter_contracts[c.qualname] = c
        verifiers[c.qualname] = gt.verify_getter
    for c, v in rb.contracts():
        reg(c, v)
    for c, v in wg.contracts():
        reg(c, v)
    for c, v in tr.contracts():
        reg(c, v)
    for c, v in rk.contracts():
        reg(c, v)
    for c, v in cl.contracts():
        reg(c, v)
    for c, v in rp.contracts():
        reg(c, v)
    for c, v in rl.contracts():
        reg(c, v)
    for c, v in sel.contracts():
        reg(c, v)
        if v is None:
            verifiers.pop(c.qualname)
    verifiers["bt.core.StrategyBase.universe"] = gt.verify_universe_getter
    for c, v in btr.contracts():
        reg(c, v)
        if v is None:
            verifiers.pop(c.qualname)
    for c, v in ops.contracts():
        reg(c, v)
        if v is None:
            verifiers.pop(c.qualname)
    inline = {"bt.core.is_zero", "bt.core.SecurityBase.commission"}
    loops = {
        ("bt.core.SecurityBase.allocate", 0): ca.ALLOC_LOOP,
        ("bt.core.SecurityBase.allocate", 1): ca.ALLOC_STEP_UP,
        ("bt.core.StrategyBase.update", 0): st_.LOOP1,
        ("bt.core.StrategyBase.update", 1): st_.LOOP2,
        ("bt.core.StrategyBase.update", 2): st_.LOOP3,
    }
    loops.update(flow.LOOPS)
    loops.update(btr.LOOPS)
    loops.update(ops.LOOPS)
    loops.update(rb.LOOPS)
    loops.update(wg.LOOPS)
    loops.update(tr.LOOPS)
    loops.update(rk.LOOPS)
    loops.update(cl.LOOPS)
    loops.update(rp.LOOPS)
    loops.update(rl.LOOPS)
    # state merging at if-joins keeps StrategyBase.update at tens of paths; for the non-linear sizing
    # search of allocate separate paths are much easier for the solver
    options = {"bt.core.SecurityBase.allocate": dict(merge=False)}
    concrete_checks = {"bt.core.SecurityBase.allocate": ca.alloc_concrete_check}
    return dict(contracts=C, verifiers=verifiers, inline=inline, loops=loops, options=options, concrete_checks=concrete_checks, getter_contracts=getter_contracts)
