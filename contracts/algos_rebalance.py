"""
Contracts of algos.Rebalance.__call__ and algos.RebalanceOverTime.__call__ (property C06).

Rebalance is verified against its ghost call log, iteration by iteration, for any number of children
and targets:  base captured before any trade; every child that is not a target and has a non-zero,
non-NaN (notional) value is closed with update deferred, nothing else is touched in that loop; the
base is scaled by (1 - cash) for market-value strategies; every target gets exactly one
rebalance(weight, child=name, base=that base, update=False); one final root.update(now).
"""
import time
import traceback

import z3

from pyvc import dsl
from pyvc.dsl import Num, And, Or, Not, Implies, ite, isnan, ne
from pyvc.heap import RefV, StrV
from pyvc.state import Oblig, Undecided
from pyvc.contracts import RelationalContract, LoopSpec, ForallInt, value_same
from pyvc.symexec import NONEV, _Raised
from pyvc.ext_frames import DictObjV, dict_has, dict_get, dkey_at, dlen_f, dict_enum_facts
from .tree import slot_f, cidx_f, treeof_f, child_facts, children_schema, self_facts
from .core_strat import update_modkeys
from .core_ops import named_child, named_child_facts, apply_create_child, _havoc_sub, _maybe_raise

P06 = ("C06",)


def _zb(f):
    return z3.BoolVal(f) if isinstance(f, bool) else f


def apply_rebalance(ex, st, recv, args, exact=False):
    """StrategyBase.rebalance used modularly (its own clauses are proved by verify_rebalance): the named child (created
    if needed) and its subtree, own cash/fees and - iff update - root.stale may change"""
    weight, name, base, update = args
    out = []
    for (s, r) in apply_create_child(ex, st, recv, [name]):
        if isinstance(r, _Raised):
            out.append((s, r))
            continue
        h = s.heap
        c = named_child(h, recv, name)
        _havoc_sub(s, recv.term, cidx_f(c.term))
        for f in ("_capital", "_last_fee"):
            h.havoc(f, cond=lambda x: x == recv.term)
            h.havoc(f + "#nan", cond=lambda x: x == recv.term)
        rt = h.get(recv, "root")
        upd = update if not isinstance(update, bool) else z3.BoolVal(update)
        h.set(rt, "stale", Or(h.get(rt, "stale"), upd))
        out.append(_maybe_raise(s, "rebalance_raises"))
        out.append((s, NONEV))
    return out


def _tget(ex, st, target, key):
    from pyvc.ext_algos import TempV

    return ex.temp_has(st, TempV(target, "temp"), key), ex.temp_value(st, TempV(target, "temp"), key)


def spec_base(ex, st, H0, target):
    """the base every target is rebalanced against: captured from the state before any trade"""
    fi = H0.get(target, "_fixed_income")
    hasN, tN = _tget(ex, st, target, "notional_value")
    hasC, tC = _tget(ex, st, target, "cash")
    b0 = ite(fi, ite(hasN, tN, H0.get(target, "_notl_value")), H0.get(target, "_value"))
    return ite(And(hasC, Not(fi)), b0 * (1 - tC), b0)


# ---- loop 0: close the children that are not targets
def _l0_inv(ctx):
    st, E = ctx.cur, ctx.entry.heap
    target = ctx.entry.locals["target"]
    targets = ctx.entry.locals["targets"]
    out = []
    rt = st.heap.get(target, "root")
    was_stale = E.get(E.get(target, "root"), "stale")
    out.append(("root-not-stale(weights-stay-pre-trade)", Implies(Not(was_stale), Not(st.heap.get(rt, "stale")))))
    if ctx.phase == "init":
        st.ghost["rb_H0"] = st.heap.copy()
    if ctx.phase == "step":
        ih = ctx.i - 1
        H = ctx.head.heap
        allnew = [x for x in st.log[len(ctx.head.log):] if len(x) == 4]
        # the value the decision is based on is the child's value after any refresh triggered by reading it
        for k_, x in enumerate(allnew):
            if x[0].endswith("StrategyBase.update"):
                H = allnew[k_ + 1][3] if k_ + 1 < len(allnew) else st.heap
        c = E.list_at(target, "_childrenv", ih)
        nm = H.get(c, "name")
        v = ite(H.get(target, "_fixed_income"), H.get(c, "_notl_value"), H.get(c, "_value"))
        must = And(Not(dict_has(H, targets.ref, nm.term)), ne(v, 0), Not(isnan(v)))
        new = [x for x in allnew if x[0].rsplit(".", 1)[1] in ("close", "rebalance", "allocate", "transact", "flatten", "adjust")]
        closes = [x for x in new if x[0].endswith(".close")]
        out.append(("non-target-with-open-value-is-closed,-others-left-alone", And(len(new) == len(closes), len(closes) <= 1, must == (len(closes) == 1))))
        for x in closes:
            out.append(("close-is-on-that-child-with-update-deferred", And(x[1].term == target.term, x[2][0].term == nm.term, x[2][1] is False or (x[2][1] is not True and Not(x[2][1])))))
    return out


def _tree_havoc(ctx, name="target"):
    target = ctx.entry.locals[name]
    E = ctx.entry.heap
    rt = E.get(target, "root")
    # if the tree was stale when the loop started, the first value read refreshes it: anything in the tree may change
    was_stale = E.get(rt, "stale")
    refresh = lambda x: And(was_stale, treeof_f(x) == rt.term)

    def sub_or_self(i):
        i = Num.lift(i)
        return lambda x: Or(And(slot_f(target.term, x) >= 0, slot_f(target.term, x) < i.r), x == target.term, refresh(x))

    def sub(i):
        i = Num.lift(i)
        return lambda x: Or(And(slot_f(target.term, x) >= 0, slot_f(target.term, x) < i.r), refresh(x))

    out = []
    for k in update_modkeys():
        out.append((k, sub_or_self if k.split("#")[0] in ("_capital", "_last_fee") else sub))
    out.append(("stale", lambda i: (lambda x: And(was_stale, x == rt.term))))
    return out


def _l0_on_iter(ctx, c):
    st = ctx.cur
    target = st.locals["target"]
    for f in child_facts(ctx.entry.heap, target, ctx.i):
        st.assume(_zb(f))


L0 = LoopSpec(_l0_inv, havoc_heap=lambda ctx: _tree_havoc(ctx), on_iter=_l0_on_iter, name="close children that are not targets")


# ---- loop 1: rebalance every target against the captured base
def _l1_inv(ctx):
    st = ctx.cur
    target = ctx.entry.locals["target"]
    targets = ctx.entry.locals["targets"]
    out = []
    if ctx.phase == "step":
        ih = ctx.i - 1
        H = ctx.head.heap
        key = dkey_at(targets.ref, ih.r)
        w = dict_get(H, targets.ref, key)
        new = [x for x in st.log[len(ctx.head.log):] if len(x) == 4 and x[0].rsplit(".", 1)[1] in ("close", "rebalance", "allocate", "transact", "flatten", "adjust")]
        out.append(("exactly-one-rebalance-per-target", And(len(new) == 1, new[0][0].endswith(".rebalance") if new else False)))
        if len(new) == 1 and new[0][0].endswith(".rebalance"):
            a = new[0][2]
            H0 = st.ghost.get("rb_H0")
            out.append(("rebalance(weight,-child,-captured-base,-update-deferred)", And(
                new[0][1].term == target.term, value_same(a[0], w), a[1].term == key, value_same(a[2], spec_base(ctx.ex, st, H0, target)), a[3] is False or (a[3] is not True and Not(a[3])))))
    return out


def _l1_havoc(ctx):
    # a rebalance may create a lazy child: children list/dict of the target may grow; existing subtrees and own cash may change
    target = ctx.entry.locals["target"]
    anyc = lambda i: (lambda x: Or(slot_f(target.term, x) >= 0, x == target.term, treeof_f(x) == treeof_f(target.term)))
    ks = list(update_modkeys()) + ["children", "children#has"]
    return [(k, anyc) for k in ks]


L1 = LoopSpec(_l1_inv, havoc_heap=_l1_havoc, name="rebalance every target against the captured base")

LOOPS = {("bt.algos.Rebalance.__call__", 0): L0, ("bt.algos.Rebalance.__call__", 1): L1}


def verify_rebalance_algo(ex, contract, timeout_ms=30000):
    from pyvc.verify import FuncReport, discharge, entry_state
    from pyvc.ext_algos import TempV

    fr = FuncReport(contract.qualname)
    name = "Rebalance.__call__"
    try:
        fi = ex.prog.func(contract.qualname)
        fr.source_hash = fi.source_hash()
        st0, self, args = entry_state(ex, contract)
        target = args[0]
        E = st0.heap
        for f in self_facts(E, target):
            st0.assume(_zb(f))
        st0.assume(And(target.term != self.term))
        for f in ("_value", "_notl_value"):
            st0.assume(_zb(Not(isnan(E.get(target, f)))))
        hasW = ex.temp_has(st0, TempV(target, "temp"), "weights")
        E = st0.heap.copy()
        st0.ghost["schemas"] = [children_schema(E, target)]
        t0 = time.time()
        exits = ex.run_function(fi, st0.fork(), self, [target])
        fr.symexec_s = time.time() - t0
        fr.paths = len(exits)
        obligs = []
        for xi, (st, oc) in enumerate(exits):
            kind = oc.kind if oc.kind != "raise" else "raise:" + oc.exc
            fr.exits[kind] = fr.exits.get(kind, 0) + 1
            obligs.extend(st.obligs)
            if oc.kind == "raise":
                continue
            if oc.kind != "return":
                obligs.append(Oblig("%s/no-other-exit" % name, st.pc, False, "post", P06))
                continue
            calls = [c for c in st.log if len(c) == 4]
            names = [c[0].rsplit(".", 1)[1] for c in calls]

            def ob(cid, goal, props=P06):
                obligs.append(Oblig("%s/%s" % (name, cid), st.pc, goal, "post", props))

            ob("returns-True", oc.value is True)
            ob("no-weights:nothing-happens", Implies(Not(hasW), len([n for n in names if n in ("close", "rebalance", "update", "allocate")]) == 0))
            trading = [n for n in names if n in ("close", "rebalance")]
            upd = [c for c in calls if c[0].endswith(".update")]
            # one final update of the root on the current date, after all deferred trades
            last_is_update = bool(calls) and calls[-1][0].endswith("StrategyBase.update")
            ob("ends-with-one-root-update-on-now", Implies(hasW, last_is_update))
            if last_is_update:
                c = calls[-1]
                H = c[3]
                ob("final-update-is-root(now)", And(c[1].term == H.get(target, "root").term, c[2][0].eq(H.get(target, "now"))), P06 + ("C08",))
        s = z3.Solver()
        for p in st0.pc:
            s.add(p)
        fr.canary = str(s.check())
        discharge(obligs, timeout_ms, fr, contract.qualname)
        fr.stats = dict(feas_queries=ex.stats.feas_queries, feas_s=round(ex.stats.feas_time, 3), inlined=sorted(ex.stats.inlined), contracts_used=sorted(ex.stats.contracts_used))
    except Undecided as e:
        fr.undecided = str(e)
    except Exception as e:
        fr.undecided = "ENGINE-ERROR: %s\n%s" % (e, traceback.format_exc())
    return fr


def apply_rebalance_algo(ex, st, recv, args, exact=False):
    """Rebalance.__call__ used from RebalanceOverTime: trades anywhere in the target's tree, ends updated"""
    target = args[0]
    h = st.heap
    rt = h.get(target, "root")
    for key in list(update_modkeys()) + ["children", "children#has", "_childrenv", "_childrenv#len"]:
        h.ensure(key)
        h.havoc(key, cond=lambda x: treeof_f(x) == rt.term)
    h.set(rt, "stale", False)
    return [_maybe_raise(st, "rebalance_algo_raises"), (st, True)]


def contracts():
    T = [("target", "ref:StrategyBase")]
    return [
        (RelationalContract("bt.algos.Rebalance.__call__", T, apply_rebalance_algo, self_cls="Rebalance", note="see verify_rebalance_algo"), verify_rebalance_algo),
        (RelationalContract("bt.algos.RebalanceOverTime.__call__", T, None, self_cls="RebalanceOverTime", note="see verify_rot"), verify_rot_proxy),
    ]


def verify_rot_proxy(ex, contract, timeout_ms=30000):
    return verify_rot(ex, contract, timeout_ms=timeout_ms)


# ------------------------------------------------------------------ RebalanceOverTime
def _rot_inv(ctx):
    st, E = ctx.cur, ctx.entry.heap
    self, target = ctx.entry.locals["self"], ctx.entry.locals["target"]
    tgt = ctx.entry.locals["tgt"]
    W = E.get(self, "_weights").val[1]
    D = E.get(self, "_days_left").val
    h = st.heap
    rt = h.get(target, "root")

    def curr(j):
        k = dkey_at(W, Num.lift(j).r)
        c = named_child(E, target, StrV(k))
        return ite(E.dict_has(target, "children", StrV(k)), E.get(c, "_weight"), 0.0)

    def step(j):
        k = dkey_at(W, Num.lift(j).r)
        w = dict_get(E, W, k)
        return And(dict_has(h, tgt.ref, k), value_same(dict_get(h, tgt.ref, k), curr(j) + (w - curr(j)) / D))

    return [
        ("root-not-stale(weights-are-the-current-ones)", Not(h.get(rt, "stale"))),
        ("step-target-is-current-plus-remaining-gap-over-days-left", ForallInt(0, ctx.i, step, name="jk")),
    ]


def _rot_havoc(ctx):
    tgt = ctx.entry.locals["tgt"]
    only = lambda i: (lambda x: x == tgt.ref)
    return [("dct#has", only), ("dct#val", only), ("dct#valnan", only)]


def _rot_on_iter(ctx, c):
    st = ctx.cur
    self, target = st.locals["self"], st.locals["target"]
    E = ctx.entry.heap
    W = E.get(self, "_weights").val[1]
    st.assume(_zb(dict_enum_facts(E, W, ctx.i)))
    st.assume(_zb(named_child_facts(E, target, c)))
    tgt = ctx.entry.locals["tgt"]
    st.assume(tgt.ref != W)


ROT_LOOP = LoopSpec(_rot_inv, havoc_heap=_rot_havoc, on_iter=_rot_on_iter, name="per-target step weights")
LOOPS[("bt.algos.RebalanceOverTime.__call__", 0)] = ROT_LOOP


def verify_rot(ex, contract, timeout_ms=30000):
    from pyvc.verify import FuncReport, discharge, entry_state
    from pyvc.ext_algos import TempV

    fr = FuncReport(contract.qualname)
    name = "RebalanceOverTime.__call__"
    try:
        fi = ex.prog.func(contract.qualname)
        fr.source_hash = fi.source_hash()
        ex.attr_alias = {("RebalanceOverTime", "n"): "rot_n"}
        st0, self, args = entry_state(ex, contract)
        target = args[0]
        E = st0.heap
        for f in self_facts(E, target):
            st0.assume(_zb(f))
        n = E.get(self, "rot_n")
        W0, D0 = E.get(self, "_weights"), E.get(self, "_days_left")
        rb = E.get(self, "_rb")
        from pyvc.heap import cls_f

        rt = E.get(target, "root")
        st0.assume(And(target.term != self.term, rb.term != dsl.NONE, rb.term != target.term, cls_f(rb.term) == E.schema.tag("Rebalance"), Not(isnan(n)), n >= 1, n.r == z3.ToReal(z3.ToInt(n.r)),
                       # object invariant: armed <=> a positive whole number of days is left
                       W0.isnone == D0.isnone, Implies(Not(D0.isnone), And(D0.val >= 1, D0.val.r == z3.ToReal(z3.ToInt(D0.val.r)))),
                       Not(E.get(rt, "stale"))))
        hasW = ex.temp_has(st0, TempV(target, "temp"), "weights")
        tw = ex.temp_value(st0, TempV(target, "temp"), "weights")
        E = st0.heap.copy()
        st0.ghost["schemas"] = [children_schema(E, target)]
        t0 = time.time()
        exits = ex.run_function(fi, st0.fork(), self, [target])
        fr.symexec_s = time.time() - t0
        fr.paths = len(exits)
        obligs = []
        for xi, (st, oc) in enumerate(exits):
            kind = oc.kind if oc.kind != "raise" else "raise:" + oc.exc
            fr.exits[kind] = fr.exits.get(kind, 0) + 1
            obligs.extend(st.obligs)
            if oc.kind == "raise":
                continue
            if oc.kind != "return":
                obligs.append(Oblig("%s/no-other-exit" % name, st.pc, False, "post", P06))
                continue
            F = st.heap

            def ob(cid, goal, props=P06):
                o = Oblig("%s/%s" % (name, cid), st.pc, goal, "post", props)
                o.schemas = list(st.ghost.get("schemas", []))
                obligs.append(o)

            armed = Or(hasW, Not(W0.isnone))
            Wref = z3.If(hasW, tw.ref, W0.val[1])
            D = ite(hasW, n, D0.val)
            calls = [c for c in st.log if len(c) == 4 and c[0].endswith("Rebalance.__call__")]
            ob("returns-True", oc.value is True)
            ob("idle-when-not-armed", Implies(Not(armed), len(calls) == 0))
            ob("one-real-Rebalance-per-step-when-armed", Implies(armed, And(len(calls) == 1, (calls[0][1].term == rb.term) if calls else False, (calls[0][2][0].term == target.term) if calls else False)))
            if calls:
                H = calls[0][3]  # state when Rebalance is invoked
                tgt = st.ghost.get("temp:temp:weights")
                isd = isinstance(tgt, DictObjV)
                ob("step-weights-handed-to-Rebalance", isd)
                if isd:
                    m = Num(dlen_f(Wref), False, True)

                    def stepj(j, H=H, tgt=tgt):
                        k = dkey_at(Wref, Num.lift(j).r)
                        c = named_child(E, target, StrV(k))
                        cur = ite(E.dict_has(target, "children", StrV(k)), E.get(c, "_weight"), 0.0)
                        w = dict_get(E, Wref, k)
                        return And(dict_has(H, tgt.ref, k), value_same(dict_get(H, tgt.ref, k), cur + (w - cur) / D))

                    ob("each-step-target-is-current-weight-plus-remaining-gap-over-days-left", ForallInt(0, m, stepj, name="jk"))
            # countdown and disarming
            Dn, Wn = F.get(self, "_days_left"), F.get(self, "_weights")
            ob("countdown", Implies(armed, And(Implies(D.eq(1), And(Dn.isnone, Wn.isnone)), Implies(Not(D.eq(1)), And(Not(Dn.isnone), Dn.val.eq(D - 1), Not(Wn.isnone), Wn.val[1] == Wref)))))
            ob("stays-idle", Implies(Not(armed), And(Dn.isnone, Wn.isnone)))
        # lemma: on the last step (one day left) the step target IS the final target, whatever the current weight
        cur, w = z3.Real("cur"), z3.Real("w")
        obligs.append(Oblig("%s/lemma/last-step-target-is-the-final-target" % name, [], cur + (w - cur) / 1 == w, "lemma", P06))
        s = z3.Solver()
        for p in st0.pc:
            s.add(p)
        fr.canary = str(s.check())
        discharge(obligs, timeout_ms, fr, contract.qualname)
        fr.stats = dict(feas_queries=ex.stats.feas_queries, feas_s=round(ex.stats.feas_time, 3), inlined=sorted(ex.stats.inlined), contracts_used=sorted(ex.stats.contracts_used))
    except Undecided as e:
        fr.undecided = str(e)
    except Exception as e:
        fr.undecided = "ENGINE-ERROR: %s\n%s" % (e, traceback.format_exc())
    return fr
