"""
Contract of SecurityBase.allocate (DESIGN A.6, property C05) and the invariant of its sizing search.

allocate(amount, update)  ==  [update(parent.now) if stale] ; transact(q*, update, False)
where q* is characterised by the clauses below (q* = 0 stands for "no trade").  The clauses carry the
the tolerance below and nothing more:  eps = 1e-8 + 1e-15*|amount|  (np.isclose's absolute part plus a few ulps; a looser test in the code fails the clause).
"""
import z3

from pyvc import dsl
from pyvc.dsl import Num, And, Or, Not, Implies, ite, absv, isnan, is_zero, eq, ne
from pyvc.heap import RefV, TupleV, map_same, map_equal
from pyvc.state import SpecState, Oblig, Outcome, NORMAL, Undecided
from pyvc.contracts import RelationalContract, LoopSpec, value_same
from pyvc.symexec import NONEV, _Raised
from . import core_sec as cs


def full_of(S, self, q):
    return S.call(cs.spec_outlay, self, q, None)[0]


def integral(q):
    if not isinstance(q, Num):
        return float(q).is_integer()
    q = Num.lift(q)
    if q.is_int:
        return True
    return q.r == z3.ToReal(z3.ToInt(q.r))


EXACT_RTOL = 1e-15   # a few ulps of a double: the tightest relative slack under which 'cost equals the amount' is reachable in floats


def eps_of(amount):
    """allowed slack of 'with fractional positions the cost equals the amount': numpy.isclose's absolute 1e-8 plus a few ulps relative
    (with the former 1e-16 the clause was unreachable in doubles for amounts above ~5e7 and the search could not terminate, see KNOWN_FINDINGS)"""
    if not isinstance(amount, Num):
        return 1e-08 + EXACT_RTOL * abs(amount)
    return Num.lift(1e-08) + Num.lift(EXACT_RTOL) * absv(amount)


def needs_update(S, self):
    parent = S.get(self, "parent")
    return Or(S.get(self, "_needupdate"), ne(S.get(self, "now"), S.get(parent, "now")))


def characterise(S, self, amount, q):
    """clauses relating the traded quantity q to the (post-update) state S; dict id -> formula"""
    pos = S.get(self, "_position")
    val = S.get(self, "_value")
    integer = S.get(self, "integer_positions")
    closeout = And(is_zero(amount + val), Not(is_zero(amount)))
    coincid = False  # (was: rounding landed exactly on minus the position took the close-out shortcut - repaired in /repo, no exclusion any more)
    full = full_of(S, self, q)
    full1 = full_of(S, self, q + 1)
    eps = eps_of(amount)
    fits_exact = absv(full - amount) <= eps
    fits_int = And(integer, full < amount, amount < full1)
    traded = Not(Or(is_zero(q), isnan(q)))
    return {
        # B6  a zero amount does nothing
        "zero-amount-no-trade": Implies(is_zero(amount), eq(q, 0)),
        # B5  allocating exactly minus the value closes the position
        "closeout-quantity": Implies(closeout, Or(eq(q, -pos), And(is_zero(pos), eq(q, 0)), isnan(pos))),
        # B1/B3/B4  budget: cost equals the amount (within isclose) or, whole units, q is the largest that fits
        "budget": Implies(And(traded, Not(closeout), Not(coincid)), Or(fits_exact, fits_int)),
        # B2  whole units
        "whole-units": Implies(And(integer, traded, Not(closeout), Not(coincid)), integral(q)),
        # B4  fractional positions: cost equals amount
        "fractional-exact": Implies(And(Not(integer), traded, Not(closeout), Not(coincid)), fits_exact),
    }


# ---------------------------------------------------------------------------- call-site semantics
def apply_allocate(ex, st, recv, args, exact=False):
    amount, update = args
    amount = Num.lift(amount) if not isinstance(amount, Num) else amount
    out = []
    S = SpecState(st.heap)
    with S.when(needs_update(S, recv)):
        S.call(cs.spec_sec_update, recv, S.get(S.get(recv, "parent"), "now"), None, None)
    # exceptions of the catch-up update
    if S.raises:
        c = Or(*[c for (c, e) in S.raises])
        if ex.feasible(st, _zb(c)):
            s2 = st.fork()
            s2.assume(_zb(c))
            out.append((s2, _Raised("Exception")))
        st.assume(_zb(Not(S.raised)))
    parent = S.get(recv, "parent")
    price = S.get(recv, "_price")
    nz = Not(is_zero(amount))
    # guard exceptions (B7)
    bad = And(nz, Or(parent.term == recv.term, parent.term == dsl.NONE, is_zero(price), isnan(price)))
    if ex.feasible(st, _zb(bad)):
        s2 = st.fork()
        s2.assume(_zb(bad))
        out.append((s2, _Raised("Exception")))
    st.assume(_zb(Not(bad)))
    # the sizing search may give up (three guard exceptions): unconstrained possibility for callers
    giveup = dsl.fresh_bool("alloc_search_raises")
    s3 = st.fork()
    s3.assume(And(giveup, nz))
    out.append((s3, _Raised("Exception")))
    # normal completion: some quantity q* satisfying the characterisation is transacted
    q = dsl.fresh_float("q_alloc")
    for cid, f in characterise(S, recv, amount, q).items():
        st.assume(_zb(f))
    S2 = SpecState(st.heap)
    S2.call(cs.spec_transact, recv, q, update, False, None)
    # transact(q, update, False, None) cannot raise (price is None)
    st.ghost["alloc_q"] = q
    st.log.append(("bt.core.SecurityBase.transact", recv, (q, update, False, NONEV)))
    out.append((st, NONEV))
    return out


def _zb(f):
    return z3.BoolVal(f) if isinstance(f, bool) else f


def allocate_pre(S, self, amount, update):
    m = S.get(self, "multiplier")
    return [("multiplier-nonzero", And(Not(isnan(m)), ne(m, 0)))]


def allocate_contract():
    return RelationalContract(
        "bt.core.SecurityBase.allocate", [("amount", "float"), ("update", "bool")], apply_allocate, pre=allocate_pre, self_cls="SecurityBase",
        note="allocate == [update]; transact(q*) with q* characterised by C05's clauses",
    )


# ---------------------------------------------------------------------------- loop invariant
def _alloc_inv(ctx):
    st = ctx.cur
    S = SpecState(st.heap.copy())
    self = st.locals["self"]
    q = st.locals["q"]
    fo = st.locals["full_outlay"]
    out = [
        ("full-outlay-is-full(q)", value_same(fo, full_of(S, self, q))),
        ("integer-q", Implies(S.get(self, "integer_positions"), integral(q))),
    ]
    # nothing booked yet: heap equals the heap at loop entry
    for k, a in st.heap.maps.items():
        b = ctx.entry.heap.maps.get(k)
        if b is not None and not map_same(a, b):
            out.append(("nothing-booked:%s" % k, map_equal(a, b)))
    return out


ALLOC_LOOP = LoopSpec(_alloc_inv, name="sizing search")


def _alloc_inner_inv(ctx):
    """whole-unit step-up loop inside the sizing search: the same invariant, plus full_outlay_of_1_more == full(q + 1)"""
    st = ctx.cur
    out = _alloc_inv(ctx)
    S = SpecState(st.heap.copy())
    self = st.locals["self"]
    out.append(("one-more-is-full(q+1)", value_same(st.locals["full_outlay_of_1_more"], full_of(S, self, st.locals["q"] + 1))))
    return out


ALLOC_STEP_UP = LoopSpec(_alloc_inner_inv, name="step back up while one more unit fits")


# ---------------------------------------------------------------------------- verification of the body
def verify_allocate(ex, contract, timeout_ms=30000):
    from pyvc.verify import FuncReport, entry_state, discharge, heap_map

    fr = FuncReport(contract.qualname)
    try:
        fi = ex.prog.func(contract.qualname)
        fr.source_hash = fi.source_hash()
        st0, recv, args = entry_state(ex, contract)
        amount, update = args
        for (pid, f) in contract.pre(SpecState(st0.heap), recv, args):
            st0.assume(_zb(f))
        # state after the catch-up update (spec), from the entry heap
        Su = SpecState(st0.heap.copy())
        with Su.when(needs_update(Su, recv)):
            Su.call(cs.spec_sec_update, recv, Su.get(Su.get(recv, "parent"), "now"), None, None)
        import time

        t0 = time.time()
        exits = ex.run_function(fi, st0.fork(), recv, args)
        fr.symexec_s = time.time() - t0
        fr.paths = len(exits)
        obligs = []
        P = ("C05",)
        for xi, (st, oc) in enumerate(exits):
            kind = oc.kind if oc.kind != "raise" else "raise:" + oc.exc
            fr.exits[kind] = fr.exits.get(kind, 0) + 1
            obligs.extend(st.obligs)
            if oc.kind == "raise" and oc.exc == "<cut>":
                continue
            nbefore = len(obligs)
            calls = [c for c in st.log if c[0].endswith("SecurityBase.transact")]
            if oc.kind == "raise":
                # B7: a refusal must be justified: update raised, or bad price/parent with non-zero amount, or search guard
                price = Su.get(recv, "_price")
                parent = Su.get(recv, "parent")
                bad = And(Not(is_zero(amount)), Or(parent.term == recv.term, parent.term == dsl.NONE, is_zero(price), isnan(price)))
                in_search = st.ghost.get("in_loop0", False) or any(p == "L" for p in st.path)
                obligs.append(Oblig("SecurityBase.allocate/raises-only-when", st.pc, Or(Su.raised, bad, Not(is_zero(amount))), "post", P + ("C10",)))
                continue
            # normal exits
            if len(calls) > 1:
                raise Undecided("allocate transacts more than once on a path")
            if calls:
                q = calls[0][2][0]
                # arguments handed to transact: (q, update, update_self=False, price=None)
                a = calls[0][2]
                obligs.append(Oblig("SecurityBase.allocate/transact-args", st.pc, And(value_same(a[1], update), a[2] is False or (a[2] is not True and Not(a[2])), a[3] is NONEV or dsl.isnone(a[3])), "post", P + ("C07",)))
                Sx = SpecState(Su.heap.copy())
                Sx.raised = Su.raised
                Sx.call(cs.spec_transact, recv, q, update, False, None)
            else:
                q = Num.lift(0)
                Sx = Su
            obligs.append(Oblig("SecurityBase.allocate/post/no-raise", st.pc, Not(Su.raised), "post", P))
            # B7 (other direction): with a bad price and non-zero amount the call must not complete
            price = Su.get(recv, "_price")
            obligs.append(Oblig("SecurityBase.allocate/refuses-bad-price", st.pc, Not(And(Not(is_zero(amount)), Or(is_zero(price), isnan(price)))), "post", P + ("C10",)))
            for cid, f in characterise(Su, recv, amount, q).items():
                obligs.append(Oblig("SecurityBase.allocate/%s" % cid, st.pc, f, "post", P))
            # whole units: doing nothing is right only when zero is the largest quantity that fits - the amount is not negative and one unit
            # costs more than it (given non-negative costs of one unit).  Refuted on the pinned tree inside one recorded region (known finding):
            # a negative amount smaller than one unit on a flat or short position is rounded towards zero and raises no cash.
            pos_u, prc_u, mul_u = Su.get(recv, "_position"), Su.get(recv, "_price"), Su.get(recv, "multiplier")
            unit = prc_u * mul_u
            integer_u = Su.get(recv, "integer_positions")
            full1_u = full_of(Su, recv, Num.lift(1))
            untraded = Or(is_zero(q), isnan(q))
            closeout_u = And(is_zero(amount + Su.get(recv, "_value")), Not(is_zero(amount)))
            o = Oblig("SecurityBase.allocate/whole-units:nothing-traded-only-when-no-unit-fits", st.pc,
                      Implies(And(integer_u, untraded, Not(is_zero(amount)), Not(isnan(amount)), Not(closeout_u), Not(isnan(pos_u)), Not(isnan(Su.get(recv, "_value"))), unit > 0, full1_u >= unit), And(amount >= 0, full1_u > amount)), "post", P)
            o.regions = [("C05-sub-unit-negative-amount-raises-nothing", And(integer_u, amount < 0, -amount < unit, Not(pos_u > 0)))]
            if not calls:
                # exits that return before the search (first guess rounded to zero); a search that ends at q == 0 is outside this clause
                # (the loop invariant does not relate q to the amount) and is exercised by the bounded stand-in c05_sizing only
                obligs.append(o)
            # heap: exit heap == update-spec ; transact-spec(q)   (nothing else is touched, probes book nothing)
            keys = list(st.heap.maps.keys()) + [k for k in Sx.heap.maps if k not in st.heap.maps]
            for k in keys:
                like = st.heap.maps.get(k)
                if like is None:
                    like = Sx.heap.maps.get(k)
                a_ = heap_map(st.heap, k, like)
                b_ = heap_map(Sx.heap, k, like)
                if map_same(a_, b_):
                    continue
                obligs.append(Oblig("SecurityBase.allocate/post/field:%s" % k, st.pc, map_equal(a_, b_), "post", P + ("C07",)))
            for o in obligs[nbefore:]:
                if o.id.split("/")[-1].startswith("field:"):
                    o.group = xi
        s = z3.Solver()
        for p in st0.pc:
            s.add(p)
        fr.canary = str(s.check())
        from pyvc.verify import make_realiser

        discharge(obligs, timeout_ms, fr, contract.qualname, realise=make_realiser(ex, contract, st0, recv, args))
        fr.stats = dict(feas_queries=ex.stats.feas_queries, feas_s=round(ex.stats.feas_time, 3), inlined=sorted(ex.stats.inlined), contracts_used=sorted(ex.stats.contracts_used))
    except Undecided as e:
        fr.undecided = str(e)
    except Exception as e:
        import traceback

        fr.undecided = "ENGINE-ERROR: %s\n%s" % (e, traceback.format_exc())
    return fr


def alloc_concrete_check(sc, bt, fields):
    """replay of an allocate counter-model: run the real allocate, read off the traded quantity and
    evaluate the C05 clauses (executable form of the contract) on the state after the catch-up update"""
    from pyvc import concrete as cc

    root, par, sec, dates = cc.build_tree(sc, bt)
    root2, par2, sec2, _ = cc.build_tree(sc, bt)
    amount = cc._f(sc["args"].get("amount"))
    update = bool(sc["args"].get("update", True))
    exc = None
    try:
        sec.allocate(amount, update)
    except Exception as e:  # noqa: BLE001
        exc = type(e).__name__
    # twin: bring to the post-update state with the real update (under its own contract elsewhere)
    exc2 = None
    try:
        if sec2._needupdate or sec2.now != sec2.parent.now:
            sec2.update(sec2.parent.now)
    except Exception as e:  # noqa: BLE001
        exc2 = type(e).__name__
    S = cc.ConcreteState()
    out = dict(real_exception=exc, amount=amount, position_before=float(sec2._position), position_after=float(sec._position), price=float(sec2._price))
    if exc2 is not None:
        out["reproduced"] = exc is None
        return out
    import math

    bad = (not is_zero(amount)) and (is_zero(sec2._price) or math.isnan(sec2._price))
    if exc is not None:
        out["reproduced"] = bool(is_zero(amount))
        return out
    if bad:
        out["reproduced"] = True
        out["failed_clauses"] = ["refuses-bad-price"]
        return out
    q = float(sec._position) - float(sec2._position)
    cl = characterise(S, sec2, amount, q)
    failed = [k for k, v in cl.items() if not bool(v)]
    out.update(q=q, failed_clauses=failed, full_outlay_of_q=float(full_of(S, sec2, q)), full_outlay_of_q_plus_1=float(full_of(S, sec2, q + 1)))
    out["reproduced"] = bool(failed)
    return out
