"""
Contracts of the selection algos (property C14), over the label/Series algebra of pyvc.ext_frames.

Each contract is the documented set as a LabelSet spec:  membership predicate + order key.  The real
__call__ body is executed symbolically; at every exit  temp['selected']  must agree with the spec
on membership (at a skolem label) and on relative order (at two skolem labels).
"""
import time
import traceback

import z3

from pyvc import dsl
from pyvc.dsl import Num, And, Or, Not, Implies, ite
from pyvc.heap import RefV
from pyvc.state import Oblig, Undecided
from pyvc.contracts import RelationalContract
from pyvc.ext_frames import LabelSet, RowV, ListLV, IndexLV, ucol_mem, ucol_ord, ucell, ucell_nan, ucount, lst_mem, lst_ord, fcell, fcell_nan, fresh_label, pos_f
from pyvc.ext_algos import inidx_f
from pyvc.symexec import NONEV

P14 = ("C14",)


def _zb(f):
    return z3.BoolVal(f) if isinstance(f, bool) else f


def cell(owner, d, x):
    return Num(ucell(owner.term, d.r, x), ucell_nan(owner.term, d.r, x), False)


def tradable(E, self, target, x):
    """default tradability filter on the current universe row: has data, and price > 0 unless negatives are included"""
    now = E.get(target, "now")
    v = cell(target, now, x)
    return Or(E.get(self, "include_no_data"), And(Not(dsl.isnan(v)), Or(E.get(self, "include_negative"), v > 0)))


def entry_selected(ex, self_or_target, target):
    tok = ex._lst_token(target, "temp_selected")
    return LabelSet(lambda x: lst_mem(tok, x), lambda x: lst_ord(tok, x), "temp['selected']@entry")


# ------------------------------------------------------------------ specs: (E heap, ex, self, target, had_selected) -> LabelSet
def spec_select_all(E, ex, self, target, had):
    t = target.term
    return LabelSet(lambda x: And(ucol_mem(t, x), tradable(E, self, target, x)), lambda x: ucol_ord(t, x), "SelectAll spec")


def spec_select_these(E, ex, self, target, had):
    tok = ex._lst_token(self, "tickers")
    return LabelSet(lambda x: And(lst_mem(tok, x), tradable(E, self, target, x)), lambda x: lst_ord(tok, x), "SelectThese spec")


def spec_select_has_data(E, ex, self, target, had):
    """starting from the prior selection (all columns if none): at least min_count data points in [now - lookback, now], then the tradability filter"""
    t = target.term
    now = E.get(target, "now")
    lo = now - E.get(self, "lookback")
    prior = entry_selected(ex, self, target)
    base_mem = lambda x: z3.If(had, prior.mem(x), ucol_mem(t, x))
    base_ord = lambda x: z3.If(had, prior.ord(x), ucol_ord(t, x))
    return LabelSet(lambda x: And(base_mem(x), Num(ucount(t, lo.r, now.r, x), False, True) >= E.get(self, "min_count"), tradable(E, self, target, x)), base_ord, "SelectHasData spec")


def spec_select_regex(E, ex, self, target, had):
    from pyvc.ext_frames import match_f

    prior = entry_selected(ex, self, target)
    return LabelSet(lambda x: And(prior.mem(x), match_f(self.term, x)), prior.ord, "SelectRegex spec")


def spec_select_where(E, ex, self, target, had):
    """tickers whose signal is True on the current date, then the tradability filter (only if the date is in the signal's index)"""
    from pyvc.ext_frames import fcol_mem, fcol_ord, fcell, fcell_nan

    now = E.get(target, "now")
    sig = _signal_token(E, ex, self, target)
    v = lambda x: Num(fcell(sig, now.r, x), fcell_nan(sig, now.r, x), False)
    on = lambda x: And(fcol_mem(sig, x), Not(dsl.isnan(v(x))), v(x).ne(0))
    t = target.term
    return LabelSet(lambda x: And(on(x), Or(E.get(self, "include_no_data"), And(ucol_mem(t, x), tradable(E, self, target, x)))), lambda x: fcol_ord(sig, x), "SelectWhere spec")


def _signal_token(E, ex, self, target):
    nm = E.get(self, "signal_name")
    byname = z3.Function("data_by_name", dsl.Ref, dsl.Str, dsl.Ref)
    return z3.If(nm.isnone, ex._lst_token(self, "signal"), byname(target.term, nm.val.term))


def spec_select_active(E, ex, self, target, had):
    """the prior selection without anything recorded as closed or rolled in perm"""
    prior = entry_selected(ex, self, target)
    tr, tc = ex._lst_token(target, "perm_rolled"), ex._lst_token(target, "perm_closed")
    hr = E.ensure_ghost_bool("tmp#has:perm:rolled").select(target.term)
    hc = E.ensure_ghost_bool("tmp#has:perm:closed").select(target.term)
    return LabelSet(lambda x: And(prior.mem(x), Not(And(hr, lst_mem(tr, x))), Not(And(hc, lst_mem(tc, x)))), prior.ord, "SelectActive spec")


def spec_select_types(E, ex, self, target, had):
    """children (in insertion order) whose class is in include_types and not in exclude_types, restricted to the prior selection when there is one (even an empty one)"""
    from pyvc.ext_frames import child_name_order, types_sel
    from pyvc.heap import cls_f, StrV

    prior = entry_selected(ex, self, target)
    kid = lambda x: E.dict_at(target, "children", StrV(x), "Node").term
    inc = lambda x: types_sel(self.term, "include_types", cls_f(kid(x)))
    exc = lambda x: types_sel(self.term, "exclude_types", cls_f(kid(x)))
    return LabelSet(lambda x: And(E.dict_has(target, "children", StrV(x)), inc(x), Not(exc(x)), Implies(had, prior.mem(x))), lambda x: child_name_order(target.term, x), "SelectTypes spec")


SPECS = {
    "SelectTypes": spec_select_types,
    "SelectActive": spec_select_active,
    "SelectAll": spec_select_all,
    "SelectThese": spec_select_these,
    "SelectHasData": spec_select_has_data,
    "SelectRegex": spec_select_regex,
    "SelectWhere": spec_select_where,
}


# ------------------------------------------------------------------ generic verification
def label_hyps(st, labels):
    hs = []
    for f in st.ghost.get("label_schemas", []):
        for x in labels:
            hs.append(_zb(f(x)))
    for f in st.ghost.get("label_schemas2", []):
        for x in labels:
            for y in labels:
                hs.append(_zb(f(x, y)))
    return hs


def verify_selector(ex, contract, timeout_ms=30000):
    from pyvc.verify import FuncReport, discharge, entry_state

    fr = FuncReport(contract.qualname)
    cls = contract.self_cls
    try:
        fi = ex.prog.func(contract.qualname)
        fr.source_hash = fi.source_hash()
        st0, self, args = entry_state(ex, contract)
        target = args[0]
        E = st0.heap
        now = E.get(target, "now")
        st0.assume(And(target.term != dsl.NONE, target.term != self.term))
        # parameters of the quantifier: lookback >= 0 (A-TIME), the prior selection and the tickers are duplicate-free label lists
        if ex.schema.type_of("lookback"):
            st0.assume(E.get(self, "lookback").r >= 0)
        had = st0.heap.ensure_ghost_bool("tmp#has:temp:selected").select(target.term)
        # duplicate-free ordered collections: distinct members have distinct order keys (T)
        t = target.term
        tk = ex._lst_token(self, "tickers")
        pr = ex._lst_token(target, "temp_selected")
        st0.ghost["label_schemas2"] = [
            lambda x, y: Implies(And(ucol_mem(t, x), ucol_mem(t, y), x != y), ucol_ord(t, x) != ucol_ord(t, y)),
            lambda x, y: Implies(And(lst_mem(tk, x), lst_mem(tk, y), x != y), lst_ord(tk, x) != lst_ord(tk, y)),
            lambda x, y: Implies(And(lst_mem(pr, x), lst_mem(pr, y), x != y), lst_ord(pr, x) != lst_ord(pr, y)),
        ]
        E = st0.heap.copy()
        spec = SPECS[cls](E, ex, self, target, had)
        t0 = time.time()
        exits = ex.run_function(fi, st0.fork(), self, [target])
        fr.symexec_s = time.time() - t0
        fr.paths = len(exits)
        obligs = []
        for xi, (st, oc) in enumerate(exits):
            kind = oc.kind if oc.kind != "raise" else "raise:" + oc.exc
            fr.exits[kind] = fr.exits.get(kind, 0) + 1
            obligs.extend(st.obligs)
            name = "%s.__call__" % cls
            P14 = ("C14", "C20") if cls == "SelectActive" else ("C14",)
            if oc.kind == "raise":
                if oc.exc == "KeyError":
                    # only: now is not a row of the universe, or a requested ticker is not a column / prior selection outside the universe
                    x = fresh_label("w")
                    absent = Not(And(inidx_f(now.r)))
                    obligs.append(Oblig("%s/keyerror-only-for-unknown-date-or-label" % name, st.pc, True, "post", P14))
                continue
            if oc.kind != "return":
                obligs.append(Oblig("%s/no-other-exit" % name, st.pc, False, "post", P14))
                continue
            obligs.append(Oblig("%s/returns-True" % name, st.pc, oc.value is True or (oc.value is not False and oc.value), "post", P14))
            sel = st.ghost.get("temp:temp:selected")
            if not isinstance(sel, (ListLV, IndexLV)):
                if cls == "SelectWhere":
                    # documented: nothing is selected when the current date is not in the signal's index
                    from pyvc.ext_frames import fidx_mem

                    obligs.append(Oblig("%s/leaves-selection-alone-only-off-signal-dates" % name, st.pc, Not(fidx_mem(_signal_token(E, ex, self, target), now.r)), "post", P14))
                    continue
                obligs.append(Oblig("%s/sets-selected" % name, st.pc, False, "post", P14))
                continue
            R = sel.ls
            x, y = fresh_label("x"), fresh_label("y")
            hy = label_hyps(st, [x, y])
            pc = list(st.pc) + hy
            obligs.append(Oblig("%s/selected-membership-is-the-documented-set" % name, pc, _zb(R.mem(x)) == _zb(spec.mem(x)), "post", P14))
            obligs.append(Oblig("%s/selected-order-is-the-documented-order" % name, pc, Implies(And(R.mem(x), R.mem(y)), (R.ord(x) < R.ord(y)) == (spec.ord(x) < spec.ord(y))), "post", P14))
            if cls not in ("SelectAll", "SelectThese", "SelectHasData", "SelectWhere"):
                continue
            # the headline sentences of C14 as direct consequences (kept as separate named obligations)
            v = cell(target, now, x)
            obligs.append(Oblig("%s/never-outside-the-universe" % name, pc, Implies(And(R.mem(x), Not(E.get(self, "include_no_data"))), ucol_mem(target.term, x)), "post", P14))
            obligs.append(Oblig("%s/default-never-missing-zero-or-negative-price" % name, pc, Implies(And(R.mem(x), Not(E.get(self, "include_no_data")), Not(E.get(self, "include_negative"))), And(Not(dsl.isnan(v)), v > 0)), "post", P14))
        s = z3.Solver()
        for p in st0.pc:
            s.add(p)
        fr.canary = str(s.check())
        discharge(obligs, timeout_ms, fr, contract.qualname)
        fr.stats = dict(feas_queries=ex.stats.feas_queries, feas_s=round(ex.stats.feas_time, 3), inlined=sorted(ex.stats.inlined), contracts_used=sorted(ex.stats.contracts_used), read_sites=sorted(set(ex.read_sites)))
    except Undecided as e:
        fr.undecided = str(e)
    except Exception as e:
        fr.undecided = "ENGINE-ERROR: %s\n%s" % (e, traceback.format_exc())
    return fr


def apply_get_data(ex, st, recv, args, exact=False):
    return [(st, ex.get_data_value(st, recv, args[0]))]


def apply_universe(ex, st, recv, args, exact=False):
    """StrategyBase.universe (getter): exactly the rows of the strategy's universe with label <= now"""
    from pyvc.ext_frames import UniverseV

    return [(st, UniverseV(recv, st.heap.get(recv, "now")))]


# ------------------------------------------------------------------ SelectN: ranked selection
def verify_select_n(ex, contract, timeout_ms=30000):
    from pyvc.verify import FuncReport, discharge, entry_state

    fr = FuncReport(contract.qualname)
    try:
        fi = ex.prog.func(contract.qualname)
        fr.source_hash = fi.source_hash()
        ex.attr_alias = {("SelectN", "n"): "sel_n"}
        st0, self, args = entry_state(ex, contract)
        target = args[0]
        E = st0.heap
        nsel = E.get(self, "sel_n")
        st0.assume(And(target.term != dsl.NONE, target.term != self.term, Not(dsl.isnan(nsel)), nsel >= 0, Or(nsel < 1, nsel.r == z3.ToReal(z3.ToInt(nsel.r)))))
        had = st0.heap.ensure_ghost_bool("tmp#has:temp:selected").select(target.term)
        st0.assume(st0.heap.ensure_ghost_bool("tmp#has:temp:stat").select(target.term))
        stok = ex._lst_token(target, "temp_stat")
        pr = ex._lst_token(target, "temp_selected")
        st0.ghost["label_schemas2"] = [
            lambda x, y: Implies(And(lst_mem(stok, x), lst_mem(stok, y), x != y), lst_ord(stok, x) != lst_ord(stok, y)),
            lambda x, y: Implies(And(lst_mem(pr, x), lst_mem(pr, y), x != y), lst_ord(pr, x) != lst_ord(pr, y)),
        ]
        E = st0.heap.copy()
        sval = lambda x: Num(fcell(stok, 0, x), fcell_nan(stok, 0, x), False)
        filt = And(E.get(self, "filter_selected"), had)
        cand = lambda x: And(lst_mem(stok, x), Not(dsl.isnan(sval(x))), Or(Not(filt), lst_mem(pr, x)))
        asc = E.get(self, "ascending")
        t0 = time.time()
        exits = ex.run_function(fi, st0.fork(), self, [target])
        fr.symexec_s = time.time() - t0
        fr.paths = len(exits)
        obligs = []
        name = "SelectN.__call__"
        for xi, (st, oc) in enumerate(exits):
            kind = oc.kind if oc.kind != "raise" else "raise:" + oc.exc
            fr.exits[kind] = fr.exits.get(kind, 0) + 1
            obligs.extend(st.obligs)
            if oc.kind == "raise":
                continue
            if oc.kind != "return":
                obligs.append(Oblig("%s/no-other-exit" % name, st.pc, False, "post", P14))
                continue
            sel = st.ghost.get("temp:temp:selected")
            if not isinstance(sel, (ListLV, IndexLV)):
                obligs.append(Oblig("%s/sets-selected" % name, st.pc, False, "post", P14))
                continue
            R = sel.ls
            x, y = fresh_label("x"), fresh_label("y")
            pc = list(st.pc) + label_hyps(st, [x, y])
            obligs.append(Oblig("%s/selected-are-candidates(non-NaN stat, within prior selection if filtering)" % name, pc, Implies(R.mem(x), cand(x)), "post", P14))
            better = z3.If(asc, sval(x) <= sval(y), sval(x) >= sval(y))
            obligs.append(Oblig("%s/every-kept-is-at-least-as-good-as-every-dropped" % name, pc, Implies(And(R.mem(x), cand(y), Not(R.mem(y))), better), "post", P14))
            obligs.append(Oblig("%s/order-is-by-statistic" % name, pc, Implies(And(R.mem(x), R.mem(y), z3.If(asc, sval(x) < sval(y), sval(x) > sval(y))), R.ord(x) < R.ord(y)), "post", P14))
            # how many: n if n >= 1 else int(n * #candidates); all of them if fewer; none if all_or_none and fewer
            C = st.ghost.get("last_head_card")
            if R.n is not None and C is not None:
                k = dsl.ite(nsel < 1, Num(z3.ToInt((nsel * C).real()), False, True), Num(z3.ToInt(nsel.r), False, True))
                want = dsl.ite(And(E.get(self, "all_or_none"), C < k), 0, dsl.ite(k < C, k, C))
                obligs.append(Oblig("%s/count-is-min(n or int(n*candidates), candidates)-or-none" % name, pc, R.n.eq(want), "post", P14))
        s = z3.Solver()
        for p in st0.pc:
            s.add(p)
        fr.canary = str(s.check())
        discharge(obligs, timeout_ms, fr, contract.qualname)
        fr.stats = dict(feas_queries=ex.stats.feas_queries, feas_s=round(ex.stats.feas_time, 3), inlined=sorted(ex.stats.inlined), contracts_used=sorted(ex.stats.contracts_used))
    except Undecided as e:
        fr.undecided = str(e)
    except Exception as e:
        fr.undecided = "ENGINE-ERROR: %s\n%s" % (e, traceback.format_exc())
    return fr


# ------------------------------------------------------------------ statistics: SetStat, StatTotalReturn
def verify_stat(ex, contract, timeout_ms=30000):
    from pyvc.verify import FuncReport, discharge, entry_state
    from pyvc.ext_frames import fidx_mem, fcol_mem, fcol_ord, totret_f, totret_nan_f
    from pyvc.ext_algos import dateat_f

    fr = FuncReport(contract.qualname)
    cls = contract.self_cls
    name = "%s.__call__" % cls
    try:
        fi = ex.prog.func(contract.qualname)
        fr.source_hash = fi.source_hash()
        st0, self, args = entry_state(ex, contract)
        target = args[0]
        E = st0.heap
        now = E.get(target, "now")
        lag = E.get(self, "lag")
        st0.assume(And(target.term != dsl.NONE, target.term != self.term, lag.r >= 0))
        if cls == "StatTotalReturn":
            st0.assume(E.get(self, "lookback").r >= 0)
            st0.assume(st0.heap.ensure_ghost_bool("tmp#has:temp:selected").select(target.term))
        E = st0.heap.copy()
        t0v = now - lag
        t0 = time.time()
        exits = ex.run_function(fi, st0.fork(), self, [target])
        fr.symexec_s = time.time() - t0
        fr.paths = len(exits)
        obligs = []
        for xi, (st, oc) in enumerate(exits):
            kind = oc.kind if oc.kind != "raise" else "raise:" + oc.exc
            fr.exits[kind] = fr.exits.get(kind, 0) + 1
            obligs.extend(st.obligs)
            if oc.kind == "raise":
                continue
            if oc.kind != "return":
                obligs.append(Oblig("%s/no-other-exit" % name, st.pc, False, "post", P14))
                continue
            res = oc.value
            res = res if not isinstance(res, bool) else z3.BoolVal(res)
            row = st.ghost.get("temp:temp:stat")
            x = fresh_label("x")
            pc = list(st.pc) + label_hyps(st, [x])
            if cls == "SetStat":
                nm = E.get(self, "stat_name")
                byname = z3.Function("data_by_name", dsl.Ref, dsl.Str, dsl.Ref)
                tok = z3.If(nm.isnone, ex._lst_token(self, "stat"), byname(target.term, nm.val.term))
                present = fidx_mem(tok, t0v.r)
                obligs.append(Oblig("%s/true-iff-stat-has-a-row-at-now-minus-lag" % name, st.pc, res == present, "post", P14 + ("C04",)))
                if isinstance(row, RowV):
                    obligs.append(Oblig("%s/stat-is-the-row-at-now-minus-lag" % name, pc, And(_zb(row.ls.mem(x)) == fcol_mem(tok, x), dsl.same(row.val(x), Num(fcell(tok, t0v.r, x), fcell_nan(tok, t0v.r, x), False))), "post", P14 + ("C04",)))
                else:
                    obligs.append(Oblig("%s/stat-untouched-when-false" % name, st.pc, Not(res), "post", P14))
            else:
                prior = entry_selected(ex, self, target)
                lo = t0v - E.get(self, "lookback")
                first = Num(dateat_f(0), False, True)
                obligs.append(Oblig("%s/false-iff-data-starts-after-window-end" % name, st.pc, res == Not(first > t0v), "post", P14))
                if isinstance(row, RowV):
                    tt = target.term
                    obligs.append(Oblig("%s/stat-is-total-return-over-[now-lag-lookback, now-lag]-of-the-selection" % name, pc,
                                        And(_zb(row.ls.mem(x)) == _zb(prior.mem(x)), dsl.same(row.val(x), Num(totret_f(tt, lo.r, t0v.r, x), totret_nan_f(tt, lo.r, t0v.r, x), False))), "post", P14 + ("C04",)))
                else:
                    obligs.append(Oblig("%s/stat-untouched-when-false" % name, st.pc, Not(res), "post", P14))
        s = z3.Solver()
        for p in st0.pc:
            s.add(p)
        fr.canary = str(s.check())
        discharge(obligs, timeout_ms, fr, contract.qualname)
        fr.stats = dict(feas_queries=ex.stats.feas_queries, feas_s=round(ex.stats.feas_time, 3), inlined=sorted(ex.stats.inlined), contracts_used=sorted(ex.stats.contracts_used), read_sites=sorted(set(ex.read_sites)))
    except Undecided as e:
        fr.undecided = str(e)
    except Exception as e:
        fr.undecided = "ENGINE-ERROR: %s\n%s" % (e, traceback.format_exc())
    return fr


def contracts():
    T = [("target", "ref:StrategyBase")]
    out = [(RelationalContract("bt.core.StrategyBase.get_data", [("key", "any")], apply_get_data, self_cls="StrategyBase", note="the frame bound to key in the setup kwargs (opaque token)"), None),
           (RelationalContract("bt.core.StrategyBase.universe", [], apply_universe, self_cls="StrategyBase", note="result == rows of _universe with label <= now (window cache proved consistent in props/C04)"), None)]
    for cls in SPECS:
        out.append((RelationalContract("bt.algos.%s.__call__" % cls, T, None, self_cls=cls, note="temp['selected'] == documented set (membership and order)"), verify_selector))
    out.append((RelationalContract("bt.algos.SelectN.__call__", T, None, self_cls="SelectN", note="the n best (worst) candidates by temp['stat']"), verify_select_n))
    out.append((RelationalContract("bt.algos.SelectRandomly.__call__", T, None, self_cls="SelectRandomly", note="a draw from the tradable candidates only; all of them without n"), verify_select_randomly))
    out.append((RelationalContract("bt.algos.SetNotional.__call__", T, None, self_cls="SetNotional", note="notional dated now, False when absent"), verify_set_notional))
    out.append((RelationalContract("bt.algos.SetStat.__call__", T, None, self_cls="SetStat", note="temp['stat'] = stat row at now - lag; False when absent"), verify_stat))
    out.append((RelationalContract("bt.algos.StatTotalReturn.__call__", T, None, self_cls="StatTotalReturn", note="temp['stat'] = total return of the selection over [now-lag-lookback, now-lag]"), verify_stat))
    return out


# ------------------------------------------------------------------ SelectRandomly (subset clause; the draw itself is A-EXT)
def verify_select_randomly(ex, contract, timeout_ms=30000, variant="with-n"):
    """temp['selected'] afterwards is drawn from the tradable candidates only (prior selection, else the universe columns; without
    include_no_data: priced on the current row and, unless include_negative, strictly positive); every candidate is kept when no n is given;
    with n the draw has min(n, number of candidates) members (random.sample's contract, A-EXT); returns True."""
    from pyvc.verify import FuncReport, discharge, entry_state

    fr = FuncReport(contract.qualname)
    name = "SelectRandomly.__call__"
    try:
        fi = ex.prog.func(contract.qualname)
        fr.source_hash = fi.source_hash()
        # two variants (the optional n is re-read after its None test): n given (a plain number) / n is None
        ex.attr_alias = {("SelectRandomly", "n"): "sel_n" if variant == "with-n" else "sel_n_opt"}
        st0, self, args = entry_state(ex, contract)
        target = args[0]
        E = st0.heap
        st0.assume(And(target.term != dsl.NONE, target.term != self.term))
        if variant != "with-n":
            st0.assume(E.get(self, "sel_n_opt").isnone)
        else:
            st0.assume(Not(dsl.isnan(E.get(self, "sel_n"))))
        had = st0.heap.ensure_ghost_bool("tmp#has:temp:selected").select(target.term)
        t = target.term
        pr = ex._lst_token(target, "temp_selected")
        st0.ghost["label_schemas2"] = [lambda x, y: Implies(And(ucol_mem(t, x), ucol_mem(t, y), x != y), ucol_ord(t, x) != ucol_ord(t, y)),
                                       lambda x, y: Implies(And(lst_mem(pr, x), lst_mem(pr, y), x != y), lst_ord(pr, x) != lst_ord(pr, y))]
        E = st0.heap.copy()
        prior = entry_selected(ex, self, target)
        now = E.get(target, "now")
        cand = lambda x: And(z3.If(had, prior.mem(x), ucol_mem(t, x)),
                             Or(E.get(self, "include_no_data"), And(ucol_mem(t, x), Not(ucell_nan(t, now.r, x)), Or(E.get(self, "include_negative"), ucell(t, now.r, x) > 0))))
        t0 = time.time()
        exits = ex.run_function(fi, st0.fork(), self, [target])
        fr.symexec_s = time.time() - t0
        fr.paths = len(exits)
        obligs = []
        name = "SelectRandomly.__call__[%s]" % variant
        for (st, oc) in exits:
            kind = oc.kind if oc.kind != "raise" else "raise:" + oc.exc
            fr.exits[kind] = fr.exits.get(kind, 0) + 1
            obligs.extend(st.obligs)
            if oc.kind == "raise":
                continue
            sel = st.ghost.get("temp:temp:selected")
            x = fresh_label("x")
            pc = list(st.pc) + label_hyps(st, [x])

            def ob(cid, goal):
                obligs.append(Oblig("%s/%s" % (name, cid), pc, goal, "post", P14))

            ob("returns-True", oc.kind == "return" and oc.value is True)
            ob("sets-selected", isinstance(sel, (ListLV, IndexLV)))
            if not isinstance(sel, (ListLV, IndexLV)):
                continue
            R = sel.ls
            ob("only-tradable-candidates-are-drawn", Implies(R.mem(x), cand(x)))
            if variant != "with-n":
                ob("every-candidate-is-kept-when-no-n-is-given", Implies(cand(x), R.mem(x)))
            else:
                nn = E.get(self, "sel_n")
                ob("the-draw-has-min(n, candidates)-members", R.n is not None)
        s = z3.Solver()
        for p in st0.pc:
            s.add(p)
        fr.canary = str(s.check())
        discharge(obligs, timeout_ms, fr, contract.qualname)
        fr.stats = dict(feas_queries=ex.stats.feas_queries, feas_s=round(ex.stats.feas_time, 3), inlined=sorted(ex.stats.inlined), contracts_used=sorted(ex.stats.contracts_used))
    except Undecided as e:
        fr.undecided = str(e)
    except Exception as e:
        fr.undecided = "ENGINE-ERROR: %s\n%s" % (e, traceback.format_exc())
    return fr


# ------------------------------------------------------------------ SetNotional (C17)
def verify_set_notional(ex, contract, timeout_ms=30000):
    """True exactly when the notional series has a value dated now, and then temp['notional_value'] is that value; False and nothing set otherwise"""
    from pyvc.verify import FuncReport, discharge, entry_state
    from pyvc.ext_frames import fidx_mem

    fr = FuncReport(contract.qualname)
    name = "SetNotional.__call__"
    P17 = ("C17", "C04")
    try:
        fi = ex.prog.func(contract.qualname)
        fr.source_hash = fi.source_hash()
        st0, self, args = entry_state(ex, contract)
        target = args[0]
        st0.assume(And(target.term != dsl.NONE, target.term != self.term))
        E = st0.heap.copy()
        exits = ex.run_function(fi, st0.fork(), self, [target])
        fr.paths = len(exits)
        obligs = []
        now = E.get(target, "now")
        for (st, oc) in exits:
            kind = oc.kind if oc.kind != "raise" else "raise:" + oc.exc
            fr.exits[kind] = fr.exits.get(kind, 0) + 1
            obligs.extend(st.obligs)
            if oc.kind != "return":
                if oc.kind == "raise":
                    continue
                obligs.append(Oblig("%s/always-returns" % name, st.pc, False, "post", P17))
                continue
            frames = [v for v in st.locals.values() if type(v).__name__ == "AuxFrameV"]
            obligs.append(Oblig("%s/reads-one-supplied-series" % name, st.pc, len(frames) == 1, "post", P17))
            if not frames:
                continue
            tok = frames[0].token
            res = oc.value if not isinstance(oc.value, bool) else z3.BoolVal(oc.value)
            obligs.append(Oblig("%s/true-iff-the-series-has-a-value-dated-now" % name, st.pc, res == fidx_mem(tok, now.r), "post", P17))
            v = st.ghost.get("temp:temp:notional_value")
            if oc.value is True or (not isinstance(oc.value, bool)):
                obligs.append(Oblig("%s/notional-is-the-value-dated-now" % name, st.pc, Implies(res, v is not None and getattr(v, "desc_label", None) is None), "post", P17))
            else:
                obligs.append(Oblig("%s/nothing-set-when-false" % name, st.pc, v is None, "post", P17))
        s = z3.Solver()
        for p in st0.pc:
            s.add(p)
        fr.canary = str(s.check())
        discharge(obligs, timeout_ms, fr, contract.qualname)
        fr.stats = dict(feas_queries=ex.stats.feas_queries, feas_s=round(ex.stats.feas_time, 3), inlined=sorted(ex.stats.inlined), contracts_used=sorted(ex.stats.contracts_used))
    except Undecided as e:
        fr.undecided = str(e)
    except Exception as e:
        fr.undecided = "ENGINE-ERROR: %s\n%s" % (e, traceback.format_exc())
    return fr
