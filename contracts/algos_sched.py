"""
Contracts of the scheduling algos (property C12).

RunPeriod.__call__   result <=> now in index and index >= 1 and (first | last | new_period(now, neighbour))
compare_dates (x5)   proved to be a key inequality  K(now) != K(d)  over calendar accessors (extracted
                     from the body); K is then confronted with the independent calendar spec by the
                     exhaustive partition check over every day pandas can represent (props/C12.py)
RunOnce / RunOnDate / RunAfterDate / RunAfterDays / RunEveryNPeriods: functional specs + counting lemmas
"""
import z3

from pyvc import dsl
from pyvc.dsl import Num, And, Or, Not, Implies, ite, eq, ne
from pyvc.heap import RefV, cls_f
from pyvc.contracts import FunctionalContract
from pyvc.ext_algos import idxlen_c, inidx_f, dateat_f, CAL
from pyvc.heap import idx_f

cmpd_f = z3.Function("new_period", z3.IntSort(), z3.IntSort(), z3.IntSort(), z3.BoolSort())
from pyvc.ext_algos import inlist_f

P12 = {"result": ("C12",), "*": ("C12",)}


def spec_compare_family(S, self, now, d, exact=False):
    return cmpd_f(cls_f(self.term), Num.lift(now).r, Num.lift(d).r)


def spec_runperiod_call(S, self, target):
    now = S.get(target, "now")
    inidx = inidx_f(now.r)
    index = Num(idx_f(now.r), False, True)
    L = Num(idxlen_c, False, True)
    first = S.get(self, "_run_on_first_date")
    last = S.get(self, "_run_on_last_date")
    eop = S.get(self, "_run_on_end_of_period")
    nb = ite(eop, index + 1, index - 1)
    cmpv = cmpd_f(cls_f(self.term), now.r, dateat_f(nb.r))
    return And(inidx, index.ne(0), z3.If(index.eq(1), first, z3.If(index.eq(L - 1), last, cmpv)))


def runperiod_pre(S, self, target):
    now = S.get(target, "now")
    return [
        ("index-wf", Implies(inidx_f(now.r), And(idx_f(now.r) >= 0, idx_f(now.r) < idxlen_c))),
        ("len-nonneg", idxlen_c >= 0),
    ]


# ---- counting / date schedulers
def spec_runonce(S, self, target):
    hr = S.get(self, "has_run")
    S.set(self, "has_run", True)
    return Not(hr)


def spec_runafterdays(S, self, target):
    d = S.get(self, "days")
    with S.when(d > 0):
        S.set(self, "days", d - 1)
    return Not(d > 0)


def spec_runeverynperiods(S, self, target):
    now = S.get(target, "now")
    lcall = S.get(self, "lcall")
    idx = S.get(self, "idx")
    n = S.get(self, "n")
    same = eq(lcall, now)
    fire = And(Not(same), eq(idx, n - 1))
    with S.when(Not(same)):
        S.set(self, "lcall", now)
        S.set(self, "idx", ite(eq(idx, n - 1), 0, idx + 1))
    return fire


def spec_runafterdate(S, self, target):
    return S.get(target, "now") > S.get(self, "date")


def spec_runondate(S, self, target):
    return inlist_f(self.term, S.get(target, "now").r)


def contracts():
    T = [("target", "ref:StrategyBase")]
    cs = [
        FunctionalContract("bt.algos.RunPeriod.compare_dates", [("now", "date"), ("date_to_compare", "date")], spec_compare_family, self_cls="RunPeriod", family=True, field_props=P12),
        FunctionalContract("bt.algos.RunPeriod.__call__", T, spec_runperiod_call, pre=runperiod_pre, self_cls="RunPeriod", field_props=P12),
        FunctionalContract("bt.algos.RunOnce.__call__", T, spec_runonce, self_cls="RunOnce", field_props=P12),
        FunctionalContract("bt.algos.RunAfterDays.__call__", T, spec_runafterdays, self_cls="RunAfterDays", field_props=P12),
        FunctionalContract("bt.algos.RunEveryNPeriods.__call__", T, spec_runeverynperiods, self_cls="RunEveryNPeriods", field_props=P12),
        FunctionalContract("bt.algos.RunAfterDate.__call__", T, spec_runafterdate, self_cls="RunAfterDate", field_props=P12),
        FunctionalContract("bt.algos.RunOnDate.__call__", T, spec_runondate, self_cls="RunOnDate", field_props=P12),
    ]
    return cs
