"""
Tree wiring (property C19): settings pushed from the top reach every descendant.

Node._set_root, Node.use_integer_positions and StrategyBase.set_commissions all have the shape
"set the field on self, then recurse into the children": the real bodies are verified against
  * the field of self holds the argument afterwards,
  * every child (every *strategy* child for set_commissions) receives exactly one recursive call with the same argument,
  * nothing else is written (frame),
and the statement for all descendants follows by induction over the tree (A-IND, recursive use of the same contract).
"""
import time
import traceback

import z3

from pyvc import dsl
from pyvc.dsl import Num, And, Or, Not, Implies
from pyvc.heap import RefV, FnV, StrV, map_same, cls_f
from pyvc.state import Oblig, Undecided
from pyvc.contracts import RelationalContract, LoopSpec, ForallInt, value_same
from pyvc.symexec import NONEV
from .tree import treeof_f, slot_f, cidx_f, child_facts, children_schema, cls_in, STRAT_CLASSES, SEC_CLASSES

P19 = ("C19",)
SPECS = {
    "bt.core.Node._set_root": dict(field="root", param=("root", "ref:StrategyBase"), cls="Node", only_strategies=False),
    "bt.core.Node.use_integer_positions": dict(field="integer_positions", param=("integer_positions", "bool"), cls="Node", only_strategies=False),
    "bt.core.StrategyBase.set_commissions": dict(field="commission_fn", param=("fn", "fn"), cls="StrategyBase", only_strategies=True),
}


def _zb(f):
    return z3.BoolVal(f) if isinstance(f, bool) else f


def _same(a, b):
    if isinstance(a, RefV):
        return a.term == b.term
    if isinstance(a, FnV):
        return a.term == b.term
    return value_same(a, b)


def make_apply(q):
    sp = SPECS[q]

    def apply(ex, st, recv, args, exact=False):
        """recursive use: the field is set throughout the receiver's subtree (strategies only for commissions)"""
        h = st.heap
        parent = h.get(recv, "parent")
        k = cidx_f(recv.term)
        key = sp["field"]
        h.ensure(key)
        is_root = parent.term == recv.term
        h.havoc(key, cond=lambda x: z3.If(is_root, treeof_f(x) == recv.term, slot_f(parent.term, x) == k))
        h.set(recv, key, args[0])
        return [(st, NONEV)]

    return apply


def _inv_factory(q):
    sp = SPECS[q]

    def inv(ctx):
        st, E = ctx.cur, ctx.entry.heap
        self = ctx.entry.locals["self"]
        arg = ctx.entry.locals[sp["param"][0]]
        out = [("own-field-still-set", _same(st.heap.get(self, sp["field"]), arg))]
        out.append(("children-so-far-have-the-setting", ForallInt(0, ctx.i, lambda j: _child_ok(sp, st.heap, E, self, j, arg), name="jp")))
        if ctx.phase == "step":
            ih = ctx.i - 1
            c = E.list_at(self, "_childrenv", ih)
            new = [x for x in st.log[len(ctx.head.log):] if len(x) == 4]
            is_strat = cls_in(E.schema, c.term, STRAT_CLASSES)
            want = is_strat if sp["only_strategies"] else True
            out.append(("child-gets-exactly-one-recursive-call-with-the-same-argument", And(_zb(want) == (len(new) == 1), len(new) <= 1)))
            for x in new:
                out.append(("recursive-call-on-that-child", And(x[0].endswith(q.rsplit(".", 1)[1]), x[1].term == c.term, _same(x[2][0], arg))))
        return out

    return inv


def _child_ok(sp, h, E, self, j, arg):
    c = E.list_at(self, "_childrenv", j)
    ok = _same(h.get(c, sp["field"]), arg)
    if sp["only_strategies"]:
        return Implies(cls_in(E.schema, c.term, STRAT_CLASSES), ok)
    return ok


def struct_facts(heap, s, j):
    """the part of T these functions rely on: children are distinct non-null nodes other than s, indexed by slot/cidx
    (no assumption on root/integer_positions/commission: those are what is being established)"""
    c = heap.list_at(s, "_childrenv", j)
    jr = Num.lift(j).r
    return [c.term != dsl.NONE, c.term != s.term, heap.get(c, "parent").term == s.term, slot_f(s.term, c.term) == jr, cidx_f(c.term) == jr,
            cls_in(heap.schema, c.term, SEC_CLASSES + STRAT_CLASSES), heap.list_len(c, "_childrenv").r >= 0]


def struct_schema(heap, s):
    n = heap.list_len(s, "_childrenv")
    return ForallInt(0, n, lambda j: And(*struct_facts(heap, s, j)), name="jc")


def _havoc_factory(q):
    sp = SPECS[q]

    def hv(ctx):
        self = ctx.entry.locals["self"]

        def sub(i):
            i = Num.lift(i)
            return lambda x: And(slot_f(self.term, x) >= 0, slot_f(self.term, x) < i.r)

        return [(sp["field"], sub)]

    return hv


def _on_iter(ctx, c):
    st = ctx.cur
    self = st.locals["self"]
    for f in struct_facts(ctx.entry.heap, self, ctx.i):
        st.assume(_zb(f))


LOOPS = {(q, 0): LoopSpec(_inv_factory(q), havoc_heap=_havoc_factory(q), on_iter=_on_iter, name="push setting to children") for q in SPECS}


def verify_propagation(ex, contract, timeout_ms=30000):
    from pyvc.verify import FuncReport, discharge, entry_state

    q = contract.qualname
    sp = SPECS[q]
    fr = FuncReport(q)
    name = q.split(".", 2)[-1]
    try:
        fi = ex.prog.func(q)
        fr.source_hash = fi.source_hash()
        st0, self, args = entry_state(ex, contract)
        E = st0.heap
        st0.assume(And(self.term != dsl.NONE, slot_f(self.term, self.term) == -1))
        E.ensure(sp["field"])
        E = st0.heap.copy()
        st0.ghost["schemas"] = [struct_schema(E, self)]
        t0 = time.time()
        exits = ex.run_function(fi, st0.fork(), self, args)
        fr.symexec_s = time.time() - t0
        fr.paths = len(exits)
        obligs = []
        for xi, (st, oc) in enumerate(exits):
            kind = oc.kind if oc.kind != "raise" else "raise:" + oc.exc
            fr.exits[kind] = fr.exits.get(kind, 0) + 1
            obligs.extend(st.obligs)
            if oc.kind == "raise":
                if oc.exc != "<cut>":
                    obligs.append(Oblig("%s/never-raises" % name, st.pc, False, "post", P19))
                continue
            F = st.heap
            obligs.append(Oblig("%s/own-field-is-the-argument" % name, st.pc, _same(F.get(self, sp["field"]), args[0]), "post", P19 + (("C07",) if sp["field"] == "commission_fn" else ())))
            n = E.list_len(self, "_childrenv")
            o = Oblig("%s/every-child-has-the-setting" % name, st.pc, ForallInt(0, n, lambda j, F=F: _child_ok(sp, F, E, self, j, args[0]), name="jp"), "post", P19 + (("C07",) if sp["field"] == "commission_fn" else ()))
            o.schemas = list(st.ghost.get("schemas", []))
            obligs.append(o)
            x = z3.Const(dsl.fresh_name("xfr"), dsl.Ref)
            outside = And(x != self.term, slot_f(self.term, x) == -1)
            for key in sorted(F.maps.keys()):
                a, b = F.maps[key], E.ensure(key)
                if map_same(a, b):
                    continue
                obligs.append(Oblig("%s/frame:%s" % (name, key), st.pc, Implies(Or(outside, key.split("#")[0] != sp["field"]), a.select(x) == b.select(x)), "post", P19 + ("C11",)))
        s = z3.Solver()
        for p in st0.pc:
            s.add(p)
        fr.canary = str(s.check())
        discharge(obligs, timeout_ms, fr, q)
        fr.stats = dict(feas_queries=ex.stats.feas_queries, feas_s=round(ex.stats.feas_time, 3), inlined=sorted(ex.stats.inlined), contracts_used=sorted(ex.stats.contracts_used))
    except Undecided as e:
        fr.undecided = str(e)
    except Exception as e:
        fr.undecided = "ENGINE-ERROR: %s\n%s" % (e, traceback.format_exc())
    return fr


def contracts():
    out = [(RelationalContract("bt.core.Node._add_children", [("children", "any"), ("dc", "bool")], _log_only("_add_children"), self_cls="Node", note="per-element contract of the registration loop, see verify_add_children"), verify_add_children)]
    for q, sp in SPECS.items():
        out.append((RelationalContract(q, [sp["param"]], make_apply(q), self_cls=sp["cls"], note="sets %s on self and recurses into the children" % sp["field"]), verify_propagation))
    return out


# ------------------------------------------------------------------ lazy children: StrategyBase._create_child_if_needed
class PyListV(object):
    """a Python list literal of values (only passed on to a callee)"""

    def __init__(self, items):
        self.items = list(items)


def _tree_executor(ex):
    """the standard executor plus the three constructs _create_child_if_needed needs: instantiating a security class,
    dict.pop(name, default) on the lazy-children dict, and a list literal passed to a callee"""
    import ast
    from pyvc.symexec import BoundFn, _Raised
    from pyvc.heap import StrV

    base = type(ex)
    lazy_has = z3.Function("lazy_has", dsl.Ref, dsl.Str, z3.BoolSort())
    lazy_at = z3.Function("lazy_at", dsl.Ref, dsl.Str, dsl.Ref)

    class TreeExecutor(base):
        def load_attr(self, st, obj, attr):
            if isinstance(obj, RefV) and attr == "_lazy_children":
                return [(st, ("lazydict", obj))]
            if isinstance(obj, tuple) and len(obj) == 2 and obj[0] == "lazydict" and attr == "pop":
                return [(st, BoundFn("lazypop", "pop", recv=obj[1]))]
            return base.load_attr(self, st, obj, attr)

        def expr_List(self, e, st):
            if e.elts:
                out = []
                for (s, vals) in self.eval_seq(e.elts, st):
                    out.append((s, vals if isinstance(vals, _Raised) else PyListV(vals)))
                return out
            return base.expr_List(self, e, st)

        def call_value(self, st, f, pos, kw):
            if isinstance(f, BoundFn) and f.kind == "class" and f.name in SEC_CLASSES:
                # a new security object: distinct from everything that existed, named by its first argument, not lazy unless asked
                n = RefV(dsl.fresh_ref("new_" + f.name), f.name)
                st.assume(And(n.term != dsl.NONE, cls_f(n.term) == self.schema.tag(f.name), newobj_f(n.term)))
                if pos and isinstance(pos[0], StrV):
                    st.heap.set(n, "name", pos[0])
                la = kw.get("lazy_add", False)
                st.heap.set(n, "lazy_add", la)
                st.log.append(("new:" + f.name, n, tuple(pos), st.heap.copy()))
                return [(st, n)]
            if isinstance(f, BoundFn) and f.kind == "lazypop":
                owner, name, dflt = f.recv, pos[0], pos[1]
                has = lazy_has(owner.term, name.term)
                c = RefV(z3.If(has, lazy_at(owner.term, name.term), dflt.term), "SecurityBase")
                # what sits in the lazy dict are securities that existed before this call
                st.assume(Implies(has, And(lazy_at(owner.term, name.term) != dsl.NONE, Not(newobj_f(lazy_at(owner.term, name.term))), cls_in(self.schema, lazy_at(owner.term, name.term), SEC_CLASSES))))
                st.ghost["lazy_popped"] = (has, c, dflt)
                return [(st, c)]
            return base.call_value(self, st, f, pos, kw)

    t = TreeExecutor.__new__(TreeExecutor)
    t.__dict__.update(ex.__dict__)
    return t


newobj_f = z3.Function("allocated_in_this_call", dsl.Ref, z3.BoolSort())


def _log_only(name):
    def apply(ex, st, recv, args, exact=False):
        return [(st, NONEV)]

    return apply


def verify_create_child(ex, contract, timeout_ms=30000):
    """body of _create_child_if_needed against: nothing at all when the name is already a child; otherwise the lazily
    registered security of that name (a default Security(name) when there is none), with lazy_add switched off, is
    attached through _add_children([c], dc=False), set up with the strategy's own universe and setup kwargs, and brought
    to the strategy's current date by update(self.now) - in this order, and nothing else is called."""
    from pyvc.verify import FuncReport, discharge, entry_state

    q = contract.qualname
    fr = FuncReport(q)
    name = "StrategyBase._create_child_if_needed"
    try:
        fi = ex.prog.func(q)
        fr.source_hash = fi.source_hash()
        tx = _tree_executor(ex)
        tx.contracts = dict(ex.contracts)
        tx.contracts.pop(q, None)
        c_add = RelationalContract("bt.core.Node._add_children", [("children", "any"), ("dc", "bool")], _log_only("_add_children"), self_cls="Node", note="assumed here (log only); exercised by the bounded stand-in c19_tree")
        c_setup = RelationalContract("bt.core.SecurityBase.setup", [("universe", "any")], _log_only("setup"), self_cls="SecurityBase", note="opaque (pandas construction)")
        c_setup.raw_args = True
        tx.contracts[c_add.qualname] = c_add
        tx.contracts[c_setup.qualname] = c_setup
        for sub in ("CouponPayingSecurity", "FixedIncomeSecurity", "HedgeSecurity", "CouponPayingHedgeSecurity", "Security"):
            cq = "bt.core.%s.setup" % sub
            if tx.prog.has(cq):
                cc = RelationalContract(cq, [("universe", "any")], _log_only("setup"), self_cls=sub)
                cc.raw_args = True
                tx.contracts[cq] = cc
        st0, self, args = entry_state(tx, contract)
        child = args[0]
        E = st0.heap
        st0.assume(And(self.term != dsl.NONE, Not(newobj_f(self.term))))
        for k in ("lazy_add", "name", "now"):
            E.ensure(k)
        E = st0.heap.copy()
        had = E.dict_has(self, "children", child)
        t0 = time.time()
        exits = tx.run_function(fi, st0.fork(), self, args)
        fr.symexec_s = time.time() - t0
        fr.paths = len(exits)
        obligs = []
        for xi, (st, oc) in enumerate(exits):
            kind = oc.kind if oc.kind != "raise" else "raise:" + oc.exc
            fr.exits[kind] = fr.exits.get(kind, 0) + 1
            obligs.extend(st.obligs)
            if oc.kind == "raise":
                continue
            calls = [c for c in st.log if len(c) == 4 and not c[0].startswith("new:")]
            news = [c for c in st.log if len(c) == 4 and c[0].startswith("new:")]
            names = [c[0].rsplit(".", 1)[1] for c in calls]

            def ob(cid, goal, props=P19):
                obligs.append(Oblig("%s/%s" % (name, cid), st.pc, goal, "post", props))

            ob("existing-child:nothing-is-called", Implies(had, len(calls) == 0))
            x = z3.Const(dsl.fresh_name("xfr"), dsl.Ref)
            for key in sorted(st.heap.maps.keys()):
                a, b = st.heap.maps[key], E.ensure(key)
                if map_same(a, b):
                    continue
                # an object allocated by this call (the unused default security) is not part of the pre-state
                ob("existing-child:nothing-is-written:%s" % key, Implies(And(had, Not(newobj_f(x))), a.select(x) == b.select(x)))
            ob("absent-child:attach-setup-update-in-this-order", Implies(Not(had), names == ["_add_children", "setup", "update"]))
            if names == ["_add_children", "setup", "update"]:
                add, setup, upd = calls
                pop = st.ghost.get("lazy_popped")
                ob("lazy-or-default-security-is-used", pop is not None)
                if pop is not None:
                    has, c, dflt = pop
                    ob("default-is-a-plain-Security-named-like-the-child", And(len(news) == 1, news[0][0] == "new:Security", len(news[0][2]) == 1 and news[0][2][0].term == child.term if news else False))
                    lst = add[2][0]
                    ob("attached-to-self-as-the-only-element-without-deepcopy", And(add[1].term == self.term, isinstance(lst, PyListV) and len(lst.items) == 1 and lst.items[0].term == c.term, add[2][1] is False))
                    ob("lazy-flag-is-off-when-attached", Not(add[3].get(c, "lazy_add")))
                    kw = setup[2][-1] if isinstance(setup[2][-1], dict) else {}
                    uni = setup[2][0]
                    ob("set-up-with-the-strategy's-universe-and-kwargs", And(setup[1].term == c.term, len(setup[2]) == 2, getattr(uni, "owner", None) is not None and uni.owner.term == self.term and getattr(uni, "field", "") == "_universe",
                                                                              set(kw.keys()) == {"**"} and getattr(kw.get("**"), "owner", None) is not None and kw["**"].owner.term == self.term and getattr(kw["**"], "field", "") == "_setup_kwargs"))
                    ob("brought-to-the-strategy's-current-date", And(upd[1].term == c.term, value_same(upd[2][0], E.get(self, "now"))))
        s = z3.Solver()
        for p in st0.pc:
            s.add(p)
        fr.canary = str(s.check())
        discharge(obligs, timeout_ms, fr, q)
        fr.stats = dict(feas_queries=tx.stats.feas_queries, feas_s=round(tx.stats.feas_time, 3), inlined=sorted(tx.stats.inlined), contracts_used=sorted(tx.stats.contracts_used))
    except Undecided as e:
        fr.undecided = str(e)
    except Exception as e:
        fr.undecided = "ENGINE-ERROR: %s\n%s" % (e, traceback.format_exc())
    return fr


# ------------------------------------------------------------------ Node._add_children: per-element contract of the registration loop
class ParamList(object):
    """the `children` argument when it is a list: all strings, or all node objects (two verification variants)"""

    def __init__(self, kind, n, at):
        self.kind, self.n, self.at = kind, n, at


ut_has = z3.Function("universe_tickers_has", dsl.Ref, dsl.Str, z3.BoolSort())


def _add_children_executor(ex):
    """tolerant executor (for its copy.deepcopy model; any abstracted statement fails an obligation) + class instantiation, list/dict
    registration stores and string-list bookkeeping recorded in the log"""
    import ast
    from pyvc.tolerant import TolerantExecutor
    from pyvc.symexec import BoundFn, _Raised
    from pyvc.heap import StrV, ListV, DictV
    from pyvc.state import Outcome

    base0 = _tree_executor(ex)
    tol = TolerantExecutor(ex.prog, ex.schema, dict(ex.contracts), inline=set(ex.inline))
    TB = type("TolTree", (type(base0), TolerantExecutor), {})

    class AddExecutor(TB):
        def call_special(self, st, f, e):
            if f.name == "isinstance" and len(e.args) == 2 and isinstance(e.args[1], ast.Name) and e.args[1].id in ("dict", "str"):
                out = []
                for (s, v) in self.eval(e.args[0], st):
                    if e.args[1].id == "dict":
                        out.append((s, False if isinstance(v, (ParamList, StrV, RefV)) else self._undecided("isinstance(.., dict)")))
                    else:
                        out.append((s, isinstance(v, StrV)))
                return out
            if f.name == "getattr" and len(e.args) == 3 and isinstance(e.args[1], ast.Constant) and e.args[1].value == "lazy_add":
                out = []
                for (s, v) in self.eval(e.args[0], st):
                    # strategies have no lazy_add attribute (default False); securities carry the flag
                    out.append((s, And(cls_in(self.schema, v.term, SEC_CLASSES), s.heap.get(v, "lazy_add"))))
                return out
            return TB.call_special(self, st, f, e)

        def iter_adapter(self, it, st):
            if isinstance(it, ParamList):
                def elem(s, i, it=it):
                    t = it.at(Num.lift(i).r)
                    if it.kind == "str":
                        return StrV(t)
                    r = RefV(t, "Node")
                    s.assume(And(t != dsl.NONE, cls_in(self.schema, t, SEC_CLASSES + STRAT_CLASSES), s.heap.get(r, "_issec") == cls_in(self.schema, t, SEC_CLASSES)))
                    return r

                return it.n, elem, None
            return TB.iter_adapter(self, it, st)

        def load_attr(self, st, obj, attr):
            if isinstance(obj, RefV) and attr == "_universe_tickers":
                return [(st, ("strlist", obj, "_universe_tickers"))]
            if isinstance(obj, RefV) and attr == "_strat_children":
                return [(st, ("strlist", obj, "_strat_children"))]
            if isinstance(obj, tuple) and len(obj) == 3 and obj[0] == "strlist" and attr == "append":
                return [(st, BoundFn("strlist_append", "append", recv=obj))]
            if isinstance(obj, ListV) and obj.field == "_childrenv" and attr == "append":
                return [(st, BoundFn("childlist_append", "append", recv=obj))]
            return TB.load_attr(self, st, obj, attr)

        def ext_in(self, a, b, st):
            if isinstance(b, tuple) and len(b) == 3 and b[0] == "strlist" and b[2] == "_universe_tickers" and isinstance(a, StrV):
                added = [x for x in st.log if len(x) == 3 and x[0] == "append:_universe_tickers" and z3.is_true(z3.simplify(x[1].term == b[1].term))]
                return Or(ut_has(b[1].term, a.term), *[x[2].term == a.term for x in added])
            return TB.ext_in(self, a, b, st)

        def call_value(self, st, f, pos, kw):
            if isinstance(f, BoundFn) and f.kind == "strlist_append":
                st.log.append(("append:" + f.recv[2], f.recv[1], pos[0]))
                return [(st, NONEV)]
            if isinstance(f, BoundFn) and f.kind == "childlist_append":
                owner = f.recv.owner
                h = st.heap
                n = h.list_len(owner, "_childrenv")
                arr, lens = h.arr("_childrenv"), h.lenarr("_childrenv")
                h.maps["_childrenv"] = arr.store(owner.term, z3.Store(arr.select(owner.term), n.r, pos[0].term))
                h.maps["_childrenv#len"] = lens.store(owner.term, n.r + 1)
                return [(st, NONEV)]
            return TB.call_value(self, st, f, pos, kw)

        def ext_store_subscript(self, st, b, i, v):
            if isinstance(b, tuple) and len(b) == 2 and b[0] == "lazydict" and isinstance(i, StrV) and isinstance(v, RefV):
                st.log.append(("lazy_register", b[1], i, v))
                return [st]
            if isinstance(b, DictV) and b.field == "children" and isinstance(i, StrV) and isinstance(v, RefV):
                h = st.heap
                hasm, chm = h.hasarr("children"), h.arr("children")
                h.maps["children#has"] = hasm.store(b.owner.term, z3.Store(hasm.select(b.owner.term), i.term, z3.BoolVal(True)))
                h.maps["children"] = chm.store(b.owner.term, z3.Store(chm.select(b.owner.term), i.term, v.term))
                return [st]
            return TB.ext_store_subscript(self, st, b, i, v)

    t = AddExecutor.__new__(AddExecutor)
    t.__dict__.update(tol.__dict__)
    t.__dict__.update({k: v for k, v in base0.__dict__.items() if k not in t.__dict__})
    t.contracts = dict(ex.contracts)
    t.loop_specs = dict(ex.loop_specs)
    t.abstracted = []
    return t


def _add_loop_inv(ctx):
    """per-element contract: what one pass of the registration loop does with its element, from whatever state the loop head is in"""
    st = ctx.cur
    if ctx.phase != "step":
        return []
    H = ctx.head
    self = ctx.entry.locals["self"]
    variant = ctx.entry.ghost["variant"]
    dc = ctx.entry.locals["dc"]
    plist = ctx.entry.ghost["plist"]
    ih = ctx.i - 1
    h0, h1 = H.heap, st.heap
    new = st.log[len(H.log):]
    names4 = [x[0].rsplit(".", 1)[-1] for x in new if len(x) == 4]
    out = []
    n0, n1 = h0.list_len(self, "_childrenv"), h1.list_len(self, "_childrenv")
    if variant == "str":
        nm = StrV(plist.at(ih.r))
        news = [x for x in new if len(x) == 4 and x[0].startswith("new:")]
        regs = [x for x in new if len(x) == 4 and x[0] == "lazy_register"]
        out.append(("string:one-lazy-Security-of-that-name-is-created-and-registered-not-attached", And(len(news) == 1 and news[0][0] == "new:Security" and news[0][2][0].term == nm.term and news[0][3].get(news[0][1], "lazy_add") is not False,
                                                                                                       len(regs) == 1 and regs[0][2].term == nm.term and regs[0][3].term == news[0][1].term if (news and regs) else False, n1.eq(n0))))
        uts = [x for x in new if len(x) == 3 and x[0] == "append:_universe_tickers"]
        out.append(("string:recorded-as-a-declared-ticker", And(len(uts) == 1, uts[0][2].term == nm.term) if len(uts) == 1 else False))
        out.append(("string:a-lazily-created-security-carries-the-lazy-flag", bool(news) and _zb(news[0][3].get(news[0][1], "lazy_add"))))
        return out
    # node element (possibly deep-copied first)
    orig = RefV(plist.at(ih.r), "Node")
    copies = [x for x in new if x[0] == "deepcopy"]
    if dc is True:
        out.append(("node:deep-copied-exactly-once-when-asked", len(copies) == 1 and copies[0][1].term is not None and z3.is_true(z3.simplify(copies[0][1].term == orig.term))))
        c = copies[0][2][0] if copies else orig
    else:
        out.append(("node:not-copied-when-not-asked", len(copies) == 0))
        c = orig
    lazy = And(cls_in(h0.schema, c.term, SEC_CLASSES), h0.get(c, "lazy_add")) if dc is not True else And(cls_in(h0.schema, orig.term, SEC_CLASSES), h0.get(orig, "lazy_add"))
    nm = h1.get(c, "name")
    regs = [x for x in new if len(x) == 4 and x[0] == "lazy_register"]
    isstrat = cls_in(h0.schema, orig.term, STRAT_CLASSES)
    sr = [x for x in new if len(x) == 4 and x[0].endswith("._set_root")]
    ip = [x for x in new if len(x) == 4 and x[0].endswith(".use_integer_positions")]
    attached = And(n1.eq(n0 + 1), h1.list_at(self, "_childrenv", n0).term == c.term, h1.dict_has(self, "children", nm), h1.dict_at(self, "children", nm).term == c.term, h1.get(c, "parent").term == self.term)
    out.append(("node:lazy-ones-are-registered-not-attached", Implies(lazy, And(n1.eq(n0), len(regs) == 1 and regs[0][3].term == c.term if regs else False))))
    out.append(("node:others-are-attached-at-the-end-under-their-name-with-self-as-parent", Implies(Not(lazy), attached if not regs else False)))
    out.append(("node:attached-ones-get-root-and-integer-mode-pushed-down-once", Implies(Not(lazy), And(len(sr) == 1 and sr[0][1].term == c.term and sr[0][2][0].term == h0.get(self, "root").term if sr else False,
                                                                                                     len(ip) == 1 and ip[0][1].term == c.term and _same(ip[0][2][0], h0.get(self, "integer_positions")) if ip else False))))
    sc = [x for x in new if len(x) == 3 and x[0] == "append:_strat_children"]
    ut = [x for x in new if len(x) == 3 and x[0] == "append:_universe_tickers"]
    out.append(("node:strategies-raise-the-flag-and-are-listed-securities-become-declared-tickers",
                And(Implies(isstrat, And(h1.get(self, "_has_strat_children"), len(sc) == 1 and sc[0][2].term == nm.term if sc else False, len(ut) == 0)),
                    Implies(Not(isstrat), And(len(sc) == 0, Or(len(ut) == 1 and ut[0][2].term == nm.term if ut else False, ut_has(self.term, nm.term)) if len(ut) <= 1 else False)))))
    return out


def _add_loop_havoc(ctx):
    # everything the loop may touch is unknown at the head: the per-element clauses do not depend on what earlier elements did
    return ["children", "children#has", "_childrenv", "_childrenv#len", "_has_strat_children", "parent", "root", "integer_positions", "lazy_add", "name",
            "_bidoffer_set", "_fixed_income", "_issec", "_paper_trade", "commission_fn"]


ADD_LOOP = LoopSpec(_add_loop_inv, havoc_heap=_add_loop_havoc, name="register each child")
LOOPS[("bt.core.Node._add_children", 1)] = ADD_LOOP   # ordinal 0 is the dict-renaming loop (not reached for list arguments)
LOOPS[("bt.core.Node._add_children", 0)] = LoopSpec(lambda ctx: [], name="dict renaming (not reached: list argument)")


def verify_add_children(ex, contract, timeout_ms=30000, variant="nodes"):
    """variants: 'str' (list of names), 'nodes' (list of node objects, dc=False), 'nodes-dc' (dc=True).  Dict arguments: bounded only."""
    from pyvc.verify import FuncReport, discharge
    from pyvc.state import State
    from pyvc.heap import Heap

    q = contract.qualname
    fr = FuncReport(q)
    name = "Node._add_children[%s]" % variant
    try:
        fi = ex.prog.func(q)
        fr.source_hash = fi.source_hash()
        ax = _add_children_executor(ex)
        ax.contracts.pop(q, None)
        st0 = State(Heap(ex.schema))
        self = RefV(dsl.fresh_ref("self"), "StrategyBase")
        E = st0.heap
        st0.assume(And(self.term != dsl.NONE, E.get(self, "root").term != dsl.NONE, E.list_len(self, "_childrenv").r >= 0, Not(newobj_f(self.term))))
        kind = "str" if variant == "str" else "node"
        n = Num(z3.Int(dsl.fresh_name("n_children")), False, True)
        st0.assume(n.r >= 0)
        at = z3.Function(dsl.fresh_name("child_arg_at"), z3.IntSort(), dsl.Str if kind == "str" else dsl.Ref)
        plist = ParamList(kind, n, at)
        dc = variant == "nodes-dc"
        st0.ghost.update(variant=kind, plist=plist)
        for k in ("children", "children#has", "_childrenv", "_childrenv#len", "_has_strat_children", "parent", "root", "integer_positions", "lazy_add", "name"):
            try:
                E.ensure(k)
            except Exception:
                pass
        t0 = time.time()
        exits = ax.run_function(fi, st0.fork(), self, [plist, dc])
        fr.symexec_s = time.time() - t0
        fr.paths = len(exits)
        obligs = []
        for (st, oc) in exits:
            kind_ = oc.kind if oc.kind != "raise" else "raise:" + oc.exc
            fr.exits[kind_] = fr.exits.get(kind_, 0) + 1
            obligs.extend(st.obligs)
        # the element contract is only as good as the model: nothing in the function may have been abstracted away
        if ax.abstracted:
            raise Undecided("statement(s) outside the model of _add_children: %s" % "; ".join(str(a)[:100] for a in ax.abstracted[:3]))
        for o in obligs:
            if o.id.startswith(q):
                o.id = o.id.replace(q, name)
            o.props = P19
        s = z3.Solver()
        for p in st0.pc:
            s.add(p)
        fr.canary = str(s.check())
        discharge(obligs, timeout_ms, fr, q)
        fr.stats = dict(feas_queries=ax.stats.feas_queries, feas_s=round(ax.stats.feas_time, 3), inlined=sorted(ax.stats.inlined), contracts_used=sorted(ax.stats.contracts_used), abstracted=[str(a)[:120] for a in ax.abstracted[:5]])
    except Undecided as e:
        fr.undecided = str(e)
    except Exception as e:
        fr.undecided = "ENGINE-ERROR: %s\n%s" % (e, traceback.format_exc())
    return fr
