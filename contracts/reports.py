"""
Report accessors under contract (property C18): Backtest.weights, Backtest.security_weights, StrategyBase.positions, StrategyBase.outlays.

A small time-indexed frame algebra, enough for these four bodies:
  SeriesTS   a node history as a function of the date index:   val(t)            (ts_f[kind](node, t), reals)
  FrameTS    a DataFrame known by its columns and cells:        has(l), cell(l, t)
  SeriesDict a python dict  name -> Series  (content lives in the state's ghost dict, so forked paths do not interfere)
  MembersV   strategy.members (or .securities): an abstract sequence  mem_at(root, j), 0 <= j < n_members(root)
The getters' refresh behaviour is not re-proved here: the reports are read on a fresh tree (precondition not root.stale), where the
accessor contracts of C08 say x.values / x.positions / ... are the node's own series; the cached branch (self._weights is not None)
is excluded by precondition (first read).  A-PANDAS: DataFrame(dict of Series) has one column per key; frame[name] = s / += s set /
add to one column; .div(series, axis=0) divides every cell by the series at the same date.

Proved on the real bodies, at a skolem member / name and a skolem date:
  weights            column full_name(m) exists for every member m and holds  value(m, t) / value(root, t)   (notional values for a
                     fixed-income root); no other column
  security_weights   column `name` exists iff some security member has that name, and holds (sum over the security members of that
                     name of value(m, t)) / value(root, t)     (loop invariant with a ghost sum over the member sequence)
  positions/outlays  column `name` exists iff some security member has that name and holds the sum of their positions / outlays
"""
import ast
import time
import traceback

import z3

from pyvc import dsl
from pyvc.dsl import Num, And, Or, Not, Implies, ite
from pyvc.heap import RefV, StrV, cls_f, map_same
from pyvc.state import Oblig, Undecided, Outcome
from pyvc.contracts import RelationalContract, LoopSpec, ForallInt, value_same
from pyvc.symexec import NONEV, BoundFn, _Raised, ModV
from pyvc.ext_frames import S, fresh_label
from .tree import cls_in, SEC_CLASSES, STRAT_CLASSES
from .algos_risk import NanSum

P18 = ("C18",)
I = z3.IntSort()
R = z3.RealSort()
KINDS = {"values": "value", "notional_values": "notional", "positions": "position", "outlays": "outlay", "prices": "price"}
ts_f = {k: z3.Function("history_%s" % k, dsl.Ref, I, R) for k in set(KINDS.values())}
nmem_f = z3.Function("n_members", dsl.Ref, I)
mem_at = z3.Function("member_at", dsl.Ref, I, dsl.Ref)
nsec_f = z3.Function("n_security_members", dsl.Ref, I)      # strategy.securities: the security members, in member order
sec_at = z3.Function("security_member_at", dsl.Ref, I, dsl.Ref)
fullname_f = z3.Function("full_name", dsl.Ref, S)
byfull_idx = z3.Function("member_index_of_full_name", dsl.Ref, S, I)


def _zb(f):
    return z3.BoolVal(f) if isinstance(f, bool) else f


class SeriesTS(object):
    def __init__(self, val, desc=""):
        self.val, self.desc = val, desc  # val: z3 Int term -> Num


class FrameTS(object):
    def __init__(self, has, cell, desc=""):
        self.has, self.cell, self.desc = has, cell, desc  # has(label) -> Bool ; cell(label, t) -> Num


class RowSumTS(object):
    """frame.sum(axis=1): the series whose value at a date is the sum, over the frame's columns, of the cells of that date (A-PANDAS);
    known by the frame it sums (two row sums are equal when their frames have the same columns and cells: extensionality of a finite sum)"""

    def __init__(self, frame, axis_is_rows, desc=""):
        self.frame, self.axis_is_rows, self.desc = frame, axis_is_rows, desc


sw_has = z3.Function("security_weights_has_column", dsl.Ref, S, z3.BoolSort())       # the frame Backtest.security_weights returns (its contract is proved on its own body)
sw_cell = z3.Function("security_weights_cell", dsl.Ref, S, I, R)
pow_f = z3.Function("real_power", R, R, R)


def _const_of(n):
    """python number a Num denotes when it is a literal, else None"""
    try:
        v = z3.simplify(n.r)
        if z3.is_int_value(v):
            return v.as_long()
        if z3.is_rational_value(v):
            return float(v.as_fraction())
    except Exception:
        pass
    return None


class FrameRef(object):
    """a mutable DataFrame / dict of Series held in a local: its content lives in st.ghost[key]"""

    def __init__(self, key, kind):
        self.key, self.kind = key, kind  # kind: 'frame' | 'dict'


class MembersV(object):
    def __init__(self, root, only_sec=False):
        self.root, self.only_sec = root, only_sec


def node_series(node, attr):
    k = KINDS[attr]
    # the accessors hand out a fresh slice (.loc[:now]) on every read; under pandas 3 copy-on-write an in-place operator on it does not reach the node's buffer,
    # so only the cached report frame is marked `shared` (see stmt_AugAssign)
    return SeriesTS(lambda t, node=node, k=k: Num(ts_f[k](node.term, t), False, False), "%s of node" % attr)


def ForallInt_cols_same(fa, fb):
    l = fresh_label("lcol")
    return z3.ForAll([l], _zb(fa.has(l)) == _zb(fb.has(l)))


def _report_executor(ex):
    base = type(ex)

    class ReportExecutor(base):
        def content(self, st, ref):
            return st.ghost[ref.key]

        def load_attr(self, st, obj, attr):
            if isinstance(obj, RefV) and attr in ("members", "securities") and self.prog.is_subclass(obj.cls, "Node"):
                return [(st, MembersV(obj, only_sec=(attr == "securities")))]
            if isinstance(obj, RefV) and attr in KINDS and self.prog.is_subclass(obj.cls, "Node"):
                return [(st, node_series(obj, attr))]
            if isinstance(obj, RefV) and attr == "full_name" and self.prog.is_subclass(obj.cls, "Node"):
                return [(st, StrV(fullname_f(obj.term)))]
            if isinstance(obj, RefV) and attr == "security_weights" and obj.cls == "Backtest":
                self.stats.contracts_used.add("bt.backtest.Backtest.security_weights")
                bt_ = obj.term
                fr_ = FrameTS(lambda l, b=bt_: sw_has(b, l), lambda l, t, b=bt_: Num(sw_cell(b, l, t), False, False), "self.security_weights")
                fr_.shared = True    # the cached frame every later reader gets
                return [(st, fr_)]
            if isinstance(obj, (FrameTS, FrameRef)) and attr == "sum":
                return [(st, BoundFn("ts_sum", "sum", recv=obj))]
            if isinstance(obj, (FrameTS, FrameRef)) and attr == "pow":
                return [(st, BoundFn("ts_pow", "pow", recv=obj))]
            if isinstance(obj, SeriesTS) and attr == "copy":
                return [(st, BoundFn("ts_copy", "copy", recv=obj))]
            if isinstance(obj, (FrameTS, FrameRef)) and attr == "div":
                return [(st, BoundFn("ts_div", "div", recv=obj))]
            if isinstance(obj, (FrameTS, FrameRef)) and attr == "fillna":
                return [(st, BoundFn("ts_fillna", "fillna", recv=obj))]
            if isinstance(obj, FrameRef) and attr == "columns":
                return [(st, ("columns", obj))]
            if isinstance(obj, ModV) and obj.name in ("pd", "pandas") and attr == "DataFrame":
                return [(st, BoundFn("pd_DataFrame", "DataFrame"))]
            return base.load_attr(self, st, obj, attr)

        def stmt_AugAssign(self, node, st):
            # pandas' augmented operators work in place: `x op= y` on a history series or on the cached report frame rewrites it for every later reader
            if isinstance(node.target, ast.Name):
                cur = st.locals.get(node.target.id)
                if getattr(cur, "shared", False):
                    st.ghost["modified_in_place"] = "%s (%s) at line %s" % (node.target.id, cur.desc, getattr(node, "lineno", "?"))
            elif isinstance(node.target, ast.Subscript) and isinstance(node.target.value, ast.Name):
                # d[k] op= y  is  d[k].__iop__(y): in place on whatever object was stored under k - a node's own history if it was stored without .copy()
                cur = st.locals.get(node.target.value.id)
                if isinstance(cur, FrameRef) and st.ghost.get("holds_shared:" + cur.key):
                    st.ghost["modified_in_place"] = "%s[...] (%s) at line %s" % (node.target.value.id, st.ghost["holds_shared:" + cur.key], getattr(node, "lineno", "?"))
            return base.stmt_AugAssign(self, node, st)

        def _frame_of(self, st, v):
            if isinstance(v, FrameRef):
                has, cell = st.ghost[v.key]
                return FrameTS(has, cell, v.key)
            return v

        def call_value(self, st, f, pos, kw):
            if isinstance(f, BoundFn) and f.kind == "ts_copy":
                return [(st, SeriesTS(f.recv.val, f.recv.desc + ".copy()"))]
            if isinstance(f, BoundFn) and f.kind == "pd_DataFrame":
                if not pos and not kw:
                    key = dsl.fresh_name("frame")
                    st.ghost[key] = (lambda l: z3.BoolVal(False), lambda l, t: Num.lift(0.0))
                    return [(st, FrameRef(key, "frame"))]
                if len(pos) == 1 and not kw and isinstance(pos[0], (FrameTS, FrameRef)):
                    fr = self._frame_of(st, pos[0])
                    return [(st, FrameTS(fr.has, fr.cell, "DataFrame(%s)" % fr.desc))]
            if isinstance(f, BoundFn) and f.kind == "ts_div":
                fr = self._frame_of(st, f.recv)
                s = pos[0]
                if isinstance(s, SeriesTS) and (kw.get("axis") is not None and self._num(st, kw["axis"]).r is not None):
                    return [(st, FrameTS(fr.has, lambda l, t, fr=fr, s=s: fr.cell(l, t) / s.val(t), fr.desc + ".div(series)"))]
            if isinstance(f, BoundFn) and f.kind == "ts_sum":
                fr = self._frame_of(st, f.recv)
                ax = kw.get("axis", pos[0] if pos else None)
                axc = _const_of(self._num(st, ax)) if ax is not None and ax is not NONEV else 0      # pandas: DataFrame.sum() defaults to axis=0
                if axc is None:
                    self._undecided("DataFrame.sum along an axis that is not a literal")
                return [(st, RowSumTS(fr, axc == 1, fr.desc + ".sum(axis=%s)" % axc))]
            if isinstance(f, BoundFn) and f.kind == "ts_pow" and len(pos) == 1:
                return self.ext_binop(ast.Pow(), f.recv, pos[0], st)
            if isinstance(f, BoundFn) and f.kind == "ts_fillna":
                fr = self._frame_of(st, f.recv)
                return [(st, FrameTS(fr.has, fr.cell, fr.desc + ".fillna()"))]   # cells are reals here: nothing to fill
            return base.call_value(self, st, f, pos, kw)

        def ext_dict_literal(self, e, st):
            key = dsl.fresh_name("seriesdict")
            st.ghost[key] = (lambda l: z3.BoolVal(False), lambda l, t: Num.lift(0.0))
            return [(st, FrameRef(key, "dict"))]

        def ext_in(self, a, b, st):
            if isinstance(a, StrV) and isinstance(b, FrameRef) and b.kind == "dict":
                return st.ghost[b.key][0](a.term)
            if isinstance(a, StrV) and isinstance(b, tuple) and len(b) == 2 and b[0] == "columns":
                return st.ghost[b[1].key][0](a.term)
            return base.ext_in(self, a, b, st)

        def ext_load_subscript(self, st, b, i):
            if isinstance(b, FrameRef) and isinstance(i, StrV):
                has, cell = st.ghost[b.key]
                lab = i.term
                return [(st, SeriesTS(lambda t, cell=cell, lab=lab: cell(lab, t), "column"))]
            return base.ext_load_subscript(self, st, b, i)

        def ext_store_subscript(self, st, b, i, v):
            if isinstance(b, FrameRef) and isinstance(i, StrV) and isinstance(v, SeriesTS):
                if getattr(v, "shared", False):
                    st.ghost["holds_shared:" + b.key] = v.desc
                has, cell = st.ghost[b.key]
                lab = i.term
                st.ghost[b.key] = (lambda l, has=has, lab=lab: Or(has(l), l == lab),
                                   lambda l, t, cell=cell, lab=lab, v=v: ite(l == lab, v.val(t), cell(l, t)))
                return [st]
            return base.ext_store_subscript(self, st, b, i, v)

        def ext_binop(self, op, a, b, st):
            if isinstance(a, SeriesTS) and isinstance(b, SeriesTS) and isinstance(op, ast.Add):
                return [(st, SeriesTS(lambda t, a=a, b=b: a.val(t) + b.val(t), "sum of series"))]
            if isinstance(a, (FrameTS, FrameRef)) and isinstance(op, ast.Pow) and not isinstance(b, (FrameTS, FrameRef, SeriesTS)):
                fr = self._frame_of(st, a)
                e = self._num(st, b)
                ec = _const_of(e)
                if ec == 2:
                    cell = lambda l, t, fr=fr: fr.cell(l, t) * fr.cell(l, t)
                else:   # any other exponent: an uninterpreted power (nothing is known about it but that it is a function)
                    cell = lambda l, t, fr=fr, e=e: Num(pow_f(fr.cell(l, t).r, z3.ToReal(e.r) if e.r.sort() == I else e.r), False, False)
                return [(st, FrameTS(fr.has, cell, "(%s ** %s)" % (fr.desc, ec)))]
            if isinstance(a, (FrameTS, FrameRef)) and isinstance(b, (FrameTS, FrameRef)) and isinstance(op, (ast.Mult, ast.Add, ast.Sub)):
                fa, fb = self._frame_of(st, a), self._frame_of(st, b)   # pandas aligns on the union of the columns; a column missing on one side gives NaN cells - only frames with the same columns are followed
                fn = {ast.Mult: lambda x, y: x * y, ast.Add: lambda x, y: x + y, ast.Sub: lambda x, y: x - y}[type(op)]
                st.oblige("%s/cellwise-arithmetic-on-frames-with-the-same-columns" % self.cur_func[-1], ForallInt_cols_same(fa, fb), kind="side")
                return [(st, FrameTS(fa.has, lambda l, t, fa=fa, fb=fb, fn=fn: fn(fa.cell(l, t), fb.cell(l, t)), "cellwise"))]
            return base.ext_binop(self, op, a, b, st)

        def expr_DictComp(self, e, st):
            # {key(x): series(x) for x in <members>}: one entry per member, keyed by an injective label (full names are unique, T)
            g = e.generators[0] if len(e.generators) == 1 else None
            if g is not None and isinstance(g.target, ast.Name) and not g.ifs:
                its = self.eval(g.iter, st)
                if len(its) == 1 and isinstance(its[0][1], MembersV) and not its[0][1].only_sec:
                    s, mv = its[0]
                    J = z3.Int(dsl.fresh_name("j_any"))
                    s2 = s.fork()
                    gen = RefV(mem_at(mv.root.term, J), "Node")
                    s2.locals[g.target.id] = gen
                    ks, vs = self.eval(e.key, s2), self.eval(e.value, s2)
                    if len(ks) == 1 and len(vs) == 1 and isinstance(ks[0][1], StrV) and isinstance(vs[0][1], SeriesTS):
                        kterm, vser = ks[0][1].term, vs[0][1]
                        root = mv.root.term
                        n = nmem_f(root)
                        if not z3.eq(kterm, fullname_f(gen.term)):
                            self._undecided("dict comprehension over members keyed by something other than full_name")
                        idx = lambda l: byfull_idx(root, l)
                        has = lambda l: And(idx(l) >= 0, idx(l) < n, fullname_f(mem_at(root, idx(l))) == l)
                        cell = lambda l, t, vser=vser, J=J: Num(z3.substitute(vser.val(t).r, (J, idx(l))), False, False)
                        s.ghost["members_frame_root"] = mv.root
                        return [(s, FrameTS(has, cell, "{full_name: series for members}"))]
            return base.expr_DictComp(self, e, st)

        def iter_adapter(self, it, st):
            if isinstance(it, MembersV):
                root = it.root
                n = Num((nsec_f if it.only_sec else nmem_f)(root.term), False, True)

                def elem(s, i, root=root, only=it.only_sec):
                    m = RefV((sec_at if only else mem_at)(root.term, Num.lift(i).r), "SecurityBase" if only else "Node")
                    s.assume(And(m.term != dsl.NONE, cls_in(self.schema, m.term, SEC_CLASSES if only else SEC_CLASSES + STRAT_CLASSES), s.heap.get(m, "_issec") == cls_in(self.schema, m.term, SEC_CLASSES)))
                    return m

                st.ghost["members_iter"] = it
                return n, elem, root
            return base.iter_adapter(self, it, st)

        def store_attr(self, st, obj, attr, v):
            if attr in ("_weights", "_sweights", "_positions") and isinstance(v, (FrameTS, FrameRef)):
                st.ghost["attr:" + attr] = v
                return
            return base.store_attr(self, st, obj, attr, v)

    t = ReportExecutor.__new__(ReportExecutor)
    t.__dict__.update(ex.__dict__)
    return t


# ------------------------------------------------------------------ the accumulation loops (security_weights, positions, outlays)
def _acc_inv_factory(frame_local, kind_of):
    def inv(ctx):
        st, E = ctx.cur, ctx.entry.heap
        L0, t0 = ctx.entry.ghost["L0"], ctx.entry.ghost["t0"]
        it = ctx.entry.ghost.get("members_iter") or st.ghost.get("members_iter")
        if it is None:
            raise Undecided("the aggregation loop does not range over strategy.members / .securities: outside the report model")
        root = it.root
        ref = ctx.entry.locals[frame_local]
        kind = kind_of(ctx)
        S_ = st.ghost.get("acc_sum")
        if S_ is None:
            def term(h, j, root=root, kind=kind, only=it.only_sec):
                m = (sec_at if only else mem_at)(root.term, Num.lift(j).r)
                hit = And(cls_in(E.schema, m, SEC_CLASSES), E.ensure("name").select(m) == L0)
                # the NaN channel of the sum carries 'some security of that name seen so far'
                return Num(z3.If(hit, ts_f[kind](m, t0), 0), hit, False)

            S_ = NanSum("acc", term)
            st.ghost["acc_sum"] = S_
        if ctx.phase == "init":
            ctx.facts.append(S_.zero(st))
        elif ctx.phase == "head":
            S_.new_version(st)
            # the frame at an arbitrary iteration: unknown except at the skolem (label, date) the invariant speaks about
            hh = z3.Function(dsl.fresh_name("has_at_head"), S, z3.BoolSort())
            cc = z3.Function(dsl.fresh_name("cell_at_head"), S, I, R)
            st.ghost[ref.key] = (lambda l: hh(l), lambda l, t: Num(cc(l, t), False, False))
        else:
            ctx.facts.append(S_.unfold(st, ctx.i - 1))
        has, cell = st.ghost[ref.key]
        acc = S_.value(st, ctx.i)
        anyhit = acc.nan if acc.nan is not False else z3.BoolVal(False)
        return [("column-exists-iff-a-security-of-that-name-was-seen", _zb(has(L0)) == anyhit),
                ("nothing-accumulated-before-the-first-such-security", Implies(Not(anyhit), acc.r == 0)),
                ("column-holds-the-sum-over-the-securities-of-that-name-seen-so-far", Implies(anyhit, cell(L0, t0).r == acc.r))]

    return inv


def _sw_kind(ctx):
    return ctx.entry.ghost["kind"]


LOOPS = {
    ("bt.backtest.Backtest.security_weights", 0): LoopSpec(_acc_inv_factory("vals", _sw_kind), name="aggregate same-named securities"),
    ("bt.core.StrategyBase.positions", 0): LoopSpec(_acc_inv_factory("vals", lambda ctx: "position"), name="aggregate positions per ticker"),
    ("bt.core.StrategyBase.outlays", 0): LoopSpec(_acc_inv_factory("outlays", lambda ctx: "outlay"), name="aggregate outlays per ticker"),
}


def verify_report(ex, contract, timeout_ms=30000, variant="mv"):
    from pyvc.verify import FuncReport, discharge, entry_state

    q = contract.qualname
    short = q.split(".", 2)[-1]
    fr = FuncReport(q)
    name = "%s[%s]" % (short, variant) if "Backtest" in q else short
    try:
        fi = ex.prog.func(q)
        fr.source_hash = fi.source_hash()
        rx = _report_executor(ex)
        st0, self, args = entry_state(rx, contract)
        E = st0.heap
        on_backtest = self.cls == "Backtest"
        strat = E.get(self, "strategy") if on_backtest else self
        rt = E.get(strat, "root")
        st0.assume(And(self.term != dsl.NONE, strat.term != dsl.NONE, rt.term != dsl.NONE, nmem_f(strat.term) >= 1, mem_at(strat.term, 0) == strat.term))
        if on_backtest:
            st0.assume(Not(E.get(rt, "stale")))   # the member accessors used by these two reports refresh by themselves (C08); modelled as plain histories here
        if on_backtest:
            fi_flag = variant == "fi"
            st0.assume(E.get(strat, "_fixed_income") == fi_flag)
            # first read: nothing cached yet
            for fld in ("_weights", "_sweights"):
                if rx.schema.type_of(fld):
                    v = E.get(self, fld)
                    if hasattr(v, "isnone"):
                        st0.assume(v.isnone)
        kind = {"bt.backtest.Backtest.weights": "notional" if variant == "fi" else "value", "bt.backtest.Backtest.security_weights": "notional" if variant == "fi" else "value",
                "bt.core.StrategyBase.positions": "position", "bt.core.StrategyBase.outlays": "outlay"}[q]
        L0, t0 = fresh_label("L0"), z3.Int(dsl.fresh_name("t0"))
        st0.ghost.update(L0=L0, t0=t0, kind=kind)
        E = st0.heap.copy()
        tstart = time.time()
        exits = rx.run_function(fi, st0.fork(), self, [])
        fr.symexec_s = time.time() - tstart
        fr.paths = len(exits)
        obligs = []
        n_norm = 0
        root_series = lambda t: Num(ts_f[kind](strat.term, t), False, False)
        for (st, oc) in exits:
            k_ = oc.kind if oc.kind != "raise" else "raise:" + oc.exc
            fr.exits[k_] = fr.exits.get(k_, 0) + 1
            obligs.extend(st.obligs)
            if oc.kind == "raise":
                continue
            n_norm += 1
            Rv = oc.value if oc.kind == "return" else None
            if isinstance(Rv, FrameRef):
                has, cell = st.ghost[Rv.key]
                Rv = FrameTS(has, cell, Rv.key)

            def ob(cid, goal):
                obligs.append(Oblig("%s/%s" % (name, cid), st.pc, goal, "post", P18))

            ob("returns-a-frame-the-model-follows", isinstance(Rv, FrameTS))
            if not on_backtest:
                calls = [c for c in st.log if len(c) == 4]
                was_stale = E.get(rt, "stale")
                first_is_refresh = len(calls) >= 1 and And(calls[0][0].endswith(".update"), calls[0][1].term == rt.term, value_same(calls[0][2][0], E.get(rt, "now")))
                ob("a-stale-tree-is-refreshed-before-the-histories-are-read", Implies(was_stale, first_is_refresh))
                ob("a-fresh-tree-is-left-alone", Implies(Not(was_stale), len(calls) == 0))
            if not isinstance(Rv, FrameTS):
                continue
            if q.endswith(".weights"):
                j = z3.Int(dsl.fresh_name("jm"))
                m = mem_at(strat.term, j)
                n = nmem_f(strat.term)
                inj = And(byfull_idx(strat.term, fullname_f(m)) == j)   # T: full names identify members
                lab = fullname_f(m)
                ob("every-member-has-a-column-under-its-full-name", Implies(And(j >= 0, j < n, inj), Rv.has(lab)))
                ob("the-column-is-the-member's-values-over-the-root's-values", Implies(And(j >= 0, j < n, inj), Rv.cell(lab, t0).r == (Num(ts_f[kind](m, t0), False, False) / root_series(t0)).r))
                ob("no-column-that-is-not-a-member's-full-name", Implies(Rv.has(L0), And(byfull_idx(strat.term, L0) >= 0, byfull_idx(strat.term, L0) < n, fullname_f(mem_at(strat.term, byfull_idx(strat.term, L0))) == L0)))
            else:
                S_ = st.ghost.get("acc_sum")
                ob("aggregation-loop-reached", S_ is not None)
                if S_ is None:
                    continue
                tot = S_.value(st, Num((nsec_f if q.endswith(".outlays") else nmem_f)(strat.term), False, True))
                anyhit = tot.nan if tot.nan is not False else z3.BoolVal(False)
                ob("a-ticker-has-a-column-iff-some-security-member-bears-that-name", _zb(Rv.has(L0)) == anyhit)
                if q.endswith(".security_weights"):
                    ob("the-column-is-the-summed-value-of-the-same-named-securities-over-the-root's-value", Implies(anyhit, Rv.cell(L0, t0).r == (Num(tot.r, False, False) / root_series(t0)).r))
                else:
                    ob("the-column-is-the-sum-over-the-same-named-securities", Implies(anyhit, Rv.cell(L0, t0).r == tot.r))
            if on_backtest:
                cached = st.ghost.get("attr:_weights" if q.endswith(".weights") else "attr:_sweights")
                ob("the-result-is-what-gets-cached", cached is oc.value or (isinstance(cached, FrameTS) and cached is Rv))
        if n_norm == 0:
            obligs.append(Oblig("%s/has-a-normal-exit" % name, [], False, "post", P18))
        s = z3.Solver()
        for p in st0.pc:
            s.add(p)
        fr.canary = str(s.check())
        discharge(obligs, timeout_ms, fr, q)
        fr.stats = dict(feas_queries=rx.stats.feas_queries, feas_s=round(rx.stats.feas_time, 3), inlined=sorted(rx.stats.inlined), contracts_used=sorted(rx.stats.contracts_used))
    except Undecided as e:
        fr.undecided = str(e)
    except Exception as e:
        fr.undecided = "ENGINE-ERROR: %s\n%s" % (e, traceback.format_exc())
    return fr


def verify_hhi(ex, contract, timeout_ms=30000, variant=None):
    """Backtest.herfindahl_index: the row sum, over exactly the columns of self.security_weights, of the squared weights.
    The callee is used by its contract (the frame security_weights returns: sw_has / sw_cell); the sum over the columns is a structured value
    (RowSumTS) and the obligation is pointwise on its summand at a skolem column and date - two sums over the same columns with equal summands are equal."""
    from pyvc.verify import FuncReport, discharge, entry_state

    q = contract.qualname
    fr = FuncReport(q)
    name = "herfindahl_index"
    try:
        fi = ex.prog.func(q)
        fr.source_hash = fi.source_hash()
        rx = _report_executor(ex)
        st0, self, args = entry_state(rx, contract)
        L0, t0 = fresh_label("L0"), z3.Int(dsl.fresh_name("t0"))
        tstart = time.time()
        exits = rx.run_function(fi, st0.fork(), self, [])
        fr.symexec_s = time.time() - tstart
        fr.paths = len(exits)
        obligs = []
        n_norm = 0
        for (st, oc) in exits:
            k_ = oc.kind if oc.kind != "raise" else "raise:" + oc.exc
            fr.exits[k_] = fr.exits.get(k_, 0) + 1
            obligs.extend(st.obligs)

            def ob(cid, goal):
                obligs.append(Oblig("%s/%s" % (name, cid), st.pc, goal, "post", P18))

            ob("does-not-raise", oc.kind != "raise")
            if oc.kind == "raise":
                continue
            n_norm += 1
            Rv = oc.value if oc.kind == "return" else None
            ob("the-cached-security-weights-are-not-modified-in-place", st.ghost.get("modified_in_place") is None)
            ob("returns-a-sum-over-the-columns-of-a-frame", isinstance(Rv, RowSumTS))
            if not isinstance(Rv, RowSumTS):
                continue
            ob("one-number-per-date:-the-sum-runs-along-each-row", bool(Rv.axis_is_rows))
            ob("summed-over-exactly-the-columns-of-the-security-weights", _zb(Rv.frame.has(L0)) == sw_has(self.term, L0))
            w = sw_cell(self.term, L0, t0)
            ob("each-summand-is-the-squared-security-weight", Implies(sw_has(self.term, L0), Rv.frame.cell(L0, t0).r == w * w))
            ob("the-security-weights-come-from-the-report-under-contract", "bt.backtest.Backtest.security_weights" in rx.stats.contracts_used)
        if n_norm == 0:
            obligs.append(Oblig("%s/has-a-normal-exit" % name, [], False, "post", P18))
        s = z3.Solver()
        for p in st0.pc:
            s.add(p)
        fr.canary = str(s.check())
        discharge(obligs, timeout_ms, fr, q)
        fr.stats = dict(feas_queries=rx.stats.feas_queries, feas_s=round(rx.stats.feas_time, 3), inlined=sorted(rx.stats.inlined), contracts_used=sorted(rx.stats.contracts_used))
    except Undecided as e:
        fr.undecided = str(e)
    except Exception as e:
        fr.undecided = "ENGINE-ERROR: %s\n%s" % (e, traceback.format_exc())
    return fr


def contracts():
    out = [(RelationalContract("bt.backtest.Backtest.herfindahl_index", [], None, self_cls="Backtest",
                               note="result(t) == sum over the columns l of security_weights of security_weights[l][t] ** 2 (contracts/reports.py: verify_hhi)"), verify_hhi)]
    for q, cls in (("bt.backtest.Backtest.weights", "Backtest"), ("bt.backtest.Backtest.security_weights", "Backtest"), ("bt.core.StrategyBase.positions", "StrategyBase"), ("bt.core.StrategyBase.outlays", "StrategyBase")):
        out.append((RelationalContract(q, [], None, self_cls=cls, note="report == documented function of the node histories (contracts/reports.py)"), verify_report))
    return out
