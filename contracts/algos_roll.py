"""
RollPositionsAfterDates.__call__ under contract (property C20).

The roll table is a frame keyed by security name with columns date / target / factor (uninterpreted per label).  perm['rolled'] is the
ghost label set SelectActive's contract reads.  `transactions` is the body's own name -> quantity dict.

Proved on the real body, at skolem labels x (a security name) and y (a roll target):
  * x is recorded as rolled afterwards iff it was recorded before or is due (a security child with a roll entry, not recorded before, whose
    date is <= now); every due security receives exactly one close(name, update=False)  (loop 1, per-iteration trace clause);
  * after loop 1 the pending transactions hold, for y, the sum over the due securities whose target is y of factor x position (position as at
    entry: closing one child does not touch another, frame obligation), and y has an entry iff there is such a security  (ghost sum, loop invariant);
  * loop 2 issues exactly one target.transact(quantity, y, update=False) per entry, with the accumulated quantity; then one root.update(now); True.
"once" is the rolled-set clause together with the filter `not in perm['rolled']` (a recorded security is never due again).
"""
import ast
import time
import traceback

import z3

from pyvc import dsl
from pyvc.dsl import Num, And, Or, Not, Implies, ite
from pyvc.heap import RefV, StrV, OpaqueV, TupleV, map_same
from pyvc.state import Oblig, Undecided
from pyvc.contracts import RelationalContract, LoopSpec, value_same
from pyvc.symexec import NONEV, BoundFn, _Raised
from pyvc.ext_frames import LabelSet, ListLV, IndexLV, lst_mem, lst_ord, fresh_label, S, DictObjV, dict_has, dict_get
from pyvc.ext_algos import TempV
from .tree import cls_in, SEC_CLASSES, slot_f, cidx_f
from .core_strat import update_modkeys
from .algos_close import _close_executor
from .algos_risk import NanSum

P20 = ("C20",)
Q = "bt.algos.RollPositionsAfterDates.__call__"
I = z3.IntSort()
R = z3.RealSort()
rt_has = z3.Function("roll_table_has", dsl.Ref, S, z3.BoolSort())
rt_ord = z3.Function("roll_table_pos", dsl.Ref, S, I)
rt_date = z3.Function("roll_date", dsl.Ref, S, I)
rt_factor = z3.Function("roll_factor", dsl.Ref, S, R)
rt_target = z3.Function("roll_target", dsl.Ref, S, S)


def _zb(f):
    return z3.BoolVal(f) if isinstance(f, bool) else f


class RollRows(object):
    """roll_data.loc[names].iterrows(): (name, row) pairs over an enumerated label list"""

    def __init__(self, tok, ls, n, at, pos):
        self.tok, self.ls, self.n, self.at, self.pos = tok, ls, n, at, pos


class RollRow(object):
    def __init__(self, tok, label):
        self.tok, self.label = tok, label


def _roll_executor(ex):
    cx = _close_executor(ex)
    base = type(cx)

    class RollExecutor(base):
        def load_attr(self, st, obj, attr):
            if type(obj).__name__ == "AuxFrameV" and attr == "index":
                tok = obj.token
                st.ghost["roll_tok"] = tok
                return [(st, IndexLV(LabelSet(lambda x: rt_has(tok, x), lambda x: rt_ord(tok, x), "roll_data.index")))]
            if type(obj).__name__ == "AuxFrameV" and attr == "loc":
                return [(st, ("rollloc", obj.token))]
            if isinstance(obj, tuple) and len(obj) == 3 and obj[0] == "rollsel" and attr == "iterrows":
                return [(st, BoundFn("roll_iterrows", "iterrows", recv=obj))]
            return base.load_attr(self, st, obj, attr)

        def ext_load_subscript(self, st, b, i):
            if isinstance(b, tuple) and len(b) == 2 and b[0] == "rollloc" and isinstance(i, (ListLV, IndexLV)):
                return [(st, ("rollsel", b[1], i.ls))]
            if isinstance(b, RollRow) and isinstance(i, str):
                if i == "date":
                    return [(st, Num(rt_date(b.tok, b.label), False, True))]
                if i == "factor":
                    return [(st, Num(rt_factor(b.tok, b.label), False, False))]
                if i == "target":
                    return [(st, StrV(rt_target(b.tok, b.label)))]
            if isinstance(b, RefV) and isinstance(i, StrV) and self.prog.is_subclass(b.cls, "StrategyBase"):
                # Node.__getitem__: self.children[key]; the callers here index with names drawn from the security children
                c = st.heap.dict_at(b, "children", i, "Node")
                return [(st, RefV(c.term, "SecurityBase"))]
            return base.ext_load_subscript(self, st, b, i)

        def call_value(self, st, f, pos, kw):
            if isinstance(f, BoundFn) and f.kind == "roll_iterrows":
                _, tok, ls = f.recv
                n = Num(z3.Int(dsl.fresh_name("n_cand")), False, True)
                at = z3.Function(dsl.fresh_name("cand_at"), I, S)
                pf = z3.Function(dsl.fresh_name("cand_pos"), S, I)
                st.assume(n.r >= 0)
                sch = lambda x, ls=ls, n=n, at=at, pf=pf: Implies(ls.mem(x), And(pf(x) >= 0, pf(x) < n.r, at(pf(x)) == x))
                st.ghost["label_schemas"] = st.ghost.get("label_schemas", []) + [sch]
                for k in ("x0",):
                    if k in st.ghost:
                        st.assume(_zb(sch(st.ghost[k])))
                return [(st, RollRows(tok, ls, n, at, pf))]
            return base.call_value(self, st, f, pos, kw)

        def iter_adapter(self, it, st):
            if isinstance(it, RollRows):
                def elem(s, i, it=it):
                    x = it.at(Num.lift(i).r)
                    s.assume(And(_zb(it.ls.mem(x)), it.pos(x) == Num.lift(i).r))
                    return TupleV([StrV(x), RollRow(it.tok, x)])

                st.ghost["roll_iter"] = it
                return it.n, elem, None
            return base.iter_adapter(self, it, st)

    t = RollExecutor.__new__(RollExecutor)
    t.__dict__.update(cx.__dict__)
    return t


def _child_of(E, target, label):
    return E.dict_at(target, "children", StrV(label), "Node")


def _due(E, target, it, x):
    return And(_zb(it.ls.mem(x)), rt_date(it.tok, x) <= E.get(target, "now").r)


def _inv1(ctx):
    st, E = ctx.cur, ctx.entry.heap
    target = ctx.entry.locals["target"]
    x0, y0 = ctx.entry.ghost["x0"], ctx.entry.ghost["y0"]
    it = ctx.entry.ghost.get("roll_iter") or st.ghost.get("roll_iter")
    if it is None:
        raise Undecided("loop 1 does not iterate roll_data.loc[names].iterrows()")
    if "temp:perm:rolled" not in ctx.entry.ghost:
        ctx.ex.temp_value(ctx.entry, TempV(target, "perm"), "rolled")
    R0 = ctx.entry.ghost["temp:perm:rolled"].ls
    if "temp:perm:rolled" not in st.ghost:
        st.ghost["temp:perm:rolled"] = ctx.entry.ghost["temp:perm:rolled"]
    tdict = ctx.entry.locals["transactions"]
    S_ = st.ghost.get("roll_sum")
    if S_ is None:
        def term(h, j, it=it):
            x = it.at(Num.lift(j).r)
            hit = And(rt_date(it.tok, x) <= E.get(target, "now").r, rt_target(it.tok, x) == y0)
            q = Num(rt_factor(it.tok, x), False, False) * E.get(_child_of(E, target, x), "_position")
            return Num(z3.If(hit, q.r, 0), hit, False)   # NaN channel = 'some due security rolls into y0'

        S_ = NanSum("roll", term)
        st.ghost["roll_sum"] = S_
    if ctx.phase == "init":
        ctx.facts.append(S_.zero(st))
    elif ctx.phase == "head":
        S_.new_version(st)
        cm = z3.Function(dsl.fresh_name("rolled_at_head"), S, z3.BoolSort())
        v = ListLV(LabelSet(lambda x: cm(x), R0.ord, "perm['rolled']@head"))
        v._origin = ("temp:perm:rolled",)
        st.ghost["temp:perm:rolled"] = v
    else:
        ctx.facts.append(S_.unfold(st, ctx.i - 1))
    cur = st.ghost["temp:perm:rolled"].ls
    i = ctx.i
    acc = S_.value(st, i)
    anyhit = acc.nan if acc.nan is not False else z3.BoolVal(False)
    out = [
        ("rolled-set-is-entry-set-plus-the-due-securities-processed-so-far", _zb(cur.mem(x0)) == Or(_zb(R0.mem(x0)), And(_due(E, target, it, x0), it.pos(x0) < i.r))),
        ("a-target-has-a-pending-entry-iff-a-due-security-rolls-into-it", dict_has(st.heap, tdict.ref, y0) == anyhit),
        ("nothing-pending-before-the-first-such-security", Implies(Not(anyhit), acc.r == 0)),
        ("pending-quantity-is-the-sum-of-factor-x-position-of-the-due-securities-rolling-into-it", Implies(anyhit, dict_get(st.heap, tdict.ref, y0).r == acc.r)),
    ]
    if ctx.phase == "step":
        new = [c for c in st.log[len(ctx.head.log):] if len(c) == 4 and c[0].endswith(".close")]
        elem = it.at((i - 1).r)
        isdue = rt_date(it.tok, elem) <= E.get(target, "now").r
        out.append(("a-due-security-is-closed-exactly-once-and-others-not-at-all", _zb(isdue) == (len(new) == 1) if len(new) <= 1 else False))
        for c in new:
            out.append(("that-call-is-close(name, update=False)-on-the-strategy", And(c[1].term == target.term, c[2][0].term == elem, c[2][1] is False)))
    return out


def _havoc1(ctx):
    target = ctx.entry.locals["target"]
    E = ctx.entry.heap
    rt = E.get(target, "root")
    it = ctx.entry.ghost.get("roll_iter")

    def done_for(key):
        base_key = key.split("#")[0]

        def done(i):
            i = Num.lift(i)

            def cond(x):
                k = slot_f(target.term, x)
                nm = E.ensure("name").select(E.list_at(target, "_childrenv", Num(k, False, True)).term)
                sub = And(k >= 0, _zb(it.ls.mem(nm)), it.pos(nm) < i.r)   # subtrees of the children processed so far
                if base_key == "stale":
                    return x == rt.term
                if base_key in ("_capital", "_last_fee"):
                    return Or(x == target.term, sub)                       # close() books the proceeds on the strategy itself
                return sub

            return cond

        return done

    keys = list(update_modkeys()) + ["stale"]
    for k in keys:
        E.ensure(k)
    tdict = ctx.entry.locals["transactions"]
    for k in ("dct#has", "dct#val", "dct#valnan"):
        E.ensure(k)
    own = lambda i: (lambda x: x == tdict.ref)   # the body's own pending-transactions dict
    return [(k, done_for(k)) for k in keys] + [(k, own) for k in ("dct#has", "dct#val", "dct#valnan")]


def _on_iter1(ctx, c):
    from .core_ops import named_child_facts

    st = ctx.cur
    target = ctx.entry.locals["target"]
    E = ctx.entry.heap
    name = c.items[0]
    st.assume(_zb(named_child_facts(E, target, name)))
    ch = E.dict_at(target, "children", name, "Node")
    # T: the child registered under a name sits in the child list at its own index and bears that name
    st.assume(And(E.list_at(target, "_childrenv", Num(cidx_f(ch.term), False, True)).term == ch.term, E.get(ch, "name").term == name.term, Not(dsl.isnan(E.get(ch, "_position")))))


def _inv2(ctx):
    st = ctx.cur
    target = ctx.entry.locals["target"]
    out = []
    if ctx.phase == "step":
        new = [c for c in st.log[len(ctx.head.log):] if len(c) == 4]
        out.append(("exactly-one-call-per-pending-entry", len(new) == 1))
        key = st.locals.get("new_sec")
        qty = st.locals.get("quantity")
        for c in new:
            out.append(("that-call-is-transact(quantity, target-name, update=False)-on-the-strategy",
                        And(c[0].endswith("StrategyBase.transact"), c[1].term == target.term, value_same(c[2][0], qty), getattr(c[2][1], "term", None) is not None and c[2][1].term == key.term, c[2][2] is False)))
    return out


def _havoc2(ctx):
    target = ctx.entry.locals["target"]
    E = ctx.entry.heap
    rt = E.get(target, "root")
    from .tree import treeof_f

    keys = list(update_modkeys()) + ["stale", "children", "children#has", "_childrenv", "_childrenv#len"]
    for k in keys:
        E.ensure(k)
    parent = E.get(target, "parent")
    return [(k, (lambda i: (lambda x: Or(treeof_f(x) == rt.term, slot_f(parent.term, x) == cidx_f(target.term), x == parent.term, x == target.term)))) for k in keys]


LOOPS = {(Q, 1): LoopSpec(_inv1, havoc_heap=_havoc1, on_iter=_on_iter1, name="close every due security, collect what rolls where"),
         (Q, 2): LoopSpec(_inv2, havoc_heap=_havoc2, name="one transaction per roll target")}


def verify_roll(ex, contract, timeout_ms=30000):
    from pyvc.verify import FuncReport, discharge, entry_state
    from .tree import self_facts

    fr = FuncReport(contract.qualname)
    name = "RollPositionsAfterDates.__call__"
    try:
        fi = ex.prog.func(contract.qualname)
        fr.source_hash = fi.source_hash()
        rx = _roll_executor(ex)
        st0, self, args = entry_state(rx, contract)
        target = args[0]
        E = st0.heap
        rt = E.get(target, "root")
        st0.assume(And(target.term != dsl.NONE, target.term != self.term, rt.term != dsl.NONE))
        for f in self_facts(E, target):
            st0.assume(_zb(f))
        x0, y0 = fresh_label("x0"), fresh_label("y0")
        st0.ghost.update(x0=x0, y0=y0)
        E = st0.heap.copy()
        had = E.ensure_ghost_bool("tmp#has:perm:rolled").select(target.term)
        tokr = rx._lst_token(target, "perm_rolled")
        R_entry = lambda x: And(had, lst_mem(tokr, x))
        t0 = time.time()
        exits = rx.run_function(fi, st0.fork(), self, [target])
        fr.symexec_s = time.time() - t0
        fr.paths = len(exits)
        obligs = []
        n_norm = 0
        for (st, oc) in exits:
            kind = oc.kind if oc.kind != "raise" else "raise:" + oc.exc
            fr.exits[kind] = fr.exits.get(kind, 0) + 1
            obligs.extend(st.obligs)
            if oc.kind == "raise":
                continue
            n_norm += 1
            hyps = [f(x0) for f in st.ghost.get("label_schemas", [])]
            pc = list(st.pc) + [_zb(h) for h in hyps]

            def ob(cid, goal):
                obligs.append(Oblig("%s/%s" % (name, cid), pc, goal, "post", P20))

            ob("returns-True", oc.kind == "return" and oc.value is True)
            cur = st.ghost.get("temp:perm:rolled")
            it = st.ghost.get("roll_iter")
            ob("keeps-a-rolled-set-and-walks-the-roll-table", isinstance(cur, ListLV) and it is not None)
            if isinstance(cur, ListLV) and it is not None:
                kid = E.dict_at(target, "children", StrV(x0), "Node")
                now = E.get(target, "now")
                due = And(E.dict_has(target, "children", StrV(x0)), cls_in(rx.schema, kid.term, SEC_CLASSES), rt_has(it.tok, x0), Not(R_entry(x0)), rt_date(it.tok, x0) <= now.r)
                ob("recorded-as-rolled-iff-recorded-before-or-due-now", _zb(cur.ls.mem(x0)) == Or(R_entry(x0), due))
            calls = [c for c in st.log if len(c) == 4 and not c[0].endswith(".get_data")]
            ob("ends-with-one-root-update-at-the-current-date-and-no-other-call-outside-the-loops", len(calls) == 1 and And(calls[-1][0].endswith(".update"), calls[-1][1].term == rt.term, value_same(calls[-1][2][0], calls[-1][3].get(target, "now"))))
        if n_norm == 0:
            obligs.append(Oblig("%s/has-a-normal-exit" % name, [], False, "post", P20))
        s = z3.Solver()
        for p in st0.pc:
            s.add(p)
        fr.canary = str(s.check())
        discharge(obligs, timeout_ms, fr, contract.qualname)
        fr.stats = dict(feas_queries=rx.stats.feas_queries, feas_s=round(rx.stats.feas_time, 3), inlined=sorted(rx.stats.inlined), contracts_used=sorted(rx.stats.contracts_used))
    except Undecided as e:
        fr.undecided = str(e)
    except Exception as e:
        fr.undecided = "ENGINE-ERROR: %s\n%s" % (e, traceback.format_exc())
    return fr


def contracts():
    return [(RelationalContract(Q, [("target", "ref:StrategyBase")], None, self_cls="RollPositionsAfterDates", note="see contracts/algos_roll.py"), verify_roll)]
