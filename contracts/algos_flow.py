"""
Contracts for property C13: AlgoStack.__call__ (both execution modes), Or, Not, Strategy.run.

User algos are opaque: calling algo a on a target returns the uninterpreted Bool  algo_returns(a)
(its value in this run) and is recorded in ghost state:  g_calls[a] += 1, g_clock[target] += 1,
g_stamp[a] = g_clock[target]  -- so "which algos were invoked, how often and in what order" are
heap facts the loop invariants can carry for stacks of any length.
"""
import time
import traceback

import z3

from pyvc import dsl
from pyvc.dsl import Num, And, Or, Not, Implies, ite
from pyvc.heap import RefV, HMap, map_same
from pyvc.state import SpecState, Oblig, Undecided
from pyvc.contracts import RelationalContract, FunctionalContract, LoopSpec, ForallInt, value_same
from pyvc.ext_algos import algoret_f
from pyvc.symexec import NONEV, _Raised

aidx_f = z3.Function("aidx", dsl.Ref, dsl.Ref, z3.IntSort())
P13 = ("C13",)


def _zb(f):
    return z3.BoolVal(f) if isinstance(f, bool) else f


def _tb(x):
    """truthiness of a local holding a bool or an opaque algo result"""
    from pyvc.symexec import PyObjV

    if isinstance(x, PyObjV):
        return x.truthy
    return z3.BoolVal(x) if isinstance(x, bool) else x


def spec_call_algo(S, algo, target):
    """ghost effect of invoking an opaque algo once"""
    clk = S.get(target, "g_clock") + 1
    S.set(target, "g_clock", clk)
    S.set(algo, "g_calls", S.get(algo, "g_calls") + 1)
    S.set(algo, "g_stamp", clk)
    return algoret_f(algo.term)


def on_opaque_call(ex, st, obj, pos, r):
    """executor hook: an opaque algo is being called with (target,)"""
    target = pos[0]
    S = SpecState(st.heap)
    spec_call_algo(S, obj, target)
    return [(st, r)]


def algos_at(heap, stack, j, field="algos"):
    return heap.list_at(stack, field, j, "Algo")


def stack_facts(heap, stack, target, j, field="algos"):
    a = algos_at(heap, stack, j, field)
    return [a.term != dsl.NONE, a.term != stack.term, a.term != target.term, aidx_f(stack.term, a.term) == Num.lift(j).r]


def stack_schema(heap, stack, target, field="algos"):
    n = heap.list_len(stack, field)
    return ForallInt(0, n, lambda j: And(*stack_facts(heap, stack, target, j, field)), name="ja")


def always(heap, a):
    return And(heap.get(a, "has_run_always"), heap.get(a, "run_always"))


# ------------------------------------------------------------------------------------- loop specs
def _frame_cond(self_term, kids, field_owner=None):
    def condfn(i):
        i = Num.lift(i)
        return lambda x: And(aidx_f(self_term, x) >= 0, aidx_f(self_term, x) < i.r, z3.Select(kids, aidx_f(self_term, x)) == x)

    return condfn


def _mk_havoc(field):
    def hv(ctx):
        self = ctx.entry.locals["self"]
        target = ctx.entry.locals["target"]
        kids = ctx.entry.heap.ensure(field).select(self.term)
        cf = _frame_cond(self.term, kids)
        tcond = lambda i: (lambda x: x == target.term)
        return [("g_calls", cf), ("g_stamp", cf), ("g_clock", tcond)]

    return hv


def _on_iter(field):
    def f(ctx, c):
        st = ctx.cur
        self = st.locals["self"]
        target = st.locals["target"]
        for x in stack_facts(ctx.entry.heap, self, target, ctx.i, field):
            st.assume(_zb(x))

    return f


def _mode1_inv(ctx):
    st, E = ctx.cur, ctx.entry.heap
    self, target = ctx.entry.locals["self"], ctx.entry.locals["target"]
    h = st.heap
    i = ctx.i
    clk0 = E.get(target, "g_clock")
    return [
        ("all-so-far-returned-true", ForallInt(0, i, lambda j: algoret_f(algos_at(E, self, j).term), name="j1")),
        ("clock-advanced-by-i", h.get(target, "g_clock").eq(clk0 + i)),
        ("each-called-once-in-order", ForallInt(0, i, lambda j: And(h.get(algos_at(E, self, j), "g_calls").eq(E.get(algos_at(E, self, j), "g_calls") + 1), h.get(algos_at(E, self, j), "g_stamp").eq(clk0 + j + 1)), name="j2")),
    ]


MODE1 = LoopSpec(_mode1_inv, havoc_heap=_mk_havoc("algos"), on_iter=_on_iter("algos"), elem_cls="Algo", name="stack without run_always algos", lacks=["run_always"])


def _ff(ctx):
    """ghost witness: index of the first failing algo (meaningful when res is False)"""
    st = ctx.cur
    if ctx.phase == "init":
        return Num.lift(0)
    if ctx.phase == "head":
        ff = st.ghost.get("ff")
        if ff is None:
            ff = dsl.fresh_int("ff")
            st.ghost["ff"] = ff
        return ff
    # step: head witness, head res, result of the algo just processed
    ffh = ctx.head.ghost["ff"]
    resh = ctx.head.locals["res"]
    ih = ctx.i - 1
    self = ctx.entry.locals["self"]
    ri = algoret_f(algos_at(ctx.entry.heap, self, ih).term)
    resh = _tb(resh)
    return ite(And(resh, Not(ri)), ih, ffh)


def _mode2_inv(ctx):
    st, E = ctx.cur, ctx.entry.heap
    self, target = ctx.entry.locals["self"], ctx.entry.locals["target"]
    h = st.heap
    i = ctx.i
    res = _tb(st.locals["res"])
    ff = _ff(ctx)
    a = lambda j: algos_at(E, self, j)
    called = lambda j: Or(res, Num.lift(j) <= ff, always(E, a(j)))
    return [
        ("res-true-iff-no-failure-so-far", Implies(res, ForallInt(0, i, lambda j: algoret_f(a(j).term), name="j1")) if False else ForallInt(0, i, lambda j: Implies(res, algoret_f(a(j).term)), name="j1")),
        ("res-false-has-first-failure", Implies(Not(res), And(ff >= 0, ff < i, Not(algoret_f(a(ff).term))))),
        ("prefix-before-first-failure-true", ForallInt(0, i, lambda j: Implies(And(Not(res), Num.lift(j) < ff), algoret_f(a(j).term)), name="j3")),
        ("called-exactly-prefix-and-run-always", ForallInt(0, i, lambda j: h.get(a(j), "g_calls").eq(E.get(a(j), "g_calls") + ite(called(j), 1, 0)), name="j2")),
    ]


MODE2 = LoopSpec(_mode2_inv, havoc_heap=_mk_havoc("algos"), on_iter=_on_iter("algos"), elem_cls="Algo", name="stack with run_always algos", mentions=["run_always"])


def _w(ctx):
    """ghost witness for Or: index of some algo that returned True (meaningful when res is True)"""
    st = ctx.cur
    if ctx.phase == "init":
        return Num.lift(0)
    if ctx.phase == "head":
        w = st.ghost.get("w")
        if w is None:
            w = dsl.fresh_int("w")
            st.ghost["w"] = w
        return w
    wh = ctx.head.ghost["w"]
    resh = _tb(ctx.head.locals["res"])
    ih = ctx.i - 1
    return ite(resh, wh, ih)


def _or_inv(ctx):
    st, E = ctx.cur, ctx.entry.heap
    self, target = ctx.entry.locals["self"], ctx.entry.locals["target"]
    h = st.heap
    i = ctx.i
    res = _tb(st.locals["res"])
    w = _w(ctx)
    a = lambda j: algos_at(E, self, j, "_list_of_algos")
    clk0 = E.get(target, "g_clock")
    return [
        ("res-true-has-witness", Implies(res, And(w >= 0, w < i, algoret_f(a(w).term)))),
        ("res-false-all-false", ForallInt(0, i, lambda j: Implies(Not(res), Not(algoret_f(a(j).term))), name="j1")),
        ("every-branch-called-once-in-order", ForallInt(0, i, lambda j: And(h.get(a(j), "g_calls").eq(E.get(a(j), "g_calls") + 1), h.get(a(j), "g_stamp").eq(clk0 + j + 1)), name="j2")),
        ("clock-advanced-by-i", h.get(target, "g_clock").eq(clk0 + i)),
    ]


ORLOOP = LoopSpec(_or_inv, havoc_heap=_mk_havoc("_list_of_algos"), on_iter=_on_iter("_list_of_algos"), elem_cls="Algo", name="Or branches")


# ------------------------------------------------------------------------------------- verification drivers
def _entry(ex, contract, field):
    from pyvc.verify import entry_state

    st0, self, args = entry_state(ex, contract)
    target = args[0]
    st0.assume(target.term != dsl.NONE)
    st0.assume(target.term != self.term)
    E = st0.heap.copy()
    st0.ghost["schemas"] = [stack_schema(E, self, target, field)]
    return st0, self, target, E


def verify_algostack(ex, contract, timeout_ms=30000):
    from pyvc.verify import FuncReport, discharge

    fr = FuncReport(contract.qualname)
    try:
        fi = ex.prog.func(contract.qualname)
        fr.source_hash = fi.source_hash()
        st0, self, target, E = _entry(ex, contract, "algos")
        ex.on_opaque_call = lambda st, obj, pos, r: on_opaque_call(ex, st, obj, pos, r)
        t0 = time.time()
        exits = ex.run_function(fi, st0.fork(), self, [target])
        fr.symexec_s = time.time() - t0
        fr.paths = len(exits)
        n = E.list_len(self, "algos")
        a = lambda j: algos_at(E, self, j)
        clk0 = E.get(target, "g_clock")
        mode2 = E.get(self, "check_run_always")
        obligs = []
        for xi, (st, oc) in enumerate(exits):
            kind = oc.kind if oc.kind != "raise" else "raise:" + oc.exc
            fr.exits[kind] = fr.exits.get(kind, 0) + 1
            obligs.extend(st.obligs)
            if oc.kind != "return":
                if not (oc.kind == "raise" and oc.exc == "<cut>"):
                    obligs.append(Oblig("AlgoStack.__call__/no-other-exit", st.pc, False, "post", P13))
                continue
            F = st.heap
            res = _tb(oc.value)

            def ob(cid, goal):
                o = Oblig("AlgoStack.__call__/%s" % cid, st.pc, goal, "post", P13)
                o.schemas = list(st.ghost.get("schemas", []))
                obligs.append(o)

            # first failure index on this exit
            in_loop = "i_fail" in st.ghost
            # (A) result: True iff every algo (would) return True, i.e. False iff some called algo failed
            ob("result-true-implies-all-true", ForallInt(0, n, lambda j, res=res: Implies(res, algoret_f(a(j).term)), name="jr"))
            # witness of failure: mode 1 returns inside the loop at the failing algo; mode 2 carries ff
            cands = []
            if st.ghost.get("ff") is not None:
                cands.append(st.ghost["ff"])
            cur = st.locals.get("algo")
            if isinstance(cur, RefV):
                cands.append(Num(aidx_f(self.term, cur.term), False, True))
            wit = Or(*[And(c >= 0, c < n, Not(algoret_f(a(c).term)), ForallInt(0, 0, lambda j: True).inst(0) if False else True) for c in cands]) if cands else False
            ob("result-false-has-failing-algo", Implies(Not(res), wit))
            # (B) which algos were invoked: exactly the prefix up to the first failure, plus run_always ones after it
            for c in cands or [Num.lift(0)]:
                pass
            ffx = cands[0] if cands else Num.lift(0)
            if len(cands) == 2:
                ffx = ite(mode2, cands[0], cands[1])
            called = lambda j, res=res, ffx=ffx: Or(res, Num.lift(j) <= ffx, And(mode2, always(E, a(j))))
            ob("invoked-exactly-prefix-plus-run-always", ForallInt(0, n, lambda j, F=F, called=called: F.get(a(j), "g_calls").eq(E.get(a(j), "g_calls") + ite(called(j), 1, 0)), name="jc"))
            ob("first-failure-is-first", ForallInt(0, n, lambda j, res=res, ffx=ffx: Implies(And(Not(res), Num.lift(j) < ffx), algoret_f(a(j).term)), name="jp"))
            # order (mode without run_always): the j-th algo is the j-th call
            ob("invoked-in-stack-order", ForallInt(0, n, lambda j, F=F, called=called: Implies(And(Not(mode2), called(j)), F.get(a(j), "g_stamp").eq(clk0 + j + 1)), name="jo"))
            # nothing else is touched: no other object's call count changes
            x = z3.Const(dsl.fresh_name("xfr"), dsl.Ref)
            inlist = And(aidx_f(self.term, x) >= 0, aidx_f(self.term, x) < n.r, z3.Select(E.ensure("algos").select(self.term), aidx_f(self.term, x)) == x)
            obligs.append(Oblig("AlgoStack.__call__/frame:g_calls", st.pc, Implies(Not(inlist), F.ensure("g_calls").select(x) == E.ensure("g_calls").select(x)), "post", P13))
        s = z3.Solver()
        for p in st0.pc:
            s.add(p)
        fr.canary = str(s.check())
        discharge(obligs, timeout_ms, fr, contract.qualname)
        fr.stats = dict(feas_queries=ex.stats.feas_queries, feas_s=round(ex.stats.feas_time, 3), inlined=sorted(ex.stats.inlined), contracts_used=sorted(ex.stats.contracts_used))
    except Undecided as e:
        fr.undecided = str(e)
    except Exception as e:
        fr.undecided = "ENGINE-ERROR: %s\n%s" % (e, traceback.format_exc())
    return fr


def verify_or(ex, contract, timeout_ms=30000):
    from pyvc.verify import FuncReport, discharge

    fr = FuncReport(contract.qualname)
    try:
        fi = ex.prog.func(contract.qualname)
        fr.source_hash = fi.source_hash()
        st0, self, target, E = _entry(ex, contract, "_list_of_algos")
        ex.on_opaque_call = lambda st, obj, pos, r: on_opaque_call(ex, st, obj, pos, r)
        t0 = time.time()
        exits = ex.run_function(fi, st0.fork(), self, [target])
        fr.symexec_s = time.time() - t0
        fr.paths = len(exits)
        n = E.list_len(self, "_list_of_algos")
        a = lambda j: algos_at(E, self, j, "_list_of_algos")
        clk0 = E.get(target, "g_clock")
        obligs = []
        for xi, (st, oc) in enumerate(exits):
            kind = oc.kind if oc.kind != "raise" else "raise:" + oc.exc
            fr.exits[kind] = fr.exits.get(kind, 0) + 1
            obligs.extend(st.obligs)
            if oc.kind != "return":
                if not (oc.kind == "raise" and oc.exc == "<cut>"):
                    obligs.append(Oblig("Or.__call__/no-other-exit", st.pc, False, "post", P13))
                continue
            F = st.heap
            res = _tb(oc.value)
            w = st.ghost.get("w", Num.lift(0))

            def ob(cid, goal):
                o = Oblig("Or.__call__/%s" % cid, st.pc, goal, "post", P13)
                o.schemas = list(st.ghost.get("schemas", []))
                obligs.append(o)

            ob("true-has-succeeding-branch", Implies(res, And(w >= 0, w < n, algoret_f(a(w).term))))
            ob("false-means-all-failed", ForallInt(0, n, lambda j, res=res: Implies(Not(res), Not(algoret_f(a(j).term))), name="jr"))
            ob("every-branch-invoked-once-in-order", ForallInt(0, n, lambda j, F=F: And(F.get(a(j), "g_calls").eq(E.get(a(j), "g_calls") + 1), F.get(a(j), "g_stamp").eq(clk0 + j + 1)), name="jc"))
        s = z3.Solver()
        for p in st0.pc:
            s.add(p)
        fr.canary = str(s.check())
        discharge(obligs, timeout_ms, fr, contract.qualname)
        fr.stats = dict(feas_queries=ex.stats.feas_queries, feas_s=round(ex.stats.feas_time, 3), inlined=sorted(ex.stats.inlined), contracts_used=sorted(ex.stats.contracts_used))
    except Undecided as e:
        fr.undecided = str(e)
    except Exception as e:
        fr.undecided = "ENGINE-ERROR: %s\n%s" % (e, traceback.format_exc())
    return fr


# ------------------------------------------------------------------------------------- Not (functional)
def spec_not(S, self, target):
    algo = S.get(self, "_algo")
    r = spec_call_algo(S, algo, target)
    return Not(r)  # `not x` is the negated truthiness of whatever the algo returns


def _apply_stack(ex, st, recv, args, exact=False):
    raise Undecided("AlgoStack.__call__ used modularly: not needed yet")


# ------------------------------------------------------------------------------------- Require
req_has = z3.Function("temp_has_required_item", dsl.Ref, dsl.Ref, z3.BoolSort())      # (target, algo): algo.item in target.temp
req_none = z3.Function("required_item_is_None", dsl.Ref, dsl.Ref, z3.BoolSort())      # target.temp[algo.item] is None
req_truthy = z3.Function("required_item_is_truthy", dsl.Ref, dsl.Ref, z3.BoolSort())   # truthiness of the entry itself
req_pred = z3.Function("pred_truthy_on_item", dsl.Ref, dsl.Ref, z3.BoolSort())        # truthiness of algo.pred(target.temp[algo.item])
req_pred_f = z3.Function("pred_isFalse_on_item", dsl.Ref, dsl.Ref, z3.BoolSort())
req_pred_t = z3.Function("pred_isTrue_on_item", dsl.Ref, dsl.Ref, z3.BoolSort())


def verify_require(ex, contract, timeout_ms=30000):
    """Require.__call__: the predicate's own result on the temp entry; if_none when the entry is absent or None. The key, the entry and the
    predicate are opaque (uninterpreted per (target, algo)); every invocation of the predicate is counted."""
    from pyvc.verify import FuncReport, discharge, entry_state
    from pyvc.heap import OpaqueV
    from pyvc.symexec import PyObjV, BoundFn
    from pyvc.ext_algos import TempV

    fr = FuncReport(contract.qualname)
    name = "Require.__call__"
    try:
        fi = ex.prog.func(contract.qualname)
        fr.source_hash = fi.source_hash()
        base = type(ex)

        class ItemV(object):
            def __init__(self, target, algo):
                self.target, self.algo = target, algo

        class RequireExecutor(base):
            def ext_in(self, a, b, st):
                if isinstance(a, OpaqueV) and a.field == "item" and isinstance(b, TempV) and b.which == "temp":
                    return req_has(b.owner.term, a.owner.term)
                return base.ext_in(self, a, b, st)

            def ext_load_subscript(self, st, b, i):
                if isinstance(b, TempV) and b.which == "temp" and isinstance(i, OpaqueV) and i.field == "item":
                    return [(st, ItemV(b.owner, i.owner))]
                return base.ext_load_subscript(self, st, b, i)

            def load_attr(self, st, obj, attr):
                if isinstance(obj, TempV) and obj.which == "temp" and attr == "get":
                    return [(st, BoundFn("req_tempget", "get", recv=obj))]
                return base.load_attr(self, st, obj, attr)

            def truth(self, st, v):
                if isinstance(v, ItemV):
                    # truthiness of temp.get(item): absent / None are falsy, a present entry has its own (uninterpreted) truthiness
                    return And(req_has(v.target.term, v.algo.term), Not(req_none(v.target.term, v.algo.term)), req_truthy(v.target.term, v.algo.term)) if getattr(v, "optional", False) else req_truthy(v.target.term, v.algo.term)
                return base.truth(self, st, v)

            def _is(self, a, b, st):
                if isinstance(b, ItemV):
                    a, b = b, a
                if isinstance(a, ItemV) and b is NONEV:
                    if getattr(a, "optional", False):   # temp.get(item) is None: absent, or present and None
                        return Or(Not(req_has(a.target.term, a.algo.term)), req_none(a.target.term, a.algo.term))
                    return req_none(a.target.term, a.algo.term)
                return base._is(self, a, b, st)

            def call_value(self, st, f, pos, kw):
                if isinstance(f, BoundFn) and f.kind == "req_tempget" and len(pos) == 1 and isinstance(pos[0], OpaqueV) and pos[0].field == "item":
                    v = ItemV(f.recv.owner, pos[0].owner)
                    v.optional = True
                    return [(st, v)]
                if isinstance(f, OpaqueV) and f.field == "pred" and len(pos) == 1 and isinstance(pos[0], ItemV):
                    st.ghost["pred_calls"] = st.ghost.get("pred_calls", 0) + 1
                    t, a = pos[0].target.term, f.owner.term
                    o = PyObjV(req_pred(t, a), req_pred_f(t, a), req_pred_t(t, a))
                    st.assume(And(Implies(o.isfalse, Not(o.truthy)), Implies(o.istrue, o.truthy)))
                    return [(st, o)]
                return base.call_value(self, st, f, pos, kw)

        rx = RequireExecutor.__new__(RequireExecutor)
        rx.__dict__.update(ex.__dict__)
        st0, self, args = entry_state(rx, contract)
        target = args[0]
        st0.assume(And(target.term != dsl.NONE, target.term != self.term))
        E = st0.heap.copy()
        exits = rx.run_function(fi, st0.fork(), self, [target])
        fr.paths = len(exits)
        obligs = []
        has, none = req_has(target.term, self.term), req_none(target.term, self.term)
        ifn = E.get(self, "if_none")
        for (st, oc) in exits:
            kind = oc.kind if oc.kind != "raise" else "raise:" + oc.exc
            fr.exits[kind] = fr.exits.get(kind, 0) + 1
            obligs.extend(st.obligs)
            if oc.kind != "return":
                obligs.append(Oblig("%s/always-returns" % name, st.pc, False, "post", P13))
                continue
            v = oc.value
            calls = st.ghost.get("pred_calls", 0)
            usepred = And(has, Not(none))
            obligs.append(Oblig("%s/predicate-applied-exactly-when-the-entry-is-present-and-not-None" % name, st.pc, _zb(usepred) == (calls == 1) if calls <= 1 else False, "post", P13))
            if isinstance(v, PyObjV):
                obligs.append(Oblig("%s/result-is-the-predicate's-own-result-on-the-entry" % name, st.pc, And(usepred, v.truthy == req_pred(target.term, self.term), v.isfalse == req_pred_f(target.term, self.term), v.istrue == req_pred_t(target.term, self.term)), "post", P13))
            else:
                vb = v if not isinstance(v, bool) else z3.BoolVal(v)
                obligs.append(Oblig("%s/default-when-absent-or-None" % name, st.pc, And(Not(usepred), vb == ifn), "post", P13))
            x = z3.Const(dsl.fresh_name("xfr"), dsl.Ref)
            for key in sorted(st.heap.maps.keys()):
                a, b = st.heap.maps[key], E.ensure(key)
                from pyvc.heap import map_same

                if not map_same(a, b):
                    obligs.append(Oblig("%s/writes-nothing:%s" % (name, key), st.pc, a.select(x) == b.select(x), "post", P13))
        s = z3.Solver()
        for p in st0.pc:
            s.add(p)
        fr.canary = str(s.check())
        discharge(obligs, timeout_ms, fr, contract.qualname)
        fr.stats = dict(feas_queries=rx.stats.feas_queries, feas_s=round(rx.stats.feas_time, 3), inlined=sorted(rx.stats.inlined), contracts_used=sorted(rx.stats.contracts_used))
    except Undecided as e:
        fr.undecided = str(e)
    except Exception as e:
        fr.undecided = "ENGINE-ERROR: %s\n%s" % (e, traceback.format_exc())
    return fr


# ------------------------------------------------------------------------------------- RunIfOutOfBounds
Q_OOB = "bt.algos.RunIfOutOfBounds.__call__"


def _oob_dev(heap, target, tdict, j):
    """relative deviation of child j from its target (children loop of the real body): |(weight - t) / t|"""
    from pyvc.ext_frames import dict_has, dict_get
    from pyvc.dsl import absv

    c = heap.list_at(target, "_childrenv", j)
    nm = heap.get(c, "name")
    t = dict_get(heap, tdict, nm.term)
    return dict_has(heap, tdict, nm.term), absv((heap.get(c, "_weight") - t) / t)


def _oob_inv(ctx):
    """the tree may be stale at entry: the first weight read refreshes it (whole tree rewritten once), later reads find it fresh.
    (a) while still stale no child so far was named in the targets (no read happened);  (b) once fresh, no child so far deviates - measured on
    the current (refreshed) weights."""
    st, E = ctx.cur, ctx.entry.heap
    target = ctx.entry.locals["target"]
    self = ctx.entry.locals["self"]
    tdict = ctx.entry.locals["targets"].ref
    tol = E.get(self, "tolerance")
    rt = E.get(target, "root")
    stale_now = st.heap.get(rt, "stale")
    h = st.heap
    from pyvc.ext_frames import dict_has

    def named(j):
        c = E.list_at(target, "_childrenv", j)
        return dict_has(E, tdict, E.get(c, "name").term)

    def quiet(j):
        has, dev = _oob_dev2(E, h, target, tdict, j)
        return Implies(has, Not(dev > tol))

    return [("while-stale-no-weight-was-read", ForallInt(0, ctx.i, lambda j: Implies(stale_now, Not(named(j))), name="jr")),
            ("once-fresh-no-child-so-far-deviates", ForallInt(0, ctx.i, lambda j: Implies(Not(stale_now), quiet(j)), name="jq")),
            ("a-fresh-tree-is-not-rewritten", Implies(Not(E.get(rt, "stale")), Not(stale_now)))]


def _oob_dev2(E, h, target, tdict, j):
    """deviation of child j measured on heap h (structure and targets from E)"""
    from pyvc.ext_frames import dict_has, dict_get
    from pyvc.dsl import absv

    c = E.list_at(target, "_childrenv", j)
    nm = E.get(c, "name")
    t = dict_get(E, tdict, nm.term)
    return dict_has(E, tdict, nm.term), absv((h.get(c, "_weight") - t) / t)


def _oob_havoc(ctx):
    target = ctx.entry.locals["target"]
    E = ctx.entry.heap
    rt = E.get(target, "root")
    from .core_strat import update_modkeys

    keys = list(update_modkeys()) + ["stale"]
    for k in keys:
        E.ensure(k)
    # a refresh (root.update through the weight accessor) may happen in any iteration while the tree is still stale
    return [(k, (lambda i: (lambda x: And(E.get(rt, "stale"), treeof_f(x) == rt.term)))) for k in keys]


def _oob_on_iter(ctx, c):
    st = ctx.cur
    target = ctx.entry.locals["target"]
    E = ctx.entry.heap
    from .tree import child_facts as _cf

    for f in _cf(E, target, ctx.i):
        st.assume(_zb(f))
    # the name -> child dict and the child list agree (T)
    cc = E.list_at(target, "_childrenv", ctx.i)
    nm = E.get(cc, "name")
    st.assume(And(E.dict_has(target, "children", nm), E.dict_at(target, "children", nm).term == cc.term))
    # precondition from the property's quantifier (valid weights): the target of a held child is not zero
    tdict = ctx.entry.locals["targets"].ref
    from pyvc.ext_frames import dict_has, dict_get

    st.assume(_zb(Implies(dict_has(E, tdict, nm.term), And(dict_get(E, tdict, nm.term).ne(0), Not(dsl.isnan(dict_get(E, tdict, nm.term)))))))


OOBLOOP = LoopSpec(_oob_inv, havoc_heap=_oob_havoc, on_iter=_oob_on_iter, name="children against their targets")


def verify_out_of_bounds(ex, contract, timeout_ms=30000):
    """RunIfOutOfBounds.__call__ on a fresh tree: True exactly when some child named in temp['weights'] deviates from its target by more than
    the tolerance (relative deviation), True when there are no target weights; never raises - refuted only inside the recorded region
    'cash' in temp (the cash branch reads targets.value, which neither a dict nor a Series has)."""
    from pyvc.verify import FuncReport, discharge, entry_state
    from pyvc.ext_frames import DictObjV
    from pyvc.ext_algos import TempV

    fr = FuncReport(contract.qualname)
    name = "RunIfOutOfBounds.__call__"
    try:
        fi = ex.prog.func(contract.qualname)
        fr.source_hash = fi.source_hash()
        base = type(ex)

        class OobExecutor(base):
            def load_attr(self, st, obj, attr):
                if isinstance(obj, DictObjV) and attr == "value":
                    return [(st, _Raised("AttributeError"))]   # neither dict nor Series has .value
                return base.load_attr(self, st, obj, attr)

        rx = OobExecutor.__new__(OobExecutor)
        rx.__dict__.update(ex.__dict__)
        st0, self, args = entry_state(rx, contract)
        target = args[0]
        E = st0.heap
        rt = E.get(target, "root")
        st0.assume(And(target.term != dsl.NONE, target.term != self.term, rt.term != dsl.NONE, Not(dsl.isnan(E.get(self, "tolerance")))))
        for f in self_facts_light(E, target):
            st0.assume(_zb(f))
        E = st0.heap.copy()
        has_w = E.ensure_ghost_bool("tmp#has:temp:weights").select(target.term)
        has_cash = E.ensure_ghost_bool("tmp#has:temp:cash").select(target.term)
        st0.ghost["schemas"] = [children_schema(E, target)]
        exits = rx.run_function(fi, st0.fork(), self, [target])
        fr.paths = len(exits)
        obligs = []
        tol = E.get(self, "tolerance")
        n = E.list_len(target, "_childrenv")
        for (st, oc) in exits:
            kind = oc.kind if oc.kind != "raise" else "raise:" + oc.exc
            fr.exits[kind] = fr.exits.get(kind, 0) + 1
            obligs.extend(st.obligs)
            if oc.kind == "raise":
                if oc.exc in ("<cut>", "Exception"):
                    continue   # "Exception": the refresh of a stale tree (root.update) may raise on its own account (its contract), not this algo
                o = Oblig("%s/never-raises" % name, st.pc, False, "post", P13)
                o.regions = [("C13-out-of-bounds-cash-branch-reads-targets.value", has_cash)]
                obligs.append(o)
                continue
            if oc.kind != "return":
                obligs.append(Oblig("%s/always-returns" % name, st.pc, False, "post", P13))
                continue
            v = oc.value
            vb = v if not isinstance(v, bool) else z3.BoolVal(v)
            tv = st.locals.get("targets")
            if not isinstance(tv, DictObjV):
                obligs.append(Oblig("%s/true-without-target-weights" % name, st.pc, And(Not(has_w), vb), "post", P13))
                continue
            tdict = tv.ref
            inloop = "c" in st.locals and "deviation" in st.locals and v is True
            if inloop:
                # early return from the children loop: the current child is a held target beyond the tolerance
                c = st.locals["c"]
                nm = st.heap.get(c, "name")
                from pyvc.ext_frames import dict_has, dict_get
                from pyvc.dsl import absv

                t = dict_get(E, tdict, nm.term)
                obligs.append(Oblig("%s/true-only-for-a-held-target-beyond-the-tolerance-on-refreshed-weights" % name, st.pc,
                                    And(dict_has(E, tdict, nm.term), E.get(c, "parent").term == target.term, absv((st.heap.get(c, "_weight") - t) / t) > tol, Not(st.heap.get(rt, "stale"))), "post", P13))
            else:
                def quiet(j, F=st.heap):
                    has, dev = _oob_dev2(E, F, target, tdict, j)
                    return Implies(has, And(Not(dev > tol), Not(F.get(rt, "stale"))))

                o = Oblig("%s/false-only-when-no-held-target-deviates-on-refreshed-weights" % name, st.pc, And(Not(vb), ForallInt(0, n, quiet, name="jq")) if False else ForallInt(0, n, quiet, name="jq"), "post", P13)
                o.schemas = list(st.ghost.get("schemas", []))
                obligs.append(o)
                obligs.append(Oblig("%s/after-a-quiet-loop-the-answer-is-False" % name, st.pc, Not(vb), "post", P13))
            x = z3.Const(dsl.fresh_name("xfr"), dsl.Ref)
            for key in sorted(st.heap.maps.keys()):
                a, b = st.heap.maps[key], E.ensure(key)
                if not map_same(a, b):
                    obligs.append(Oblig("%s/a-fresh-tree-is-not-written:%s" % (name, key), st.pc, Implies(Not(E.get(rt, "stale")), a.select(x) == b.select(x)), "post", P13))
        s = z3.Solver()
        for p in st0.pc:
            s.add(p)
        fr.canary = str(s.check())
        discharge(obligs, timeout_ms, fr, contract.qualname)
        fr.stats = dict(feas_queries=rx.stats.feas_queries, feas_s=round(rx.stats.feas_time, 3), inlined=sorted(rx.stats.inlined), contracts_used=sorted(rx.stats.contracts_used))
    except Undecided as e:
        fr.undecided = str(e)
    except Exception as e:
        fr.undecided = "ENGINE-ERROR: %s\n%s" % (e, traceback.format_exc())
    return fr


def self_facts_light(heap, s):
    from .tree import self_facts

    return self_facts(heap, s)


def contracts():
    T = [("target", "ref:StrategyBase")]
    return [
        (RelationalContract(Q_OOB, T, None, self_cls="RunIfOutOfBounds", note="True iff some held target deviates by more than the tolerance (fresh tree)"), verify_out_of_bounds),
        (RelationalContract("bt.algos.Require.__call__", T, None, self_cls="Require", note="pred(temp[item]) when the entry is present and not None, if_none otherwise"), verify_require),
        (RelationalContract("bt.core.AlgoStack.__call__", T, apply_stack_call, self_cls="AlgoStack", note="result == AND of algo results; invoked == prefix up to first failure + run_always algos; each once, in order"), verify_algostack),
        (RelationalContract("bt.algos.Or.__call__", T, _apply_stack, self_cls="Or", note="result == OR of branch results; every branch invoked exactly once, in order"), verify_or),
        (FunctionalContract("bt.algos.Not.__call__", T, spec_not, self_cls="Not", field_props={"*": P13, "result": P13}), None),
        (RelationalContract("bt.core.Strategy.run", [], apply_run, self_cls="Strategy", note="temp cleared, own stack invoked once before the children, every child run exactly once"), verify_strategy_run),
    ]


LOOPS = {
    ("bt.core.AlgoStack.__call__", 0): MODE1,
    ("bt.core.AlgoStack.__call__", 1): MODE2,
    ("bt.algos.Or.__call__", 0): ORLOOP,
    (Q_OOB, 0): OOBLOOP,
}


# ------------------------------------------------------------------------------------- Strategy.run
from .tree import slot_f, cidx_f, treeof_f, child_facts, children_schema  # noqa: E402


def tree_keys():
    """heap maps that describe nodes of a strategy tree (what user algos running on a tree may change)"""
    from .core_strat import update_modkeys

    return list(update_modkeys()) + ["stale", "_childrenv", "_childrenv#len", "children", "children#has", "temp#has", "perm_ver", "g_clock", "g_runs", "_universe_tickers"]


def _havoc_tree(st, root_term, keep=("g_calls", "g_stamp")):
    """anything inside the tree rooted at root_term may change (user algos trade, add lazy children, write temp)"""
    h = st.heap
    for key in tree_keys():
        if key.split("#")[0] in keep or key == "_universe_tickers":
            continue
        if key not in h.maps:
            try:
                h.ensure(key)
            except Exception:
                continue
        h.havoc(key, cond=lambda x: treeof_f(x) == root_term)


def apply_stack_call(ex, st, recv, args, exact=False):
    """AlgoStack.__call__ used from Strategy.run: ghost-count the invocation, snapshot the caller's state"""
    target = args[0]
    h = st.heap
    st.ghost["at_stack_call"] = h.copy()
    clk = h.get(target, "g_clock") + 1
    rt = h.get(target, "root")
    for k in ("_childrenv", "_childrenv#len", "temp#has", "perm_ver", "g_clock", "g_runs"):
        h.ensure(k)
    _havoc_tree(st, rt.term)
    h.set(target, "g_clock", clk)
    h.set(recv, "g_calls", h.get(recv, "g_calls") + 1)
    h.set(recv, "g_stamp", clk)
    st.ghost["after_stack_call"] = h.copy()
    return [(st, dsl.fresh_bool("stack_result"))]


def apply_run(ex, st, recv, args, exact=False):
    """Strategy.run on a child strategy (recursive use): its subtree may change"""
    h = st.heap
    parent = h.get(recv, "parent")
    k = cidx_f(recv.term)
    isroot = parent.term == recv.term
    for key in tree_keys():
        if key in ("g_runs", "_universe_tickers"):
            continue
        if key not in h.maps:
            try:
                h.ensure(key)
            except Exception:
                continue
        h.havoc(key, cond=lambda x: z3.If(isroot, treeof_f(x) == recv.term, slot_f(parent.term, x) == k))
    s2 = st.fork()
    s2.assume(dsl.fresh_bool("run_raises"))
    return [(s2, _Raised("Exception")), (st, NONEV)]


def _run_inv(ctx):
    st = ctx.cur
    self = ctx.entry.locals["self"]
    E = ctx.entry.heap  # heap after the stack ran
    h = st.heap
    c = lambda j: E.list_at(self, "_childrenv", j)
    return [("each-child-run-once", ForallInt(0, ctx.i, lambda j: h.get(c(j), "g_runs").eq(E.get(c(j), "g_runs") + 1), name="jr"))]


def _run_havoc(ctx):
    self = ctx.entry.locals["self"]

    def condfn(i):
        i = Num.lift(i)
        return lambda x: And(slot_f(self.term, x) >= 0, slot_f(self.term, x) < i.r)

    keys = [k for k in ctx.entry.heap.maps.keys() if k.split("#")[0] not in ("g_calls", "g_stamp")]
    return [(k, condfn) for k in keys]


def _run_on_iter(ctx, c):
    st = ctx.cur
    self = st.locals["self"]
    for f in child_facts(ctx.entry.heap, self, ctx.i):
        st.assume(_zb(f))


RUNLOOP = LoopSpec(_run_inv, havoc_heap=_run_havoc, on_iter=_run_on_iter, name="run children")


def verify_strategy_run(ex, contract, timeout_ms=30000):
    from pyvc.verify import FuncReport, discharge, entry_state

    fr = FuncReport(contract.qualname)
    try:
        fi = ex.prog.func(contract.qualname)
        fr.source_hash = fi.source_hash()
        st0, self, args = entry_state(ex, contract)
        E = st0.heap.copy()
        for k in ("temp#has", "perm_ver", "g_runs", "g_calls", "g_clock", "g_stamp", "_childrenv", "_childrenv#len", "parent", "root", "_issec"):
            st0.heap.ensure(k)
        E = st0.heap.copy()
        stack = E.get(self, "stack")
        rt = E.get(self, "root")
        st0.assume(And(stack.term != dsl.NONE, treeof_f(stack.term) != rt.term, treeof_f(self.term) == rt.term, slot_f(self.term, self.term) == -1))
        ex.count_calls = {"run": "g_runs"}
        t0 = time.time()
        exits = ex.run_function(fi, st0.fork(), self, [])
        fr.symexec_s = time.time() - t0
        fr.paths = len(exits)
        obligs = []
        for xi, (st, oc) in enumerate(exits):
            kind = oc.kind if oc.kind != "raise" else "raise:" + oc.exc
            fr.exits[kind] = fr.exits.get(kind, 0) + 1
            obligs.extend(st.obligs)
            if oc.kind == "raise" and oc.exc == "<cut>":
                continue
            if oc.kind == "raise":
                continue  # an exception of the stack or of a child's run propagates
            if oc.kind != "normal":
                obligs.append(Oblig("Strategy.run/no-other-exit", st.pc, False, "post", P13))
                continue
            F = st.heap
            B = st.ghost.get("at_stack_call")
            A = st.ghost.get("after_stack_call")
            if B is None:
                obligs.append(Oblig("Strategy.run/stack-invoked", st.pc, False, "post", P13))
                continue

            def ob(cid, goal):
                o = Oblig("Strategy.run/%s" % cid, st.pc, goal, "post", P13)
                o.schemas = list(st.ghost.get("schemas", []))
                obligs.append(o)

            key = z3.Const(dsl.fresh_name("key"), dsl.Str)
            ob("temp-empty-when-stack-starts", Not(z3.Select(B.ensure("temp#has").select(self.term), key)))
            ob("perm-kept", B.ensure("perm_ver").select(self.term) == E.ensure("perm_ver").select(self.term))
            ob("own-stack-invoked-exactly-once-on-self", And(F.get(stack, "g_calls").eq(E.get(stack, "g_calls") + 1), [c for c in st.log if c[0].endswith("AlgoStack.__call__")][0][2][0].term == self.term, len([c for c in st.log if c[0].endswith("AlgoStack.__call__")]) == 1))
            n2 = A.list_len(self, "_childrenv")
            ob("each-child-run-exactly-once", ForallInt(0, n2, lambda j, F=F, A=A: F.get(A.list_at(self, "_childrenv", j), "g_runs").eq(A.get(A.list_at(self, "_childrenv", j), "g_runs") + 1), name="jc"))
        s = z3.Solver()
        for p in st0.pc:
            s.add(p)
        fr.canary = str(s.check())
        discharge(obligs, timeout_ms, fr, contract.qualname)
        fr.stats = dict(feas_queries=ex.stats.feas_queries, feas_s=round(ex.stats.feas_time, 3), inlined=sorted(ex.stats.inlined), contracts_used=sorted(ex.stats.contracts_used))
    except Undecided as e:
        fr.undecided = str(e)
    except Exception as e:
        fr.undecided = "ENGINE-ERROR: %s\n%s" % (e, traceback.format_exc())
    return fr


LOOPS[("bt.core.Strategy.run", 0)] = RUNLOOP
