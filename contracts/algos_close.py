"""
ClosePositionsAfterDates.__call__ under contract (property C20).

Model: the close-date table is a Series keyed by security name (membership + value per label); target.perm['closed'] is a label
set held in ghost state (its entry value is the token SelectActive's contract reads, so the two contracts talk about the same set).
Proved on the real body, at an arbitrary (skolem) label x:
  * afterwards x is recorded as closed  iff  it was recorded before, or it is *due*: a security child of the strategy that has a
    close date, was not recorded before, and whose date is <= now  - whatever its position is;
  * inside the loop every due security receives exactly one close(name, update=False) (per-iteration call-trace clause over an
    enumeration of the due list), and the recorded set grows by exactly the securities processed so far (loop invariant);
  * the algo ends with one root.update(now) and returns True.
That the position is zero after close() is close's own clause (used here through its frame contract, see DESIGN 5).
"""
import ast
import time
import traceback

import z3

from pyvc import dsl
from pyvc.dsl import Num, And, Or, Not, Implies
from pyvc.heap import RefV, StrV, OpaqueV, map_same, cls_f
from pyvc.state import Oblig, Undecided, Outcome
from pyvc.contracts import RelationalContract, LoopSpec, value_same
from pyvc.symexec import NONEV, BoundFn, _Raised
from pyvc.ext_frames import LabelSet, ListLV, IndexLV, RowV, MaskV, lst_mem, lst_ord, fresh_label, S
from pyvc.ext_algos import TempV
from .tree import cls_in, SEC_CLASSES, slot_f
from .core_strat import update_modkeys

P20 = ("C20",)
Q = "bt.algos.ClosePositionsAfterDates.__call__"
I = z3.IntSort()
ns_has = z3.Function("close_table_has", dsl.Ref, S, z3.BoolSort())
ns_val = z3.Function("close_table_date", dsl.Ref, S, I)
ns_ord = z3.Function("close_table_pos", dsl.Ref, S, I)


def _zb(f):
    return z3.BoolVal(f) if isinstance(f, bool) else f


class NameSeries(object):
    """a Series indexed by security names (the 'date' column of the close-date table)"""

    def __init__(self, tok):
        self.tok = tok


class EnumList(object):
    """a label list with a positional enumeration (needed to iterate it)"""

    def __init__(self, ls, n, at, pos):
        self.ls, self.n, self.at, self.pos = ls, n, at, pos


def _close_executor(ex):
    base = type(ex)

    class CloseExecutor(base):
        def temp_value(self, st, t, key):
            k = "temp:%s:%s" % (t.which, key)
            if k not in st.ghost and t.which == "perm" and key in ("closed", "rolled"):
                tok = self._lst_token(t.owner, "perm_" + key)
                v = ListLV(LabelSet(lambda x: lst_mem(tok, x), lambda x: lst_ord(tok, x), "perm['%s']@entry" % key))
                st.ghost[k] = v
            v = base.temp_value(self, st, t, key) if k not in st.ghost else st.ghost[k]
            if isinstance(v, ListLV) and t.which == "perm":
                v._origin = (k,)
            return v

        def ext_load_subscript(self, st, b, i):
            if type(b).__name__ == "AuxFrameV" and i == "date":
                return [(st, NameSeries(b.token))]
            if isinstance(b, tuple) and len(b) == 2 and b[0] == "nsloc" and isinstance(i, (ListLV, IndexLV)):
                tok = b[1].tok
                return [(st, RowV(LabelSet(i.ls.mem, i.ls.ord, "close_dates.loc[names]"), lambda x: Num(ns_val(tok, x), False, True)))]
            if isinstance(b, MaskV) and isinstance(i, MaskV) and b is i:
                ls, cond = b.ls, b.cond
                return [(st, MaskV(LabelSet(lambda x: And(ls.mem(x), _zb(cond(x))), ls.ord, "mask[mask]"), lambda x: True))]
            return base.ext_load_subscript(self, st, b, i)

        def load_attr(self, st, obj, attr):
            if isinstance(obj, NameSeries) and attr == "index":
                tok = obj.tok
                return [(st, IndexLV(LabelSet(lambda x: ns_has(tok, x), lambda x: ns_ord(tok, x), "close_dates.index")))]
            if isinstance(obj, NameSeries) and attr == "loc":
                return [(st, ("nsloc", obj))]
            if isinstance(obj, MaskV) and attr == "index":
                ls = obj.ls
                n = Num(z3.Int(dsl.fresh_name("n_due")), False, True)
                at = z3.Function(dsl.fresh_name("due_at"), I, S)
                pos = z3.Function(dsl.fresh_name("due_pos"), S, I)
                st.assume(n.r >= 0)
                # enumeration: positions and members correspond one to one
                sch = lambda x, ls=ls, n=n, at=at, pos=pos: Implies(ls.mem(x), And(pos(x) >= 0, pos(x) < n.r, at(pos(x)) == x))
                st.ghost["label_schemas"] = st.ghost.get("label_schemas", []) + [sch]
                if "x0" in st.ghost:
                    st.assume(_zb(sch(st.ghost["x0"])))   # instance at the skolem label the obligations talk about
                return [(st, EnumList(ls, n, at, pos))]
            if isinstance(obj, ListLV) and attr == "add" and getattr(obj, "_origin", None):
                return [(st, BoundFn("permset_add", "add", recv=obj))]
            return base.load_attr(self, st, obj, attr)

        def call_value(self, st, f, pos, kw):
            if isinstance(f, BoundFn) and f.kind == "permset_add":
                old = f.recv.ls
                x0 = pos[0].term
                new = ListLV(LabelSet(lambda x, old=old, x0=x0: Or(old.mem(x), x == x0), old.ord, "perm set + added"))
                new._origin = f.recv._origin
                st.ghost[f.recv._origin[0]] = new
                return [(st, NONEV)]
            return base.call_value(self, st, f, pos, kw)

        def iter_adapter(self, it, st):
            if isinstance(it, EnumList):
                def elem(s, i, it=it):
                    x = it.at(Num.lift(i).r)
                    s.assume(And(_zb(it.ls.mem(x)), it.pos(x) == Num.lift(i).r))
                    return StrV(x)

                st.ghost["close_iter"] = it
                return it.n, elem, None
            return base.iter_adapter(self, it, st)

    t = CloseExecutor.__new__(CloseExecutor)
    t.__dict__.update(ex.__dict__)
    return t


def _inv(ctx):
    st = ctx.cur
    x0 = ctx.entry.ghost["x0"]
    it = ctx.entry.ghost.get("close_iter") or st.ghost.get("close_iter")
    if "temp:perm:closed" not in ctx.entry.ghost:   # the set was there before the call and has not been replaced: its entry value
        ctx.ex.temp_value(ctx.entry, TempV(ctx.entry.locals["target"], "perm"), "closed")
    C0 = ctx.entry.ghost["temp:perm:closed"].ls
    if "temp:perm:closed" not in st.ghost:
        st.ghost["temp:perm:closed"] = ctx.entry.ghost["temp:perm:closed"]
    if ctx.phase == "head":
        # the recorded set at an arbitrary iteration: unknown except for what the invariant says about the skolem label
        cm = z3.Function(dsl.fresh_name("closed_at_head"), S, z3.BoolSort())
        v = ListLV(LabelSet(lambda x: cm(x), C0.ord, "perm['closed']@head"))
        v._origin = ("temp:perm:closed",)
        st.ghost["temp:perm:closed"] = v
    cur = st.ghost["temp:perm:closed"].ls
    i = ctx.i
    out = [("recorded-set-is-entry-set-plus-the-due-securities-processed-so-far", _zb(cur.mem(x0)) == Or(_zb(C0.mem(x0)), And(_zb(it.ls.mem(x0)), it.pos(x0) < i.r)))]
    if ctx.phase == "step":
        new = [c for c in st.log[len(ctx.head.log):] if len(c) == 4]
        elem = it.at((i - 1).r)
        out.append(("exactly-one-call-per-due-security", len(new) == 1))
        for c in new:
            out.append(("that-call-is-close(name, update=False)-on-the-strategy", And(c[0].endswith("StrategyBase.close"), c[1].term == ctx.entry.locals["target"].term, c[2][0].term == elem, c[2][1] is False)))
    return out


def _havoc(ctx):
    target = ctx.entry.locals["target"]
    rt = ctx.entry.heap.get(target, "root")
    from .tree import treeof_f

    def tree(i):
        # what close() may write: the strategy itself, its children's subtrees, and the root's stale flag
        return lambda x: Or(x == target.term, slot_f(target.term, x) >= 0, x == rt.term)

    keys = [k for k in update_modkeys() if k in ctx.entry.heap.maps or True]
    for k in keys + ["stale"]:
        ctx.entry.heap.ensure(k)
    return [(k, tree) for k in keys] + [("stale", tree)]


def _on_iter(ctx, c):
    """T instance for the child registered under the current name (it is a child: the due list was drawn from children.items())"""
    from .core_ops import named_child_facts

    st = ctx.cur
    target = ctx.entry.locals["target"]
    st.assume(_zb(named_child_facts(ctx.entry.heap, target, c)))


LOOPS = {(Q, 1): LoopSpec(_inv, havoc_heap=_havoc, on_iter=_on_iter, name="close every due security")}  # ordinal 0 is the filter comprehension


def verify_close_after_dates(ex, contract, timeout_ms=30000):
    from pyvc.verify import FuncReport, discharge, entry_state

    fr = FuncReport(contract.qualname)
    name = "ClosePositionsAfterDates.__call__"
    try:
        fi = ex.prog.func(contract.qualname)
        fr.source_hash = fi.source_hash()
        cx = _close_executor(ex)
        st0, self, args = entry_state(cx, contract)
        target = args[0]
        E = st0.heap
        rt = E.get(target, "root")
        from .tree import treeof_f, self_facts

        st0.assume(And(target.term != dsl.NONE, target.term != self.term, rt.term != dsl.NONE))
        for f in self_facts(E, target):
            st0.assume(_zb(f))
        x0 = fresh_label("x0")
        st0.ghost["x0"] = x0
        E = st0.heap.copy()
        had = E.ensure_ghost_bool("tmp#has:perm:closed").select(target.term)
        tokc = cx._lst_token(target, "perm_closed")
        C_entry = lambda x: And(had, lst_mem(tokc, x))
        t0 = time.time()
        exits = cx.run_function(fi, st0.fork(), self, [target])
        fr.symexec_s = time.time() - t0
        fr.paths = len(exits)
        obligs = []
        n_norm = 0
        for (st, oc) in exits:
            kind = oc.kind if oc.kind != "raise" else "raise:" + oc.exc
            fr.exits[kind] = fr.exits.get(kind, 0) + 1
            obligs.extend(st.obligs)
            if oc.kind == "raise":
                continue
            n_norm += 1
            hyps = [f(x0) for f in st.ghost.get("label_schemas", [])]
            pc = list(st.pc) + [_zb(h) for h in hyps]

            def ob(cid, goal):
                obligs.append(Oblig("%s/%s" % (name, cid), pc, goal, "post", P20))

            ob("returns-True", oc.kind == "return" and oc.value is True)
            cur = st.ghost.get("temp:perm:closed")
            ob("keeps-a-closed-set", isinstance(cur, ListLV))
            if isinstance(cur, ListLV):
                table = [v for k, v in st.locals.items() if isinstance(v, NameSeries)]
                ob("reads-the-date-column-of-the-close-table", len(table) == 1)
                if table:
                    tok = table[0].tok
                    kid = E.dict_at(target, "children", StrV(x0), "Node")
                    now = E.get(target, "now")
                    due = And(E.dict_has(target, "children", StrV(x0)), cls_in(cx.schema, kid.term, SEC_CLASSES), ns_has(tok, x0), Not(C_entry(x0)), ns_val(tok, x0) <= now.r)
                    ob("recorded-as-closed-iff-recorded-before-or-due-now-whatever-the-position", _zb(cur.ls.mem(x0)) == Or(C_entry(x0), due))
            calls = [c for c in st.log if len(c) == 4 and not c[0].endswith(".get_data")]
            ob("ends-with-one-root-update-at-the-current-date", len(calls) >= 1 and And(calls[-1][0].endswith(".update"), calls[-1][1].term == rt.term, value_same(calls[-1][2][0], calls[-1][3].get(target, "now"))))
            ob("no-other-call-outside-the-loop", len(calls) == 1)
        if n_norm == 0:
            obligs.append(Oblig("%s/has-a-normal-exit" % name, [], False, "post", P20))
        s = z3.Solver()
        for p in st0.pc:
            s.add(p)
        fr.canary = str(s.check())
        discharge(obligs, timeout_ms, fr, contract.qualname)
        fr.stats = dict(feas_queries=cx.stats.feas_queries, feas_s=round(cx.stats.feas_time, 3), inlined=sorted(cx.stats.inlined), contracts_used=sorted(cx.stats.contracts_used))
    except Undecided as e:
        fr.undecided = str(e)
    except Exception as e:
        fr.undecided = "ENGINE-ERROR: %s\n%s" % (e, traceback.format_exc())
    return fr


def contracts():
    return [(RelationalContract(Q, [("target", "ref:StrategyBase")], None, self_cls="ClosePositionsAfterDates", note="every due security closed once and recorded; see contracts/algos_close.py"), verify_close_after_dates)]
