"""
Read accessors (C08 'reads are fresh', 'no series handed to the user extends beyond the current date';
C01 'whenever a tree is observed'; C04 'history accessors slice to now').

For every getter the real body is executed and its ghost call log / result are checked:
  fresh      pending changes (root.stale, or for a security: needupdate / lagging date) => the refresh is invoked,
             on the root for root.now (on the security for root.now), before the value is read
  quiet      nothing pending => no call at all and no write
  result     the scalar field of the final state / the node's own history series cut at the node's date
"""
import time
import traceback

import z3

from pyvc import dsl
from pyvc.dsl import Num, And, Or, Not, Implies, ite
from pyvc.heap import RefV, HistV, HistSlice, map_same
from pyvc.state import Oblig, Undecided
from pyvc.contracts import RelationalContract, value_same
from pyvc.symexec import NONEV
from .tree import treeof_f, slot_f

# (class, getter) -> (kind, returned field, is_series)
GETTERS = {
    ("Node", "value"): ("root", "_value", False),
    ("Node", "notional_value"): ("root", "_notl_value", False),
    ("Node", "weight"): ("root", "_weight", False),
    ("StrategyBase", "price"): ("root", "_price", False),
    ("StrategyBase", "prices"): ("root", "_prices", True),
    ("StrategyBase", "values"): ("root", "_values", True),
    ("StrategyBase", "notional_values"): ("root", "_notl_values", True),
    ("StrategyBase", "cash"): ("root", "_cash", True),
    ("StrategyBase", "fees"): ("root", "_fees", True),
    ("StrategyBase", "flows"): ("root", "_all_flows", True),
    ("StrategyBase", "capital"): ("none", "_capital", False),
    ("SecurityBase", "price"): ("sec", "_price", False),
    ("SecurityBase", "prices"): ("sec", "_prices", True),
    ("SecurityBase", "values"): ("sec+root", "_values", True),
    ("SecurityBase", "notional_values"): ("sec+root", "_notl_values", True),
    ("SecurityBase", "positions"): ("sec+root", "_positions", True),
    ("SecurityBase", "outlays"): ("sec+root", "_outlays", True),
    ("SecurityBase", "position"): ("none", "_position", False),
    ("SecurityBase", "bidoffer"): ("sec", "_bidoffer", False),
    ("SecurityBase", "bidoffer_paid"): ("sec", "_bidoffer_paid", False),
    ("SecurityBase", "bidoffers_paid"): ("sec+root", "_bidoffers_paid", True),
    ("StrategyBase", "bidoffer_paid"): ("root", "_bidoffer_paid", False),
    ("StrategyBase", "bidoffers_paid"): ("root", "_bidoffers_paid", True),
    ("CouponPayingSecurity", "coupon"): ("root", "_coupon", False),
    ("CouponPayingSecurity", "coupons"): ("root", "_coupon_income", True),
    ("CouponPayingSecurity", "holding_cost"): ("root", "_holding_cost", False),
    ("CouponPayingSecurity", "holding_costs"): ("root", "_holding_costs", True),
}
P = ("C08", "C01")


def _zb(f):
    return z3.BoolVal(f) if isinstance(f, bool) else f


def verify_getter(ex, contract, timeout_ms=30000):
    from pyvc.verify import FuncReport, discharge, entry_state

    fr = FuncReport(contract.qualname)
    cls, g = contract.self_cls, contract.qualname.rsplit(".", 1)[1]
    kind, field, series = GETTERS[(cls, g)]
    name = "%s.%s" % (cls, g)
    try:
        fi = ex.prog.func(contract.qualname)
        fr.source_hash = fi.source_hash()
        st0, self, args = entry_state(ex, contract)
        E = st0.heap
        rt = E.get(self, "root")
        parent = E.get(self, "parent")
        is_sec = ex.prog.is_subclass(cls, "SecurityBase")
        st0.assume(And(rt.term != dsl.NONE, E.get(rt, "root").term == rt.term, E.get(rt, "parent").term == rt.term, treeof_f(rt.term) == rt.term, treeof_f(self.term) == rt.term,
                       parent.term != dsl.NONE, treeof_f(parent.term) == rt.term))
        if is_sec:
            st0.assume(And(parent.term != self.term, rt.term != self.term, E.get(parent, "root").term == rt.term, E.get(self, "_issec")))
        if cls == "StrategyBase":
            # no assumption that the strategy is on the root's date: a child attached during the run has not been updated yet, and its accessors
            # must still refresh the tree for the ROOT's date (they passed their own date before fix F24 and this contract assumed the two equal)
            st0.assume(Not(E.get(self, "_issec")))
        E = st0.heap.copy()
        t0 = time.time()
        exits = ex.run_function(fi, st0.fork(), self, [])
        fr.symexec_s = time.time() - t0
        fr.paths = len(exits)
        obligs = []
        stale0 = E.get(rt, "stale")
        lag0 = Or(E.get(self, "_needupdate"), E.get(self, "now").ne(E.get(parent, "now"))) if is_sec else False
        for xi, (st, oc) in enumerate(exits):
            k_ = oc.kind if oc.kind != "raise" else "raise:" + oc.exc
            fr.exits[k_] = fr.exits.get(k_, 0) + 1
            obligs.extend(st.obligs)
            if oc.kind == "raise":
                continue
            F = st.heap
            calls = [c for c in st.log if len(c) == 4]
            roots = [c for c in calls if c[0].endswith("StrategyBase.update")]
            secs = [c for c in calls if c[0].endswith("SecurityBase.update")]

            def ob(cid, goal, props=P):
                if field in ("_positions", "_outlays", "_values", "_notl_values", "_bidoffers_paid") and "C18" not in props:
                    props = tuple(props) + ("C18",)          # the histories the reports are built from: a stale or short series here is a wrong report
                obligs.append(Oblig("%s/%s" % (name, cid), st.pc, goal, "post", props))

            if oc.kind != "return":
                ob("returns-a-value", False)
                continue
            if "root" in kind:
                if kind == "root":
                    ob("fresh:stale-tree-is-refreshed-before-reading", Implies(stale0, len(roots) == 1))
                    ob("quiet:no-refresh-when-nothing-pending", Implies(Not(stale0), len(roots) == 0))
                else:
                    # the security's own catch-up may itself be followed by a root refresh: at the end nothing is pending
                    ob("fresh:nothing-pending-when-the-series-is-returned", Not(F.get(rt, "stale")))
                for c in roots:
                    H = c[3]
                    ob("refresh-is-on-the-root-for-the-root's-date", And(c[1].term == rt.term, c[2][0].eq(H.get(rt, "now"))))
            else:
                ob("no-root-refresh", len(roots) == 0)
            if "sec" in kind:
                ob("fresh:idle-or-lagging-security-is-updated-first", Implies(lag0, len(secs) >= 1))
                ob("quiet:current-security-is-not-updated", Implies(Not(lag0), len(secs) == 0))
                for c in secs:
                    H = c[3]
                    ob("security-refresh-is-for-the-root's-date", And(c[1].term == self.term, c[2][0].eq(H.get(rt, "now"))))
            if kind == "none":
                ob("no-call-at-all", len(calls) == 0)
            if not calls:
                x = z3.Const(dsl.fresh_name("xfr"), dsl.Ref)
                for key in sorted(F.maps.keys()):
                    a, b = F.maps[key], E.ensure(key)
                    if not map_same(a, b):
                        ob("reads-write-nothing:%s" % key, a.select(x) == b.select(x), ("C08",))
            v = oc.value
            if series:
                ok = isinstance(v, HistSlice) and isinstance(v.hist, HistV) and v.hist.field == field
                ob("returns-own-history-cut-at-own-date", And(ok, (v.hist.owner.term == self.term) if ok else False, Num.lift(v.upto).eq(F.get(self, "now")) if ok else False), ("C08", "C04", "C01"))
            else:
                ob("returns-the-current-field", value_same(v, F.get(self, field)) if isinstance(v, Num) else False)
        s = z3.Solver()
        for p in st0.pc:
            s.add(p)
        fr.canary = str(s.check())
        discharge(obligs, timeout_ms, fr, contract.qualname)
        fr.stats = dict(feas_queries=ex.stats.feas_queries, feas_s=round(ex.stats.feas_time, 3), inlined=sorted(ex.stats.inlined), contracts_used=sorted(ex.stats.contracts_used))
    except Undecided as e:
        fr.undecided = str(e)
    except Exception as e:
        fr.undecided = "ENGINE-ERROR: %s\n%s" % (e, traceback.format_exc())
    return fr


def getter_tasks():
    return ["bt.core.%s.%s" % k for k in GETTERS]


def verify_universe_getter(ex, contract, timeout_ms=30000):
    """StrategyBase.universe: the window handed to algos is cut at now; the one-slot cache (_last_chk, _funiverse) is consistent"""
    from pyvc.verify import FuncReport, discharge, entry_state

    fr = FuncReport(contract.qualname)
    name = "StrategyBase.universe"
    try:
        fi = ex.prog.func(contract.qualname)
        fr.source_hash = fi.source_hash()
        st0, self, args = entry_state(ex, contract)
        E = st0.heap
        lc = E.get(self, "_last_chk")
        inv0 = Implies(Not(lc.isnone), E.get(self, "_funiverse_hi").eq(lc.val))
        st0.assume(_zb(inv0))
        E = st0.heap.copy()
        # the getter body itself must be executed, not its contract
        saved = ex.contracts.pop(contract.qualname, None)
        t0 = time.time()
        exits = ex.run_function(fi, st0.fork(), self, [])
        if saved is not None:
            ex.contracts[contract.qualname] = saved
        fr.symexec_s = time.time() - t0
        fr.paths = len(exits)
        obligs = []
        for xi, (st, oc) in enumerate(exits):
            k_ = oc.kind if oc.kind != "raise" else "raise:" + oc.exc
            fr.exits[k_] = fr.exits.get(k_, 0) + 1
            obligs.extend(st.obligs)
            F = st.heap
            v = oc.value if oc.kind == "return" else None
            ok = type(v).__name__ == "FrameWinV"
            obligs.append(Oblig("%s/returns-own-universe-rows-up-to-now" % name, st.pc, And(ok, (v.owner.term == self.term) if ok else False, Num.lift(v.hi).eq(F.get(self, "now")) if ok else False), "post", ("C04", "C14")))
            lcF = F.get(self, "_last_chk")
            obligs.append(Oblig("%s/cache-stays-consistent" % name, st.pc, Implies(Not(lcF.isnone), F.get(self, "_funiverse_hi").eq(lcF.val)), "post", ("C04",)))
            obligs.append(Oblig("%s/does-not-move-the-clock" % name, st.pc, F.get(self, "now").eq(E.get(self, "now")), "post", ("C04", "C08")))
        s = z3.Solver()
        for p in st0.pc:
            s.add(p)
        fr.canary = str(s.check())
        discharge(obligs, timeout_ms, fr, contract.qualname)
        fr.stats = dict(feas_queries=ex.stats.feas_queries, feas_s=round(ex.stats.feas_time, 3), inlined=sorted(ex.stats.inlined), contracts_used=sorted(ex.stats.contracts_used))
    except Undecided as e:
        fr.undecided = str(e)
    except Exception as e:
        fr.undecided = "ENGINE-ERROR: %s\n%s" % (e, traceback.format_exc())
    return fr
