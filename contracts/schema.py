"""Field schema of bt.core objects (sorts of the heap maps).  An attribute that is not listed here
makes every function touching it 'undecided'."""
from pyvc.heap import Schema


def core_schema():
    s = Schema()
    # Node
    s.declare(
        name="str", parent="ref:StrategyBase", root="ref:StrategyBase", now="date", stale="bool",
        _price="float", _value="float", _notl_value="float", _weight="float", _capital="float",
        _issec="bool", _has_strat_children="bool", _fixed_income="bool", _bidoffer_set="bool",
        _bidoffer_paid="float", integer_positions="bool", _original_children_are_present="bool",
        children="dict", _lazy_children="dict", _childrenv="list", lazy_add="bool", data="frame", _universe="frame",
    )
    # StrategyBase
    s.declare(
        _net_flows="float", _last_value="float", _last_notl_value="float", _last_price="float",
        _last_fee="float", _paper_trade="bool", bankrupt="bool", commission_fn="fn",
        _paper="ref:StrategyBase", _paper_amount="float",
        _prices="hist", _values="hist", _notl_values="hist", _cash="hist", _fees="hist", _all_flows="hist",
        _bidoffers_paid="hist", _strat_children="strlist",
    )
    # SecurityBase
    s.declare(
        _last_pos="float", _position="float", multiplier="float", _prices_set="bool", _needupdate="bool",
        _outlay="float", _bidoffer="float",
        _positions="hist", _outlays="hist", _bidoffers="hist",
    )
    # CouponPayingSecurity
    s.declare(
        _coupon="float", _holding_cost="float", _coupons="opthist", _cost_long="opthist", _cost_short="opthist",
        _coupon_income="hist", _holding_costs="hist", _ucol="hist",
    )
    # algos state
    s.declare(has_run="bool", days="int", n="int", offset="int", idx="int", lcall="date", date="date", dates="opaque",
              _run_on_first_date="bool", _run_on_end_of_period="bool", _run_on_last_date="bool")
    # algo stacks / flow control (ghost: g_calls, g_stamp, g_clock record invocations of opaque algos)
    s.declare(algos="list", _list_of_algos="list", check_run_always="bool", run_always="bool", has_run_always="bool",
              g_calls="int", g_stamp="int", g_clock="int", g_runs="int", perm_ver="int", _algo="ref:Algo", stack="ref:AlgoStack")
    # selection / weighting algos
    s.declare(include_no_data="bool", include_negative="bool", tickers="labels", lookback="int", lag="int", min_count="int",
              signal="auxframe", stat="auxframe", weights="auxframe", regex="opaque", ascending="bool", all_or_none="bool", filter_selected="bool", sel_n="float",
              stat_name="optstr", signal_name="optstr", weights_name="optstr", target_weights="auxframe",
              # algo parameters that are plain numbers / dicts / names (not time-indexed data)
              limit="custom", global_limit="bool", scale="float", bounds="opaque", weight_sum="float", covar_method="opaque", rf="float", initial_weights="opaque",
              risk_weights="opaque", risk_parity_method="opaque", maximum_iterations="int", tolerance="float", target_volatility="opaque", annualization_factor="float",
              PTE_volatility_cap="float", amount="float", notional_value="opaque", on_the_run="opaque", close_dates="opaque", roll_data="opaque", transactions="opaque",
              rfqs="opaque", model="opaque", measure="opaque", history="int", measures="opaque", pseudo="bool", throw_nan="bool", include_types="opaque", exclude_types="opaque",
              item="opaque", pred="opaque", if_none="bool", fmt_string="opaque", _name="opaque")
    s.declare(limit_f="float")
    # per-node risk bookkeeping of UpdateRisk for the algo's own measure (C20): hasattr(node,'risk'), measure in node.risk, node.risk[measure], hasattr(node,'risks')
    s.declare(risk_has="bool", risk_m_has="bool", risk_m="float", risks_has="bool")
    s.declare(_last_chk="optdate", _funiverse_hi="date")
    s.declare(_sweights="optdict", sel_n_opt="optfloat")
    s.declare(_weights="optdict", _days_left="optfloat", rot_n="float", _rb="ref:Rebalance")
    # Backtest
    s.declare(strategy="ref:StrategyBase", additional_data="opaque", initial_capital="float", progress_bar="bool", stats="opaque", _original_prices="opaque",
              _original_data="opaque", _setup_kwargs="opaque")
    return s
