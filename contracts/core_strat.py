"""
Contract of StrategyBase.update (DESIGN A.5): loop invariants, call-site semantics (recursive use on
children, re-entrant use through the stale getters, use on the paper copy) and the property clauses
(C01 identity / rows / weights, C02 sweep, C03 index recurrence and resets, C07 rows written each
call, C08 frames, C16 flag, C17 notional).
"""
import time
import traceback

import z3

from pyvc import dsl
from pyvc.dsl import Num, And, Or, Not, Implies, ite, absv, isnan, is_zero, eq, ne, isnone, optval
from pyvc.heap import RefV, TupleV, HMap, ZMap, map_same, map_equal, cls_f
from pyvc.state import SpecState, State, Oblig, Outcome, NORMAL, Undecided
from pyvc.contracts import RelationalContract, LoopSpec, ForallInt, value_same
from pyvc.symexec import NONEV, _Raised
from . import core_sec as cs
from .tree import slot_f, cidx_f, treeof_f, self_facts, child_facts, children_schema, cls_in, SEC_CLASSES, STRAT_CLASSES


def _zb(f):
    return z3.BoolVal(f) if isinstance(f, bool) else f


FLOAT_MOD = [
    "_price", "_value", "_notl_value", "_weight", "_capital", "_net_flows", "_last_value", "_last_notl_value", "_last_price",
    "_last_fee", "_bidoffer_paid", "_last_pos", "_outlay", "_bidoffer", "_coupon", "_holding_cost", "_position",
]
BOOL_MOD = ["_needupdate", "bankrupt"]
DATE_MOD = ["now"]
HIST_MOD = ["_prices", "_values", "_notl_values", "_cash", "_fees", "_all_flows", "_bidoffers_paid", "_positions", "_outlays", "_coupon_income", "_holding_costs", "_ucol"]
STRAT_HIST = ["_prices", "_values", "_notl_values", "_cash", "_fees", "_all_flows", "_bidoffers_paid"]


def update_modkeys():
    ks = []
    for f in FLOAT_MOD:
        ks += [f, f + "#nan"]
    ks += BOOL_MOD + DATE_MOD
    for f in HIST_MOD:
        ks += [f, f + "#nan"]
    return ks


# ------------------------------------------------------------------------------------ ghost sums
class SumGhost(object):
    """Sum_{j<k} term(heap, j): an uninterpreted function of k per heap version, with the two
    facts the engine may emit: unfolding (definition) and frame (justified by an obligation)."""

    def __init__(self, name, term_fn):
        self.name = name
        self.term_fn = term_fn  # (heap, j:Num) -> Num (real)
        self.key = "sum:" + name

    def new_version(self, st):
        f = z3.Function(dsl.fresh_name("Sum_" + self.name), z3.IntSort(), z3.RealSort())
        st.ghost[self.key] = (f, st.heap.copy())
        st.assume(f(0) == 0)  # empty sum (definition)
        return f

    def version(self, st):
        v = st.ghost.get(self.key)
        if v is None:
            self.new_version(st)
            v = st.ghost[self.key]
        return v

    def value(self, st, k):
        f, _ = self.version(st)
        return Num(f(Num.lift(k).r), False, False)

    def zero(self, st):
        f = self.new_version(st)
        return f(0) == 0

    def unfold(self, st, k):
        f, _ = self.version(st)
        k = Num.lift(k)
        t = Num.lift(self.term_fn(st.heap, k))
        return f(k.r + 1) == f(k.r) + t.real()

    def rebase(self, st, upto, oid):
        """switch to the current heap; Sum_new(upto) == Sum_old(upto) justified by the frame obligation"""
        f, snap = self.version(st)
        upto = Num.lift(upto)
        goal = ForallInt(0, upto, lambda j: value_same(self.term_fn(st.heap, j), self.term_fn(snap, j)), name="jf")
        o = Oblig(oid, st.pc, goal, kind="sumframe")
        o.schemas = list(st.ghost.get("schemas", []))
        st.obligs.append(o)
        g = self.new_version(st)
        st.assume(g(upto.r) == f(upto.r))


def _children(heap, s, j):
    return heap.list_at(s, "_childrenv", j)


def make_sums(self, loop_entry_heap, newpt):
    """the four accumulators of the first children loop"""
    E = loop_entry_heap

    def act0(j):
        c = _children(E, self, j)
        return Or(Not(E.get(c, "_issec")), E.get(c, "_needupdate"))

    def t_value(h, j):
        c = _children(E, self, j)
        v = h.get(c, "_value")
        return ite(act0(j), Num(v.r, False, False), 0.0)

    def t_notl(h, j):
        c = _children(E, self, j)
        v = h.get(c, "_notl_value")
        return ite(act0(j), absv(Num(v.r, False, False)), 0.0)

    def t_bo(h, j):
        c = _children(E, self, j)
        v = h.get(c, "_bidoffer_paid")
        return ite(And(act0(j), E.get(self, "_bidoffer_set")), Num(v.r, False, False), 0.0)

    def t_coupon(h, j):
        c = _children(E, self, j)
        v = E.get(c, "_capital")
        return ite(And(newpt, E.get(c, "_issec")), Num(v.r, False, False), 0.0)

    return dict(V=SumGhost("value", t_value), N=SumGhost("notl", t_notl), B=SumGhost("bidoffer", t_bo), C=SumGhost("coupons", t_coupon), act0=act0)


# ------------------------------------------------------------------------------------ call-site semantics
def apply_update(ex, st, recv, args, exact=False):
    """StrategyBase.update used modularly: by a parent on a strategy child, re-entrantly through a
    stale getter on the root, by an algo on the root, or on a paper copy (a separate tree)."""
    date = args[0]
    heap = st.heap
    rt = heap.get(recv, "root")
    parent = heap.get(recv, "parent")
    is_root = rt.term == recv.term
    ptm, k = parent.term, cidx_f(recv.term)

    def cond(x):
        return z3.If(is_root, treeof_f(x) == recv.term, slot_f(ptm, x) == k)

    was_bankrupt = heap.get(recv, "bankrupt")
    for key in update_modkeys():
        heap.havoc(key, cond=cond)
    # the root's update resolves the pending flag; a sub-node's update leaves a fresh tree fresh and says nothing about a stale one (it may or may not
    # have re-entered the root's update through an accessor)
    was_stale = heap.get(rt, "stale")
    heap.set(rt, "stale", z3.If(is_root, z3.BoolVal(False), z3.If(_zb(was_stale), dsl.fresh_bool("stale_after_subnode_update"), z3.BoolVal(False))))
    st.assume(_zb(Implies(was_bankrupt, heap.get(recv, "bankrupt"))))
    out = []
    # may raise (NaN price on an open position, zero base of the return, ...)
    r = dsl.fresh_bool("update_raises")
    s2 = st.fork()
    s2.assume(r)
    out.append((s2, _Raised("Exception")))
    st.assume(heap.get(recv, "now").eq(date))
    for f in ("_value", "_notl_value", "_price", "_capital", "_bidoffer_paid"):
        st.assume(_zb(Not(isnan(heap.get(recv, f)))))
    st.assume(_zb(Implies(Not(is_root), heap.get(recv, "bankrupt") == False)))  # noqa: E712
    st.ghost["updated:" + str(recv.term)] = True
    out.append((st, NONEV))
    return out


def update_pre(S, self, date, data, inow):
    """W instance the body relies on (every mutator re-establishes it)"""
    h = S.heap
    pre = []
    for i, f in enumerate(self_facts(h, self)):
        pre.append(("T-self-%d" % i, f))
    for f in ("_capital", "_value", "_notl_value", "_net_flows", "_last_value", "_last_notl_value", "_last_fee", "_price", "_last_price", "_bidoffer_paid"):
        pre.append(("nan-free:" + f, Not(isnan(h.get(self, f)))))
    pre.append(("inow-is-idx", Or(isnone(inow), And(Not(isnone(inow)), eq(optval(inow), ite(eq(date, 0), 0, S.idx(self, date)))))))
    pre.append(("idx-nonneg", S.idx(self, date) >= 0))
    # the paper copy of a sub-strategy is a separate tree whose root it is (established by setup)
    pp = h.get(self, "_paper")
    pt = h.get(self, "_paper_trade")
    sch = h.schema
    pre.append(("T-paper", Implies(pt, And(
        pp.term != dsl.NONE, h.get(pp, "root").term == pp.term, h.get(pp, "parent").term == pp.term, treeof_f(pp.term) == pp.term,
        pp.term != h.get(self, "root").term, pp.term != self.term, slot_f(self.term, pp.term) == -1, Not(h.get(pp, "_paper_trade")), Not(h.get(pp, "_issec")),
        cls_in(sch, pp.term, STRAT_CLASSES), slot_f(pp.term, pp.term) == -1))))
    # a non-root strategy is only ever updated by its parent's update, on the parent's date
    parent = h.get(self, "parent")
    pre.append(("child-updated-on-parent-date", Implies(parent.term != self.term, And(h.get(parent, "now").eq(date), h.get(h.get(self, "root"), "now").eq(date)))))
    return pre


def update_contract():
    return RelationalContract(
        "bt.core.StrategyBase.update", [("date", "date"), ("data", "optdata"), ("inow", "optint")], apply_update, pre=None, self_cls="StrategyBase",
        note="modifies only the subtree of the receiver (fields in update_modkeys) and root.stale; ensures now == date, NaN-free value/notional/price",
    )


# ------------------------------------------------------------------------------------ loop invariants
def _loop1_on_iter(ctx, c):
    st = ctx.cur
    self = st.locals["self"]
    for f in child_facts(ctx.entry.heap, self, ctx.i):
        st.assume(_zb(f))
    E = ctx.entry.heap
    st.assume(_zb(Not(isnan(E.get(c, "_capital")))))


def _sums_for(ctx):
    key = "sums"
    st = ctx.cur
    s = st.ghost.get(key)
    if s is None:
        self = ctx.entry.locals["self"]
        s = make_sums(self, ctx.entry.heap, ctx.entry.locals["newpt"])
        st.ghost[key] = s
    return s


def _loop1_inv(ctx):
    st = ctx.cur
    self = ctx.entry.locals["self"]
    E = ctx.entry.heap
    sums = _sums_for(ctx)
    i = ctx.i
    out = []
    if ctx.phase == "init":
        for k in "VNBC":
            ctx.facts.append(sums[k].zero(st))
    elif ctx.phase == "head":
        for k in "VNBC":
            sums[k].new_version(st)
    else:  # step: head version at i-1 -> current heap at i
        ih = i - 1
        for k in "VNB":
            sums[k].rebase(st, ih, "bt.core.StrategyBase.update/loop0/sum-frame:%s" % sums[k].name)
        sums["C"].new_version(st) if False else None
        for k in "VNBC":
            ctx.facts.append(sums[k].unfold(st, ih))
    rt = st.heap.get(self, "root")
    out.append(("root-not-stale", Not(st.heap.get(rt, "stale"))))
    val = st.locals["val"]
    out.append(("val-is-capital-plus-children", value_same(val, E.get(self, "_capital") + sums["V"].value(st, i))))
    out.append(("notl-is-sum-abs-children", value_same(st.locals["notl_val"], sums["N"].value(st, i))))
    out.append(("bidoffer-is-sum-children", value_same(st.locals["bidoffer_paid"], sums["B"].value(st, i))))
    out.append(("coupons-is-sum-swept", value_same(st.locals["coupons"], sums["C"].value(st, i))))
    # parked coupons are swept only on a date change (needed for C08 a: a redundant update leaves cash alone)
    newpt = ctx.entry.locals["newpt"]
    out.append(("nothing-swept-without-a-date-change", Implies(Not(newpt) if not isinstance(newpt, bool) else (not newpt), sums["C"].value(st, i).eq(0))))
    return out


def _loop1_havoc(ctx):
    self = ctx.entry.locals["self"]

    def condfn(i):
        i = Num.lift(i)
        return lambda x: And(slot_f(self.term, x) >= 0, slot_f(self.term, x) < i.r)

    return [(k, condfn) for k in update_modkeys()] + [("stale", lambda i: (lambda x: False))]


LOOP1 = LoopSpec(_loop1_inv, havoc_heap=_loop1_havoc, on_iter=_loop1_on_iter, name="update children, accumulate value")


def _act2(heap, self, j):
    c = _children(heap, self, j)
    return Or(Not(heap.get(c, "_issec")), heap.get(c, "_needupdate"))


def weight_spec(heap, self, c, val, notl_val):
    fi = heap.get(self, "_fixed_income")
    w_fi = ite(is_zero(notl_val), 0.0, heap.get(c, "_notl_value") / notl_val)
    w_mv = ite(is_zero(val), 0.0, heap.get(c, "_value") / val)
    return ite(fi, w_fi, w_mv)


def _loop2_inv(ctx):
    st = ctx.cur
    self = ctx.entry.locals["self"]
    E = ctx.entry.heap
    val = ctx.entry.locals["val"]
    notl_val = ctx.entry.locals["notl_val"]
    h = st.heap
    out = []
    if ctx.phase == "init":
        st.ghost["loop2_entry"] = ctx.entry.heap
    if st.ghost.get("flattened"):
        out.append(("still-flagged-bankrupt", h.get(self, "bankrupt")))
        # after the liquidation the first value read of an active child re-enters update: nothing stays pending
        rt_ = h.get(self, "root")
        out.append(("liquidation-is-refreshed-once-a-child-is-read", ForallInt(0, ctx.i, lambda j: Implies(_act2(E, self, j), Not(h.get(rt_, "stale"))), name="jb")))
        # as long as nothing has been refreshed the skip flags are those the loop started with
        nkids = E.list_len(self, "_childrenv")
        out.append(("skip-flags-unchanged-until-refresh", ForallInt(0, nkids, lambda j: Implies(h.get(rt_, "stale"), h.get(_children(E, self, j), "_needupdate") == E.get(_children(E, self, j), "_needupdate")), name="jn")))
        return out
    rt = h.get(self, "root")
    out.append(("root-not-stale", Not(h.get(rt, "stale"))))
    out.append(
        ("weights-set", ForallInt(0, ctx.i, lambda j: Implies(_act2(E, self, j), value_same(h.get(_children(E, self, j), "_weight"), weight_spec(h, self, _children(E, self, j), val, notl_val))), name="jw"))
    )
    return out


def _loop2_havoc(ctx):
    self = ctx.entry.locals["self"]
    if ctx.entry.ghost.get("flattened"):
        # after a bankruptcy the first getter re-enters update: anything in the tree may change (root.stale only through update's own store)
        rt0 = ctx.entry.heap.get(self, "root")
        return list(update_modkeys()) + [("stale", lambda i: (lambda x: x == rt0.term))]

    kids = ctx.entry.heap.ensure("_childrenv").select(self.term)

    def condfn(i):
        i = Num.lift(i)
        return lambda x: And(slot_f(self.term, x) >= 0, slot_f(self.term, x) < i.r, z3.Select(kids, slot_f(self.term, x)) == x)

    return [("_weight", condfn), ("_weight#nan", condfn)]


def _loop2_on_iter(ctx, c):
    st = ctx.cur
    st.ghost["loop2_entry"] = ctx.entry.heap
    self = st.locals["self"]
    for f in child_facts(ctx.entry.heap, self, ctx.i):
        st.assume(_zb(f))


LOOP2 = LoopSpec(_loop2_inv, havoc_heap=_loop2_havoc, on_iter=_loop2_on_iter, name="recompute child weights")


# ---- third loop: publish the strategy children's index into the parent's universe
scpos_f = z3.Function("scpos", dsl.Ref, dsl.Ref, z3.IntSort())


def sc_name(heap, s, j):
    return heap.list_at(s, "_strat_children", j)


def sc_child(heap, s, j):
    return heap.dict_at(s, "children", sc_name(heap, s, j), "Node")


def sc_facts(heap, s, j):
    """T instance for the j-th registered strategy child: it is a child, a strategy, and names are unique"""
    from .core_ops import named_child_facts

    nm = sc_name(heap, s, j)
    c = sc_child(heap, s, j)
    return [
        heap.dict_has(s, "children", nm), named_child_facts(heap, s, nm), Not(heap.get(c, "_issec")), cls_in(heap.schema, c.term, STRAT_CLASSES),
        scpos_f(s.term, c.term) == Num.lift(j).r, Not(isnan(heap.get(c, "_price"))),
    ]


def sc_schema(heap, s):
    n = heap.list_len(s, "_strat_children")
    return ForallInt(0, n, lambda j: And(*sc_facts(heap, s, j)), name="js")


def _loop3_inv(ctx):
    st = ctx.cur
    self = ctx.entry.locals["self"]
    E = ctx.entry.heap
    date = ctx.entry.locals["date"]
    h = st.heap
    row = Num(cs_idx(date), False, True)
    out = []
    if st.ghost.get("flattened"):
        out.append(("still-flagged-bankrupt", h.get(self, "bankrupt")))
        rt_ = h.get(self, "root")
        # reading a child's index can only resolve pending changes, never create them
        out.append(("refresh-only", Implies(Not(E.get(E.get(self, "root"), "stale")), Not(h.get(rt_, "stale")))))
        return out
    rt = h.get(self, "root")
    out.append(("root-not-stale", Not(h.get(rt, "stale"))))
    out.append(("child-index-published", ForallInt(0, ctx.i, lambda j: value_same(h.hist_get(sc_child(E, self, j), "_ucol", row), h.get(sc_child(E, self, j), "_price")), name="ju")))
    return out


def cs_idx(date):
    from pyvc.heap import idx_f

    return idx_f(Num.lift(date).r)


def _loop3_havoc(ctx):
    self = ctx.entry.locals["self"]
    if ctx.entry.ghost.get("flattened"):
        rt0 = ctx.entry.heap.get(self, "root")
        return list(update_modkeys()) + [("stale", lambda i: (lambda x: x == rt0.term))]
    E = ctx.entry.heap
    names = E.ensure("_strat_children").select(self.term)
    kids = E.ensure("children").select(self.term)

    def condfn(i):
        i = Num.lift(i)
        return lambda x: And(scpos_f(self.term, x) >= 0, scpos_f(self.term, x) < i.r, z3.Select(kids, z3.Select(names, scpos_f(self.term, x))) == x)

    return [("_ucol", condfn), ("_ucol#nan", condfn)]


def _loop3_on_iter(ctx, c):
    st = ctx.cur
    self = st.locals["self"]
    for f in sc_facts(ctx.entry.heap, self, ctx.i):
        st.assume(_zb(f))


LOOP3 = LoopSpec(_loop3_inv, havoc_heap=_loop3_havoc, on_iter=_loop3_on_iter, name="publish strategy children's index")


# ------------------------------------------------------------------------------------ flatten (placeholder semantics for update's own proof)
def apply_flatten(ex, st, recv, args, exact=False):
    heap = st.heap
    rt = heap.get(recv, "root")
    parent = heap.get(recv, "parent")
    isroot = parent.term == recv.term
    k = cidx_f(recv.term)

    def cond(x):
        # the receiver's own subtree (the whole tree for a root); its securities charge the receiver itself
        return z3.If(isroot, treeof_f(x) == rt.term, slot_f(parent.term, x) == k)

    for key in update_modkeys():
        if key.split("#")[0] in ("bankrupt", "now"):
            continue
        heap.havoc(key, cond=cond)
    heap.set(rt, "stale", True)
    st.ghost["flattened"] = True
    out = []
    r = dsl.fresh_bool("flatten_raises")
    s2 = st.fork()
    s2.assume(r)
    out.append((s2, _Raised("Exception")))
    out.append((st, NONEV))
    return out


def flatten_contract():
    return RelationalContract("bt.core.StrategyBase.flatten", [], apply_flatten, self_cls="StrategyBase", note="closes every child; root.stale' = True")


# ------------------------------------------------------------------------------------ verification of the body
def _skolem_hist_frame(F, E, self, field, inow, oid, pc, props):
    """append-only: buffer `field` of self changes at most at index inow"""
    k = dsl.fresh_int("krow")
    a = F.hist_get(self, field, k)
    b = E.hist_get(self, field, k)
    return Oblig(oid, pc, Implies(k.ne(inow), value_same(a, b)), "post", props)


def _restrict_flat(S, self, args):
    return [Not(S.get(self, "_has_strat_children")), Not(S.get(self, "_paper_trade"))]


def _restrict_nopaper(S, self, args):
    return [Not(S.get(self, "_paper_trade"))]


# case split of the entry states into four parallel verification tasks (their union is every state)
VARIANTS = {
    "flat": _restrict_flat,
    "paper": lambda S, self, args: [Not(S.get(self, "_has_strat_children")), S.get(self, "_paper_trade")],
    "nested": lambda S, self, args: [S.get(self, "_has_strat_children"), Not(S.get(self, "_paper_trade"))],
    "nested-paper": lambda S, self, args: [S.get(self, "_has_strat_children"), S.get(self, "_paper_trade")],
    "full": (lambda S, self, args: []),
}


def verify_update(ex, contract, timeout_ms=30000, restrict=None, variant=None):
    if variant:
        restrict = VARIANTS[variant]
    from pyvc.verify import FuncReport, entry_state, discharge

    fr = FuncReport(contract.qualname)
    try:
        fi = ex.prog.func(contract.qualname)
        fr.source_hash = fi.source_hash()
        st0, self, args = entry_state(ex, contract)
        date, data, inow = args
        S0 = SpecState(st0.heap)
        for (pid, f) in update_pre(S0, self, date, data, inow):
            st0.assume(_zb(f))
        if restrict:
            for f in restrict(S0, self, args):
                st0.assume(_zb(f))
        # only an update of the whole tree resolves the pending flag (after fix F27 a sub-strategy's update no longer clears it): a node below the root
        # is updated by its root's update - which has resolved the flag by then - so for such a node the tree is fresh at entry.  A direct update of a
        # sub-node of a STALE tree re-enters the root's update through its children's accessors; that case is outside this contract and covered by the
        # bounded stand-ins (c08_reads / c01_identity: sub-node updates followed by reads)
        rt0_ = st0.heap.get(self, "root")
        st0.assume(_zb(Or(rt0_.term == self.term, Not(st0.heap.get(rt0_, "stale")))))
        E = st0.heap.copy()
        st0.ghost["schemas"] = [children_schema(E, self), sc_schema(E, self)]
        t0 = time.time()
        exits = ex.run_function(fi, st0.fork(), self, args)
        fr.symexec_s = time.time() - t0
        fr.paths = len(exits)
        obligs = []
        now0 = E.get(self, "now")
        newpt0 = Or(eq(now0, 0), ne(date, now0))
        datechg = And(ne(now0, 0), ne(date, now0))
        i_eff = ite(isnone(inow), ite(eq(date, 0), 0, S0.idx(self, date)), optval(inow)) if not isinstance(isnone(inow), bool) else (ite(eq(date, 0), 0, S0.idx(self, date)) if isnone(inow) else optval(inow))
        n = E.list_len(self, "_childrenv")
        fi_flag = E.get(self, "_fixed_income")
        fname = "StrategyBase.update"
        for xi, (st, oc) in enumerate(exits):
            kind = oc.kind if oc.kind != "raise" else "raise:" + oc.exc
            fr.exits[kind] = fr.exits.get(kind, 0) + 1
            obligs.extend(st.obligs)
            if oc.kind == "raise" and oc.exc == "<cut>":
                continue
            F = st.heap
            flattened = bool(st.ghost.get("flattened"))
            pc = st.pc
            nb = len(obligs)

            def ob(cid, goal, props, kind="post"):
                o = Oblig("%s/%s" % (fname, cid), st.pc, goal, kind, props)
                o.schemas = list(st.ghost.get("schemas", []))
                obligs.append(o)

            sums = st.ghost.get("sums")
            has_children = sums is not None
            if sums is None:
                # `if self.children:` was false: no children, sums are empty
                V = Num.lift(0.0)
                Nn = Num.lift(0.0)
                C = Num.lift(0.0)
                B = Num.lift(0.0)
            else:
                if not flattened and not (oc.kind == "raise" and oc.exc != "ZeroDivisionError"):
                    for k in "VNB":
                        sums[k].rebase(st, n, "bt.core.StrategyBase.update/exit/sum-frame:%s" % sums[k].name)
                    obligs.extend([o for o in st.obligs if o not in obligs])
                V, Nn, B, C = (sums[k].value(st, n) for k in "VNBC")
            capE = E.get(self, "_capital")
            capF = F.get(self, "_capital")
            valF = F.get(self, "_value")
            if oc.kind == "raise":
                # C10/C03/C17: a ZeroDivisionError is raised only on a zero base with non-zero numerator
                if oc.exc == "ZeroDivisionError" and not flattened:
                    Vt = capE + C + V
                    bottom = F.get(self, "_last_value") + F.get(self, "_net_flows")
                    pnl = Vt - bottom
                    mv = And(Not(fi_flag), is_zero(bottom), Not(is_zero(Vt)))
                    fic = And(fi_flag, is_zero(F.get(self, "_last_notl_value")), is_zero(Nn), Not(is_zero(pnl)))
                    ob("raises-zero-base-only", Or(mv, fic), ("C03", "C10", "C17"))
                continue
            # ---------------- normal exits
            # C08/C03/C07: accumulators reset exactly on a date change
            if not flattened:
                ob("reset:net_flows", value_same(F.get(self, "_net_flows"), ite(datechg, 0.0, E.get(self, "_net_flows"))), ("C03", "C07", "C08"))
                ob("reset:last_fee", value_same(F.get(self, "_last_fee"), ite(datechg, 0.0, E.get(self, "_last_fee"))), ("C07", "C08"))
                ob("reset:last_price", value_same(F.get(self, "_last_price"), ite(datechg, E.get(self, "_price"), E.get(self, "_last_price"))), ("C03", "C08", "C17"))
                ob("reset:last_value", value_same(F.get(self, "_last_value"), ite(datechg, E.get(self, "_value"), E.get(self, "_last_value"))), ("C03", "C08", "C02"))
                ob("reset:last_notl_value", value_same(F.get(self, "_last_notl_value"), ite(datechg, E.get(self, "_notl_value"), E.get(self, "_last_notl_value"))), ("C17", "C08"))
                ob("now-is-date", F.get(self, "now").eq(date), ("C08", "C01"))
                rt = F.get(self, "root")
                ob("root-not-stale", Not(F.get(rt, "stale")), ("C08",))
                # C02/C17: coupons parked on security children are swept into cash on a new date, once
                ob("capital-is-old-plus-swept", value_same(capF, capE + C), ("C02", "C07", "C17"))
                # C01: balance sheet identity (exact when rewritten, within the code's own is_zero otherwise)
                ident = valF - (capF + V)
                ob("identity:value=cash+children", is_zero(ident), ("C01", "C02"))
                ob("identity-exact-on-new-date", Implies(newpt0, value_same(valF, capF + V)), ("C01", "C02"))
                ob("identity:notional=sum-abs-children", is_zero(F.get(self, "_notl_value") - Nn), ("C01", "C17"))
                ob("value-not-nan", Not(isnan(valF)), ("C10",))
                # rows written at inow on every call
                ob("row:cash", value_same(F.hist_get(self, "_cash", i_eff), capF), ("C01", "C07", "C08"))
                ob("row:fees", value_same(F.hist_get(self, "_fees", i_eff), F.get(self, "_last_fee")), ("C07", "C08"))
                ob("row:flows", value_same(F.hist_get(self, "_all_flows", i_eff), F.get(self, "_net_flows")), ("C07", "C03", "C08"))
                rows_ok_E = And(
                    value_same(E.hist_get(self, "_values", i_eff), E.get(self, "_value")),
                    value_same(E.hist_get(self, "_notl_values", i_eff), E.get(self, "_notl_value")),
                    value_same(E.hist_get(self, "_prices", i_eff), E.get(self, "_price")),
                )
                keep = Or(newpt0, rows_ok_E)
                ob("row:value", Implies(keep, value_same(F.hist_get(self, "_values", i_eff), valF)), ("C01", "C08"))
                ob("row:notional", Implies(keep, value_same(F.hist_get(self, "_notl_values", i_eff), F.get(self, "_notl_value"))), ("C01", "C17", "C08"))
                ob("row:price", Implies(keep, value_same(F.hist_get(self, "_prices", i_eff), F.get(self, "_price"))), ("C03", "C08", "C09"))
                # C03 / C17: index recurrence
                Vt = capF + V
                # the index is a function of the value, the base and the date's flows: it has to be recomputed whenever one of them moved since the
                # last update of the date (the flows recorded by that update are in the date's row) - stated from the property, not from the code's
                # guard: before fix c60ffe2 the code looked at value and notional only and this clause was refuted (finding F17)
                rewritten = Or(newpt0, Not(is_zero(E.get(self, "_value") - Vt)), Not(is_zero(E.get(self, "_notl_value") - Nn)),
                               Not(is_zero(F.get(self, "_net_flows") - E.hist_get(self, "_all_flows", i_eff))))
                paper = E.get(self, "_paper_trade")
                lastv, flows, lastp = F.get(self, "_last_value"), F.get(self, "_net_flows"), F.get(self, "_last_price")
                bottom = lastv + flows
                ob("index:recurrence", Implies(And(rewritten, Not(fi_flag), Not(paper), Not(is_zero(bottom))), value_same(F.get(self, "_price"), lastp * (1 + (Vt / bottom - 1)))), ("C03", "C08"))      # C08: otherwise the index depends on where redundant updates fall
                ob("index:flat-on-zero-base", Implies(And(rewritten, Not(fi_flag), Not(paper), is_zero(bottom)), And(is_zero(Vt), value_same(F.get(self, "_price"), lastp))), ("C03", "C10"))
                ob("index:unchanged-when-not-rewritten", Implies(And(Not(rewritten), Not(paper)), value_same(F.get(self, "_price"), E.get(self, "_price"))), ("C03", "C08"))
                pnl = Vt - bottom
                lastn = F.get(self, "_last_notl_value")
                ob("fi-index:additive-on-last-notional", Implies(And(rewritten, fi_flag, Not(paper), Not(is_zero(lastn))), value_same(F.get(self, "_price"), lastp + pnl / lastn * 100)), ("C17",))
                ob("fi-index:fallback-current-notional", Implies(And(rewritten, fi_flag, Not(paper), is_zero(lastn), Not(is_zero(Nn))), value_same(F.get(self, "_price"), lastp + pnl / Nn * 100)), ("C17",))
                ob("fi-index:flat-on-zero-notional", Implies(And(rewritten, fi_flag, Not(paper), is_zero(lastn), is_zero(Nn)), And(is_zero(pnl), value_same(F.get(self, "_price"), lastp))), ("C17", "C10"))
                # C16: not flagged unless a market-value root goes (strictly) negative
                newly = And(F.get(self, "root").term == self.term, Vt < 0, Not(E.get(self, "bankrupt")), Not(fi_flag), Not(is_zero(Vt)))
                ob("bankrupt:not-flagged", And(Not(newly), F.get(self, "bankrupt") == E.get(self, "bankrupt")), ("C16",))
                # C01: weights of active children
                if has_children:
                    L2 = st.ghost.get("loop2_entry_heap", F)
                    ob(
                        "weights:child-weight-is-value-over-parent-value",
                        ForallInt(0, n, lambda j, F=F, Vt=Vt, Nn=Nn: Implies(_act2(F, self, j), value_same(F.get(_children(E, self, j), "_weight"), weight_spec(F, self, _children(E, self, j), Vt, Nn))), name="jw"),
                        ("C01", "C17"),
                    )
                # C09/C19: every strategy child's index is published in this node's universe at the current row
                m = E.list_len(self, "_strat_children")
                ob("universe:strategy-child-column-carries-child-index",
                   ForallInt(0, m, lambda j, F=F: Implies(E.get(self, "_has_strat_children"), value_same(F.hist_get(sc_child(E, self, j), "_ucol", Num(cs_idx(date), False, True)), F.get(sc_child(E, self, j), "_price"))), name="ju"),
                   ("C09", "C19"))
                # C09: a paper-traded sub-strategy takes its index from its paper copy, which is stepped exactly update;run;update on a new date
                paper = E.get(self, "_paper_trade")
                pp = E.get(self, "_paper")
                pcalls = [c for c in st.log if len(c) == 4 and dsl.is_z3(c[1].term) and (z3.eq(c[1].term, pp.term))]
                names = [c[0].rsplit(".", 2)[-2] + "." + c[0].rsplit(".", 1)[1] for c in pcalls]
                kinds = [c[0].rsplit(".", 1)[1] for c in pcalls]
                ob("paper:index-is-paper-copy-index", Implies(paper, value_same(F.get(self, "_price"), F.get(pp, "_price"))), ("C09",))
                ob("paper:row-price", Implies(paper, value_same(F.hist_get(self, "_prices", i_eff), F.get(self, "_price"))), ("C09", "C08"))
                core = [k for k in kinds if k in ("update", "run")]
                # the trace on the paper copy, ignoring a trailing refresh by the price getter
                want_new = ["update", "run", "update"]
                okn = core[:3] == want_new and all(k == "update" for k in core[3:])
                # a plain StrategyBase paper copy has an empty run() (inlined, not logged)
                okb = core[:2] == ["update", "update"] and all(k == "update" for k in core[2:])
                oko = all(k == "update" for k in core)
                plain = cls_f(pp.term) == E.schema.tag("StrategyBase")
                # ... unless the copy has gone bankrupt: a stand-alone backtest stops running a bankrupt strategy's algos (Backtest.run, C16), so the copy
                # is stepped update; [run; update only while solvent] - clause taken from the property (same index as stand-alone), refuted before fix
                # 47702cf (finding F18)
                norun = len(core) >= 1 and all(k == "update" for k in core)
                core_calls = [c for c in pcalls if c[0].rsplit(".", 1)[1] in ("update", "run")]
                ob("paper:stepped-update-run-update-on-new-date", Implies(And(paper, newpt0), Or(okn, And(okb, plain), norun)), ("C09",))
                if okn:
                    ob("paper:algos-run-only-while-the-copy-is-solvent", Implies(And(paper, newpt0), Not(core_calls[1][3].get(pp, "bankrupt"))), ("C09", "C16"))
                elif norun:
                    after_first = core_calls[1][3] if len(core_calls) > 1 else F
                    ob("paper:algos-skipped-only-once-the-copy-is-bankrupt", Implies(And(paper, newpt0, Not(plain)), after_first.get(pp, "bankrupt")), ("C09", "C16"))
                ob("paper:not-stepped-otherwise", Implies(And(paper, Not(newpt0)), oko and "run" not in core), ("C09", "C08"))
                for c in pcalls:
                    if c[0].endswith(".update") and c in pcalls[:3]:
                        ob("paper:stepped-on-the-same-date", Implies(paper, c[2][0].eq(date)), ("C09",))
                ob("paper:never-stepped-for-a-root", Implies(Not(paper), len(core) == 0), ("C09",))
                # C08 (a): a redundant update changes nothing on the node itself.  Precondition = what an earlier update(date) leaves behind and the
                # children still sum to: same date, tree not stale, recorded value / notional / spread equal cash + the children's current sums,
                # the rows of the date equal the scalars.  (The children's own idempotence is their contract: security lemma + recursion, A-IND.)
                rtE = E.get(self, "root")
                idem = And(Not(newpt0), Not(E.get(rtE, "stale")), value_same(E.get(self, "_value"), capE + V), value_same(E.get(self, "_notl_value"), Nn), rows_ok_E,
                           value_same(E.hist_get(self, "_cash", i_eff), capE), value_same(E.hist_get(self, "_fees", i_eff), E.get(self, "_last_fee")),
                           value_same(E.hist_get(self, "_all_flows", i_eff), E.get(self, "_net_flows")), Not(paper),
                           Implies(E.get(self, "_bidoffer_set"), And(value_same(E.get(self, "_bidoffer_paid"), B), value_same(E.hist_get(self, "_bidoffers_paid", i_eff), B))))
                for fld in ("_value", "_notl_value", "_price", "_capital", "_net_flows", "_last_value", "_last_notl_value", "_last_price", "_last_fee", "now", "_bidoffer_paid"):
                    ob("idempotent:%s" % fld, Implies(idem, value_same(F.get(self, fld), E.get(self, fld))), ("C08",))
                ob("idempotent:bankrupt-flag", Implies(idem, F.get(self, "bankrupt") == E.get(self, "bankrupt")), ("C08", "C16"))
                for hf in STRAT_HIST:
                    ob("idempotent:row:%s" % hf, Implies(idem, value_same(F.hist_get(self, hf, i_eff), E.hist_get(self, hf, i_eff))), ("C08",))
                # C08 append-only: own buffers change at most at row inow
                for hf in STRAT_HIST:
                    o = _skolem_hist_frame(F, E, self, hf, i_eff, "%s/append-only:%s" % (fname, hf), st.pc, ("C08",))
                    obligs.append(o)
                # frame: nothing outside self, the children's subtrees, root.stale, (paper) is written
                x = z3.Const(dsl.fresh_name("xfr"), dsl.Ref)
                outside = And(x != self.term, slot_f(self.term, x) == -1, treeof_f(x) == treeof_f(self.term))
                jx = Num(scpos_f(self.term, x), False, True)
                sc_inst = sc_schema(E, self).inst(jx)
                for key in sorted(F.maps.keys()):
                    a = F.maps[key]
                    b = E.ensure(key)
                    if map_same(a, b) or key == "stale":
                        continue
                    obligs.append(Oblig("%s/frame:%s" % (fname, key), list(st.pc) + [_zb(sc_inst)], Implies(outside, a.select(x) == b.select(x)), "post", ("C08", "C11")))
            else:
                # bankruptcy exits
                Vt = capE + C + V
                newly = And(F.get(self, "root").term == self.term, Not(E.get(self, "bankrupt")), Not(fi_flag))
                ob("bankrupt:flagged-only-when-negative-root", And(newly, F.get(self, "bankrupt")), ("C16",))
                if has_children:
                    L2E = st.ghost.get("loop2_entry")
                    rtF = F.get(self, "root")
                    ob("bankrupt:liquidation-recorded-before-update-returns(no-pending-change-if-any-child-is-active)",
                       ForallInt(0, n, lambda j, F=F, L2E=L2E: Implies(_act2(L2E if L2E is not None else F, self, j), Not(F.get(rtF, "stale"))), name="jb"), ("C16", "C08", "C01"))
            for o in obligs[nb:]:
                if not isinstance(o.goal, ForallInt):
                    o.group = xi
        s = z3.Solver()
        for p in st0.pc:
            s.add(p)
        fr.canary = str(s.check())
        discharge(obligs, timeout_ms, fr, contract.qualname)
        fr.stats = dict(feas_queries=ex.stats.feas_queries, feas_s=round(ex.stats.feas_time, 3), inlined=sorted(ex.stats.inlined), contracts_used=sorted(ex.stats.contracts_used))
    except Undecided as e:
        fr.undecided = str(e)
    except Exception as e:
        fr.undecided = "ENGINE-ERROR: %s\n%s" % (e, traceback.format_exc())
    return fr
