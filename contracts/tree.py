"""
Ghost functions for the tree invariant T and helpers that emit its *ground instances*.

slot(s, x)   index of the child of s whose subtree contains x, -1 when x is in no child's subtree of s
             (pairwise disjointness of the children's subtrees is exactly the functionality of slot)
cidx(c)      index of c in its parent's _childrenv
treeof(x)    the root object of the tree x belongs to (paper copies are separate trees)

Path conditions stay ground: these facts are instantiated for the references in scope (self, root,
the loop child, skolem children of schematic goals), never asserted with quantifiers.
"""
import z3

from pyvc import dsl
from pyvc.dsl import Num, And, Or, Not, Implies
from pyvc.heap import RefV, cls_f
from pyvc.contracts import ForallInt

slot_f = z3.Function("slot", dsl.Ref, dsl.Ref, z3.IntSort())
cidx_f = z3.Function("cidx", dsl.Ref, z3.IntSort())
treeof_f = z3.Function("treeof", dsl.Ref, dsl.Ref)

SEC_CLASSES = ("SecurityBase", "Security", "FixedIncomeSecurity", "CouponPayingSecurity", "HedgeSecurity", "CouponPayingHedgeSecurity")
STRAT_CLASSES = ("StrategyBase", "Strategy", "FixedIncomeStrategy")


def cls_in(schema, term, names):
    return Or(*[cls_f(term) == schema.tag(n) for n in names])


def self_facts(heap, s):
    """T instance for a strategy node s itself"""
    t = s.term
    root = heap.get(s, "root")
    parent = heap.get(s, "parent")
    f = [
        t != dsl.NONE,
        root.term != dsl.NONE,
        parent.term != dsl.NONE,
        slot_f(t, t) == -1,
        slot_f(t, root.term) == -1,
        slot_f(t, parent.term) == -1,
        heap.get(root, "root").term == root.term,
        heap.get(root, "parent").term == root.term,
        treeof_f(t) == root.term,
        treeof_f(root.term) == root.term,
        cls_in(heap.schema, root.term, STRAT_CLASSES),
        cls_in(heap.schema, parent.term, STRAT_CLASSES),
        Not(heap.get(s, "_issec")),
        Not(heap.get(root, "_issec")),
        # a node that is its own parent is the root, and vice versa
        (parent.term == t) == (root.term == t),
        Implies(parent.term != t, And(heap.get(parent, "root").term == root.term, slot_f(parent.term, t) == cidx_f(t), cidx_f(t) >= 0)),
    ]
    return f


def child_facts(heap, s, j):
    """T instance for the child of s at index j (j a Num / int term)"""
    c = heap.list_at(s, "_childrenv", j)
    ct = c.term
    sch = heap.schema
    root = heap.get(s, "root")
    issec = heap.get(c, "_issec")
    f = [
        ct != dsl.NONE,
        ct != s.term,
        heap.get(c, "parent").term == s.term,
        heap.get(c, "root").term == root.term,
        slot_f(s.term, ct) == Num.lift(j).r,
        cidx_f(ct) == Num.lift(j).r,
        treeof_f(ct) == root.term,
        cls_in(sch, ct, SEC_CLASSES + STRAT_CLASSES),
        issec == cls_in(sch, ct, SEC_CLASSES),
        heap.get(c, "_bidoffer_set") == heap.get(s, "_bidoffer_set"),
        heap.get(c, "integer_positions") == heap.get(s, "integer_positions"),
        # securities have no children; their paper flag is off
        Implies(issec, heap.list_len(c, "_childrenv").r == 0),
        heap.list_len(c, "_childrenv").r >= 0,
        Implies(Not(issec), heap.get(c, "_paper_trade")),
        # a fixed-income strategy child requires a fixed-income parent (guard in setup)
        Implies(And(Not(issec), heap.get(c, "_fixed_income")), heap.get(s, "_fixed_income")),
        # W: numeric state of a security is NaN-free (transact ignores NaN quantities; prices may be NaN)
        Implies(issec, And(*[Not(dsl.isnan(heap.get(c, f))) for f in ("_position", "multiplier", "_capital", "_bidoffer_paid", "_weight", "_outlay", "_last_pos")])),
        And(*[Not(dsl.isnan(heap.get(c, f))) for f in ("_value", "_notl_value")]),
        Implies(issec, dsl.ne(heap.get(c, "multiplier"), 0)),
    ]
    return f


def children_schema(heap, s):
    n = heap.list_len(s, "_childrenv")
    return ForallInt(0, n, lambda j: And(*child_facts(heap, s, j)), name="jc")
