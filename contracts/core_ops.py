"""
Strategy-level operations: rebalance / close / flatten / allocate / transact / _create_child_if_needed.

rebalance is verified against clauses over its ghost call log (which callee is invoked on which child
with which amount, computed from the state at the time of the call); the callees are used through
relational contracts (frames + the few facts callers need).  C06's sentences about resulting weights
are lemmas over these clauses and C05's allocate clauses (props/lemmas.py).
"""
import time
import traceback

import z3

from pyvc import dsl
from pyvc.dsl import Num, And, Or, Not, Implies, ite, absv, isnan, is_zero, eq, ne
from pyvc.heap import RefV, StrV
from pyvc.state import SpecState, Oblig, Undecided
from pyvc.contracts import RelationalContract, value_same
from pyvc.symexec import NONEV, _Raised
from .tree import slot_f, cidx_f, treeof_f, cls_in, SEC_CLASSES, STRAT_CLASSES
from .core_strat import update_modkeys

P06 = ("C06",)


def _zb(f):
    return z3.BoolVal(f) if isinstance(f, bool) else f


def named_child(heap, s, name):
    return heap.dict_at(s, "children", name, "Node")


def named_child_facts(heap, s, name):
    """T instance for the child of s registered under `name` (when present)"""
    c = named_child(heap, s, name)
    has = heap.dict_has(s, "children", name)
    sch = heap.schema
    issec = heap.get(c, "_issec")
    return Implies(
        has,
        And(
            c.term != dsl.NONE, c.term != s.term, heap.get(c, "parent").term == s.term, heap.get(c, "root").term == heap.get(s, "root").term,
            cidx_f(c.term) >= 0, slot_f(s.term, c.term) == cidx_f(c.term), treeof_f(c.term) == heap.get(s, "root").term,
            cls_in(sch, c.term, SEC_CLASSES + STRAT_CLASSES), issec == cls_in(sch, c.term, SEC_CLASSES),
            heap.get(c, "_bidoffer_set") == heap.get(s, "_bidoffer_set"),
            Not(isnan(heap.get(c, "_weight"))), Not(isnan(heap.get(c, "_value"))),
            Implies(issec, And(Not(isnan(heap.get(c, "multiplier"))), ne(heap.get(c, "multiplier"), 0), Not(isnan(heap.get(c, "_position"))))),
            # only coupon-paying securities carry the fixed_income flag among securities; strategies: child FI => parent FI
            Implies(And(Not(issec), heap.get(c, "_fixed_income")), heap.get(s, "_fixed_income")),
        ),
    )


def rebalance_amount_mv(weight, child_weight, base, self_value):
    """contract clause of StrategyBase.rebalance (market-value strategy): cash handed to the child =
    target weight x base minus the child's current holding (child weight x strategy value)"""
    return weight * base - child_weight * self_value


def rebalance_amount_fi(weight, child_weight, base, self_notional):
    return weight * base - child_weight * self_notional


def _havoc_sub(st, parent_term, k, keys=None):
    for key in keys or update_modkeys():
        st.heap.havoc(key, cond=lambda x: slot_f(parent_term, x) == k)


def _maybe_raise(st, name):
    s2 = st.fork()
    s2.assume(dsl.fresh_bool(name))
    return (s2, _Raised("Exception"))


# ------------------------------------------------------------------ callee contracts (relational)
def apply_create_child(ex, st, recv, args, exact=False):
    name = args[0]
    h = st.heap
    had = h.dict_has(recv, "children", name)
    # absent: a fresh security child is attached, set up and brought to the strategy's date: flat, weight 0
    newc = RefV(dsl.fresh_ref("lazy_child"), "SecurityBase")
    hasm = h.hasarr("children")
    chm = h.arr("children")
    old_row_has = hasm.select(recv.term)
    old_row = chm.select(recv.term)
    h.maps["children#has"] = hasm.store(recv.term, z3.Store(old_row_has, name.term, z3.BoolVal(True)))
    h.maps["children"] = chm.store(recv.term, z3.If(had, old_row, z3.Store(old_row, name.term, newc.term)))
    c = named_child(h, recv, name)
    st.assume(_zb(Implies(Not(had), And(c.term == newc.term, h.get(c, "_issec"), h.get(c, "_weight").eq(0), h.get(c, "_value").eq(0), h.get(c, "_position").eq(0),
                                        Not(isnan(h.get(c, "_weight"))), Not(h.get(c, "_fixed_income"))))))
    st.assume(_zb(named_child_facts(h, recv, name)))
    return [_maybe_raise(st, "create_child_raises"), (st, NONEV)]


def apply_close(ex, st, recv, args, exact=False):
    name, update = args
    h = st.heap
    c = named_child(h, recv, name)
    out = []
    # KeyError when the child is absent
    has = h.dict_has(recv, "children", name)
    for (s, b) in ex.branch(st, has):
        if not b:
            # not a child yet: a no-op when the name was declared (lazy child, after fix F21), KeyError otherwise
            for (s2, lz) in ex.branch(s, s.heap.dict_has(recv, "_lazy_children", name)):
                out.append((s2, NONEV) if lz else (s2, _Raised("KeyError")))
            continue
        hh = s.heap
        k = cidx_f(c.term)
        rt = hh.get(recv, "root")
        _havoc_sub(s, recv.term, k)
        for f in ("_capital", "_last_fee"):
            hh.havoc(f, cond=lambda x: x == recv.term)
            hh.havoc(f + "#nan", cond=lambda x: x == recv.term)
        upd = update if not isinstance(update, bool) else z3.BoolVal(update)
        hh.set(rt, "stale", Or(hh.get(rt, "stale"), upd))
        out.append(_maybe_raise(s, "close_raises"))
        out.append((s, NONEV))
    return out


def apply_strat_alloc(ex, st, recv, args, exact=False):
    """StrategyBase.allocate/transact(x, child=None, update=True) on a (sub)strategy: its subtree changes, its parent's
    cash accumulators change, root.stale is raised iff update"""
    h = st.heap
    parent = h.get(recv, "parent")
    k = cidx_f(recv.term)
    isroot = parent.term == recv.term
    cash = ("_capital", "_last_fee")
    for key in update_modkeys():
        base = key.split("#")[0]
        if base in cash:
            cond = lambda x: z3.If(isroot, treeof_f(x) == recv.term, Or(slot_f(parent.term, x) == k, x == parent.term))
        else:
            cond = lambda x: z3.If(isroot, treeof_f(x) == recv.term, slot_f(parent.term, x) == k)
        h.havoc(key, cond=cond)
    rt = h.get(recv, "root")
    upd = args[2] if len(args) > 2 else True
    upd = upd if not isinstance(upd, bool) else z3.BoolVal(upd)
    h.set(rt, "stale", Or(h.get(rt, "stale"), upd))
    return [_maybe_raise(st, "strategy_allocate_raises"), (st, NONEV)]


def apply_strat_transact(ex, st, recv, args, exact=False):
    return apply_strat_alloc(ex, st, recv, args, exact)


def _apply_rebalance_proxy(ex, st, recv, args, exact=False):
    from .algos_rebalance import apply_rebalance

    return apply_rebalance(ex, st, recv, args, exact)


def verify_strat_allocate_proxy(ex, contract, timeout_ms=30000):
    return verify_strat_allocate(ex, contract, timeout_ms=timeout_ms)


def _verify_strat_transact(ex, contract, timeout_ms=30000):
    return verify_strat_transact(ex, contract, timeout_ms)


def _verify_close(ex, contract, timeout_ms=30000):
    return verify_close(ex, contract, timeout_ms)


def _verify_create_child(ex, contract, timeout_ms=30000):
    from .core_tree import verify_create_child

    return verify_create_child(ex, contract, timeout_ms)


def contracts():
    return [
        (RelationalContract("bt.core.StrategyBase._create_child_if_needed", [("child", "str")], apply_create_child, self_cls="StrategyBase", note="ensures the named child exists; a newly attached lazy child is a flat security with weight 0"), _verify_create_child),
                (RelationalContract("bt.core.StrategyBase.close", [("child", "str"), ("update", "bool")], apply_close, self_cls="StrategyBase", note="modifies the child's subtree, own cash/fees, root.stale; body verified by verify_close"), _verify_close),
        (RelationalContract("bt.core.StrategyBase.allocate", [("amount", "float"), ("child", "optstr"), ("update", "bool")], apply_strat_alloc, self_cls="StrategyBase", note="parent debited / self credited once (flow only for self), each child receives amount x weight with update=False; see verify_strat_allocate"), verify_strat_allocate_proxy),
        (RelationalContract("bt.core.StrategyBase.transact", [("q", "float"), ("child", "optstr"), ("update", "bool")], apply_strat_transact, self_cls="StrategyBase", note="modifies own subtree and the parent's cash; body verified by verify_strat_transact"), _verify_strat_transact),
        (RelationalContract("bt.core.StrategyBase.rebalance", [("weight", "float"), ("child", "str"), ("base", "float"), ("update", "bool")], _apply_rebalance_proxy, self_cls="StrategyBase", note="see verify_rebalance"), verify_rebalance),
    ]


# ------------------------------------------------------------------ StrategyBase.rebalance
def verify_rebalance(ex, contract, timeout_ms=30000):
    from pyvc.verify import FuncReport, discharge, entry_state
    from .tree import self_facts

    fr = FuncReport(contract.qualname)
    try:
        fi = ex.prog.func(contract.qualname)
        fr.source_hash = fi.source_hash()
        st0, self, args = entry_state(ex, contract)
        weight, child, base, update = args
        E = st0.heap
        for f in self_facts(E, self):
            st0.assume(_zb(f))
        st0.assume(_zb(named_child_facts(E, self, child)))
        st0.assume(_zb(Not(isnan(weight))))
        for f in ("_value", "_notl_value"):
            st0.assume(_zb(Not(isnan(E.get(self, f)))))
        E = st0.heap.copy()
        t0 = time.time()
        exits = ex.run_function(fi, st0.fork(), self, args)
        fr.symexec_s = time.time() - t0
        fr.paths = len(exits)
        obligs = []
        fi_flag = E.get(self, "_fixed_income")
        for xi, (st, oc) in enumerate(exits):
            kind = oc.kind if oc.kind != "raise" else "raise:" + oc.exc
            fr.exits[kind] = fr.exits.get(kind, 0) + 1
            obligs.extend(st.obligs)
            if oc.kind == "raise":
                continue
            calls = [c for c in st.log if len(c) == 4 and c[0].rsplit(".", 1)[1] in ("allocate", "transact", "close")]
            trades = [c for c in calls if c[0].rsplit(".", 1)[1] in ("allocate", "transact")]
            closes = [c for c in calls if c[0].endswith(".close")]

            def ob(cid, goal, props=P06):
                obligs.append(Oblig("StrategyBase.rebalance/%s" % cid, st.pc, goal, "post", props))

            zero = is_zero(weight)
            had = E.dict_has(self, "children", child)
            # zero target weight: close the child if it exists, otherwise do nothing at all
            ob("zero-weight:no-trade", Implies(zero, len(trades) == 0))
            ob("zero-weight:close-iff-child-exists", Implies(zero, had == (len(closes) == 1)) if len(closes) <= 1 else False)
            ob("nonzero-weight:exactly-one-trade-no-close", Implies(Not(zero), And(len(trades) == 1, len(closes) == 0)), ("C06", "C03"))
            if closes:
                c0 = closes[0]
                ob("close-args", And(c0[1].term == self.term, c0[2][0].term == child.term, value_same(c0[2][1], update)))
            if len(trades) == 1:
                q, recv, a, H = trades[0]
                c = named_child(H, self, child)
                ob("trade-is-on-the-named-child", recv.term == c.term)
                # base defaults to the strategy's current (notional) value, read after any pending refresh
                base_eff = ite(isnan(base), ite(fi_flag, H.get(self, "_notl_value"), H.get(self, "_value")), base)
                wc = H.get(c, "_weight")
                mv_amount = rebalance_amount_mv(weight, wc, base_eff, H.get(self, "_value"))
                fi_amount = rebalance_amount_fi(weight, wc, base_eff, H.get(self, "_notl_value"))
                amt = a[0]
                ob("amount:market-value-strategy", Implies(Not(fi_flag), value_same(amt, mv_amount)), ("C06", "C03"))   # homogeneous in (base, value): no absolute currency threshold
                ob("amount:fixed-income-strategy", Implies(fi_flag, value_same(amt, fi_amount)), ("C06", "C17"))
                # which operation: notional transact for fixed-income children of fixed-income strategies, cash allocate otherwise
                is_tr = q.endswith(".transact")
                ob("operation:transact-iff-fi-child-of-fi-strategy", And(fi_flag, H.get(c, "_fixed_income")) == is_tr, ("C06", "C17"))
                upd_arg = a[1] if q.endswith("SecurityBase.allocate") or q.endswith("SecurityBase.transact") else a[2]
                ob("update-flag-passed-down", value_same(upd_arg, update), ("C06", "C08"))
                # the weight and the (notional) value that enter the amount are read through their refreshing accessors: whatever was pending
                # at entry has been resolved by the time the trade is sized
                rt = H.get(self, "root")
                ob("amount-is-sized-on-a-refreshed-tree", Not(H.get(rt, "stale")), ("C06", "C17", "C08"))
        s = z3.Solver()
        for p in st0.pc:
            s.add(p)
        fr.canary = str(s.check())
        discharge(obligs, timeout_ms, fr, contract.qualname)
        fr.stats = dict(feas_queries=ex.stats.feas_queries, feas_s=round(ex.stats.feas_time, 3), inlined=sorted(ex.stats.inlined), contracts_used=sorted(ex.stats.contracts_used))
    except Undecided as e:
        fr.undecided = str(e)
    except Exception as e:
        fr.undecided = "ENGINE-ERROR: %s\n%s" % (e, traceback.format_exc())
    return fr


# ------------------------------------------------------------------ StrategyBase.flatten
from pyvc.contracts import LoopSpec, ForallInt  # noqa: E402
from .tree import child_facts, children_schema, self_facts  # noqa: E402


def _I_child(heap, s, j):
    """I instance for a security child: it is on the strategy's date with its position recorded, value marked to price"""
    c = heap.list_at(s, "_childrenv", j)
    issec = heap.get(c, "_issec")
    return Implies(issec, And(heap.get(c, "now").eq(heap.get(s, "now")), eq(heap.get(c, "_last_pos"), heap.get(c, "_position")),
                              Or(Not(heap.get(c, "_needupdate")), True)))


def _flat_inv(ctx):
    st, E = ctx.cur, ctx.entry.heap
    self = ctx.entry.locals["self"]
    h = st.heap
    c = lambda j: E.list_at(self, "_childrenv", j)
    rt = h.get(self, "root")
    liquidated = lambda j: Implies(And(E.get(c(j), "_issec"), Not(is_zero(E.get(c(j), "_value"))), Not(is_zero(E.get(c(j), "_position"))), Not(is_zero(E.get(c(j), "_price"))), Not(isnan(E.get(c(j), "_price")))),
                                   h.get(c(j), "_position").eq(0))
    return [
        ("root-not-stale-during-liquidation", Not(h.get(rt, "stale"))),
        ("processed-securities-are-flat", ForallInt(0, ctx.i, liquidated, name="jl")),
    ]


def _flat_havoc(ctx):
    self = ctx.entry.locals["self"]

    def sub(i):
        i = Num.lift(i)
        return lambda x: And(slot_f(self.term, x) >= 0, slot_f(self.term, x) < i.r)

    def sub_or_self(i):
        i = Num.lift(i)
        return lambda x: Or(And(slot_f(self.term, x) >= 0, slot_f(self.term, x) < i.r), x == self.term)

    out = []
    for k in update_modkeys():
        base = k.split("#")[0]
        out.append((k, sub_or_self if base in ("_capital", "_last_fee", "_net_flows") else sub))
    return out


def _flat_on_iter(ctx, c):
    st = ctx.cur
    self = st.locals["self"]
    for f in child_facts(ctx.entry.heap, self, ctx.i):
        st.assume(_zb(f))
    st.assume(_zb(_I_child(ctx.entry.heap, self, ctx.i)))
    for sch in st.ghost.get("schemas", []):
        if getattr(sch, "name", "") == "jz":
            st.assume(_zb(sch.inst(ctx.i)))


FLAT_FI = LoopSpec(lambda ctx: [], havoc_heap=_flat_havoc, on_iter=_flat_on_iter, name="flatten (fixed income): transact(-position)", mentions=["transact"])
FLAT_MV = LoopSpec(_flat_inv, havoc_heap=_flat_havoc, on_iter=_flat_on_iter, name="flatten: allocate(-value)", mentions=["allocate"])


def verify_flatten(ex, contract, timeout_ms=30000):
    from pyvc.verify import FuncReport, discharge, entry_state

    fr = FuncReport(contract.qualname)
    try:
        fi = ex.prog.func(contract.qualname)
        fr.source_hash = fi.source_hash()
        st0, self, args = entry_state(ex, contract)
        E = st0.heap
        for f in self_facts(E, self):
            st0.assume(_zb(f))
        rt = E.get(self, "root")
        st0.assume(_zb(Not(E.get(rt, "stale"))))
        E = st0.heap.copy()
        # verified for nodes whose strategy children are empty (one level of liquidation); deeper trees: the recursive call's
        # own contract (A-IND) plus the bounded stand-in c16_bankruptcy(nested=True)
        leaf = ForallInt(0, E.list_len(self, "_childrenv"), lambda j: Or(E.get(E.list_at(self, "_childrenv", j), "_issec"), E.list_len(E.list_at(self, "_childrenv", j), "_childrenv").eq(0)), name="jz")
        st0.ghost["schemas"] = [children_schema(E, self), ForallInt(0, E.list_len(self, "_childrenv"), lambda j: _I_child(E, self, j), name="ji"), leaf]
        t0 = time.time()
        exits = ex.run_function(fi, st0.fork(), self, [])
        fr.symexec_s = time.time() - t0
        fr.paths = len(exits)
        obligs = []
        n = E.list_len(self, "_childrenv")
        c = lambda j: E.list_at(self, "_childrenv", j)
        for xi, (st, oc) in enumerate(exits):
            kind = oc.kind if oc.kind != "raise" else "raise:" + oc.exc
            fr.exits[kind] = fr.exits.get(kind, 0) + 1
            obligs.extend(st.obligs)
            if oc.kind == "raise":
                continue
            F = st.heap

            def ob(cid, goal, props):
                o = Oblig("StrategyBase.flatten/%s" % cid, st.pc, goal, "post", props)
                o.schemas = list(st.ghost.get("schemas", []))
                obligs.append(o)

            ob("marks-root-stale", F.get(F.get(self, "root"), "stale"), ("C01", "C08", "C16"))
            ob("every-priced-security-child-is-flat", ForallInt(0, n, lambda j, F=F: Implies(
                And(Not(E.get(self, "_fixed_income")), E.get(c(j), "_issec"), Not(is_zero(E.get(c(j), "_value"))), Not(is_zero(E.get(c(j), "_position"))), Not(is_zero(E.get(c(j), "_price"))), Not(isnan(E.get(c(j), "_price")))),
                F.get(c(j), "_position").eq(0)), name="jl"), ("C16", "C06"))
            x = z3.Const(dsl.fresh_name("xfr"), dsl.Ref)
            outside = And(x != self.term, slot_f(self.term, x) == -1, x != rt.term)
            for key in sorted(F.maps.keys()):
                a, b = F.maps[key], E.ensure(key)
                from pyvc.heap import map_same

                if map_same(a, b):
                    continue
                obligs.append(Oblig("StrategyBase.flatten/frame:%s" % key, st.pc, Implies(outside, a.select(x) == b.select(x)), "post", ("C08", "C11")))
        s = z3.Solver()
        for p in st0.pc:
            s.add(p)
        fr.canary = str(s.check())
        discharge(obligs, timeout_ms, fr, contract.qualname)
        fr.stats = dict(feas_queries=ex.stats.feas_queries, feas_s=round(ex.stats.feas_time, 3), inlined=sorted(ex.stats.inlined), contracts_used=sorted(ex.stats.contracts_used))
    except Undecided as e:
        fr.undecided = str(e)
    except Exception as e:
        fr.undecided = "ENGINE-ERROR: %s\n%s" % (e, traceback.format_exc())
    return fr


def _flat_pre_havoc(ctx):
    self = ctx.entry.locals["self"]

    def sub(i):
        i = Num.lift(i)
        return lambda x: And(slot_f(self.term, x) >= 0, slot_f(self.term, x) < i.r)

    rt = ctx.entry.heap.get(self, "root")
    return [(k, sub) for k in update_modkeys()] + [("stale", lambda i: (lambda x: x == rt.term))]


# loop 0: sub-strategies flatten their own children first (recursive use of flatten's contract: subtree + root.stale)
FLAT_PRE = LoopSpec(lambda ctx: [], havoc_heap=lambda ctx: [], on_iter=_flat_on_iter, name="flatten sub-strategies first (no-op for one-level trees: proved untouched)", mentions=["flatten"])


def _flat_subs_inv(ctx):
    """nested trees: the pre-loop hands every strategy child that has children of its own - whatever its value, its cash or its weight - to its
    own flatten(), exactly once, and calls nothing else"""
    out = []
    if ctx.phase == "step":
        st, E = ctx.cur, ctx.entry.heap
        self = ctx.entry.locals["self"]
        c = E.list_at(self, "_childrenv", ctx.i - 1)
        has_kids = And(Not(E.get(c, "_issec")), Not(E.list_len(c, "_childrenv").eq(0)))
        new = [x for x in st.log[len(ctx.head.log):] if len(x) == 4]
        fl = [x for x in new if x[0].endswith(".flatten")]
        out.append(("nothing-but-flatten-is-called-on-sub-strategies", len(new) == len(fl)))
        if len(fl) == 0:
            out.append(("a-sub-strategy-with-children-is-flattened-whatever-its-value", Not(has_kids)))
        elif len(fl) == 1:
            out.append(("flatten-is-called-on-the-child-itself", fl[0][1].term == c.term))
            out.append(("only-nodes-with-children-are-flattened-recursively", has_kids))
        else:
            out.append(("a-sub-strategy-is-flattened-once", False))
    return out


FLAT_PRE_SUBS = LoopSpec(_flat_subs_inv, havoc_heap=_flat_pre_havoc, on_iter=_flat_on_iter, name="flatten sub-strategies first (nested trees: one recursive call per sub-strategy that has children)", mentions=["flatten"])


def verify_flatten_subs(ex, contract, timeout_ms=30000):
    """the liquidation pre-loop of StrategyBase.flatten on trees of any depth: only that loop statement of the real body is executed (the recursive
    call through flatten's own contract: havoc of the child's subtree, root.stale set, call logged); the loops after it are verify_flatten's"""
    import ast as _ast
    from pyvc.verify import FuncReport, discharge, entry_state

    q = contract.qualname
    fr = FuncReport(q)
    try:
        fi = ex.prog.func(q)
        fr.source_hash = fi.source_hash()
        st0, self, args = entry_state(ex, contract)
        E = st0.heap
        for f in self_facts(E, self):
            st0.assume(_zb(f))
        rt = E.get(self, "root")
        st0.assume(_zb(Not(E.get(rt, "stale"))))
        E = st0.heap.copy()
        st0.ghost["schemas"] = [children_schema(E, self), ForallInt(0, E.list_len(self, "_childrenv"), lambda j: _I_child(E, self, j), name="ji")]
        loops = [s_ for s_ in fi.body() if isinstance(s_, _ast.For) and FLAT_PRE_SUBS.match(s_)]
        if len(loops) != 1:
            raise Undecided("flatten: expected one top-level loop that hands sub-strategies to their own flatten(), found %d" % len(loops))
        st = st0.fork()
        st.locals = {fi.node.args.args[0].arg: self}
        ex.cur_func.append(q)
        ords = ex.loop_ordinals(fi)
        ex.loop_counter.append(ords)
        saved = {k: v for k, v in ex.loop_specs.items() if k[0] == q}
        for k in saved:
            ex.loop_specs.pop(k)
        ex.loop_specs[(q, ords[id(loops[0])])] = FLAT_PRE_SUBS
        t0 = time.time()
        try:
            exits = ex.exec_block([loops[0]], st)
        finally:
            ex.cur_func.pop()
            ex.loop_counter.pop()
            ex.loop_specs.pop((q, ords[id(loops[0])]), None)
            ex.loop_specs.update(saved)
        fr.symexec_s = time.time() - t0
        fr.paths = len(exits)
        obligs = []
        for (st, oc) in exits:
            kind = oc.kind if oc.kind != "raise" else "raise:" + oc.exc
            fr.exits[kind] = fr.exits.get(kind, 0) + 1
            obligs.extend(st.obligs)
        seen, uniq = set(), []
        for o in obligs:
            if id(o) not in seen:
                seen.add(id(o))
                o.props = ("C16",)
                uniq.append(o)
        s = z3.Solver()
        for p in st0.pc:
            s.add(p)
        fr.canary = str(s.check())
        discharge(uniq, timeout_ms, fr, q)
        fr.stats = dict(feas_queries=ex.stats.feas_queries, feas_s=round(ex.stats.feas_time, 3), inlined=sorted(ex.stats.inlined), contracts_used=sorted(ex.stats.contracts_used))
    except Undecided as e:
        fr.undecided = str(e)
    except Exception as e:
        fr.undecided = "ENGINE-ERROR: %s\n%s" % (e, traceback.format_exc())
    return fr


LOOPS = {("bt.core.StrategyBase.flatten", 0): FLAT_PRE, ("bt.core.StrategyBase.flatten", 1): FLAT_FI, ("bt.core.StrategyBase.flatten", 2): FLAT_MV}


# ------------------------------------------------------------------ StrategyBase.allocate
def _salloc_inv(ctx):
    st, E = ctx.cur, ctx.entry.heap
    self = ctx.entry.locals["self"]
    amount = ctx.entry.locals["amount"]
    out = []
    rt = st.heap.get(self, "root")
    out.append(("stale-flag-untouched-by-children", st.heap.get(rt, "stale") == E.get(rt, "stale")))
    out.append(("own-flows-untouched-by-children", value_same(st.heap.get(self, "_net_flows"), E.get(self, "_net_flows"))))
    if ctx.phase == "step":
        ih = ctx.i - 1
        c = E.list_at(self, "_childrenv", ih)
        new = [x for x in st.log[len(ctx.head.log):] if len(x) == 4 and x[0].endswith(".allocate")]
        out.append(("each-child-allocated-exactly-once", len(new) == 1))
        if len(new) == 1:
            q, recv, a, H = new[0]
            out.append(("child-receives-amount-times-its-weight", And(recv.term == c.term, value_same(a[0], amount * E.get(c, "_weight")))))
            upd = a[1] if q.endswith("SecurityBase.allocate") else a[2]
            out.append(("children-allocated-without-update", upd is False or (upd is not True and Not(upd))))
    return out


def _salloc_havoc(ctx):
    self = ctx.entry.locals["self"]

    def sub(i):
        i = Num.lift(i)
        return lambda x: And(slot_f(self.term, x) >= 0, slot_f(self.term, x) < i.r)

    def sub_or_self(i):
        i = Num.lift(i)
        return lambda x: Or(And(slot_f(self.term, x) >= 0, slot_f(self.term, x) < i.r), x == self.term)

    out = []
    for k in update_modkeys():
        base = k.split("#")[0]
        out.append((k, sub_or_self if base in ("_capital", "_last_fee") else sub))
    return out


SALLOC_LOOP = LoopSpec(_salloc_inv, havoc_heap=_salloc_havoc, on_iter=_flat_on_iter, name="push allocation down by child weight")
LOOPS[("bt.core.StrategyBase.allocate", 0)] = SALLOC_LOOP


def verify_strat_allocate(ex, contract, timeout_ms=30000):
    from pyvc.verify import FuncReport, discharge, entry_state

    fr = FuncReport(contract.qualname)
    try:
        fi = ex.prog.func(contract.qualname)
        fr.source_hash = fi.source_hash()
        st0, self, args = entry_state(ex, contract)
        amount, child, update = args
        E = st0.heap
        for f in self_facts(E, self):
            st0.assume(_zb(f))
        st0.assume(_zb(Not(isnan(amount))))
        from pyvc.heap import Opt

        parent = E.get(self, "parent")
        for f in ("_capital", "_net_flows", "_last_fee"):
            st0.assume(_zb(And(Not(isnan(E.get(self, f))), Not(isnan(E.get(parent, f))))))
        if isinstance(child, Opt):
            st0.assume(_zb(Implies(Not(child.isnone), named_child_facts(E, self, child.val))))
        E = st0.heap.copy()
        st0.ghost["schemas"] = [children_schema(E, self), ForallInt(0, E.list_len(self, "_childrenv"), lambda j: _I_child(E, self, j), name="ji")]
        t0 = time.time()
        exits = ex.run_function(fi, st0.fork(), self, args)
        fr.symexec_s = time.time() - t0
        fr.paths = len(exits)
        obligs = []
        rt = E.get(self, "root")
        isroot = parent.term == self.term
        for xi, (st, oc) in enumerate(exits):
            kind = oc.kind if oc.kind != "raise" else "raise:" + oc.exc
            fr.exits[kind] = fr.exits.get(kind, 0) + 1
            obligs.extend(st.obligs)
            if oc.kind == "raise":
                continue
            F = st.heap
            calls = [c for c in st.log if len(c) == 4 and c[0].endswith(".allocate")]

            def ob(cid, goal, props):
                obligs.append(Oblig("StrategyBase.allocate/%s" % cid, st.pc, goal, "post", props))

            nochild = child.isnone if isinstance(child, Opt) else (child is NONEV)
            # directed at a named child: exactly one allocate(amount) on that child, nothing booked on self
            if isinstance(child, Opt):
                ob("named-child:single-allocate-of-the-amount", Implies(Not(nochild), And(len(calls) == 1, (calls[0][1].term == named_child(calls[0][3], self, child.val).term) if calls else False, value_same(calls[0][2][0], amount) if calls else False)), ("C06", "C02"))
            # to self: the parent is debited and self credited once; a flow for self, never a flow for a parent strategy
            ob("self:credited-as-flow", Implies(nochild, value_same(F.get(self, "_net_flows"), E.get(self, "_net_flows") + z3.If(isroot, 0, 1) * amount) if False else value_same(F.get(self, "_net_flows"), ite(isroot, E.get(self, "_net_flows"), E.get(self, "_net_flows") + amount))), ("C02", "C03", "C07"))
            ob("parent:debited-once-not-a-flow", Implies(And(nochild, Not(isroot)), And(value_same(F.get(parent, "_capital"), E.get(parent, "_capital") - amount), value_same(F.get(parent, "_net_flows"), E.get(parent, "_net_flows")), value_same(F.get(parent, "_last_fee"), E.get(parent, "_last_fee")))), ("C02", "C07", "C06"))
            upd = update if not isinstance(update, bool) else z3.BoolVal(update)
            ob("stale-iff-update", Implies(nochild, F.get(rt, "stale") == Or(E.get(rt, "stale"), upd)), ("C08",))
            x = z3.Const(dsl.fresh_name("xfr"), dsl.Ref)
            outside = And(x != self.term, slot_f(self.term, x) == -1, x != rt.term, x != parent.term)
            from pyvc.heap import map_same

            for key in sorted(F.maps.keys()):
                a, b = F.maps[key], E.ensure(key)
                if map_same(a, b) or key.startswith("children") or key.startswith("dct#"):
                    continue
                obligs.append(Oblig("StrategyBase.allocate/frame:%s" % key, st.pc, Implies(And(nochild, outside), a.select(x) == b.select(x)), "post", ("C08", "C11", "C07")))
        s = z3.Solver()
        for p in st0.pc:
            s.add(p)
        fr.canary = str(s.check())
        discharge(obligs, timeout_ms, fr, contract.qualname)
        fr.stats = dict(feas_queries=ex.stats.feas_queries, feas_s=round(ex.stats.feas_time, 3), inlined=sorted(ex.stats.inlined), contracts_used=sorted(ex.stats.contracts_used))
    except Undecided as e:
        fr.undecided = str(e)
    except Exception as e:
        fr.undecided = "ENGINE-ERROR: %s\n%s" % (e, traceback.format_exc())
    return fr


# ------------------------------------------------------------------ StrategyBase.close (body against its clauses)
def verify_close(ex, contract, timeout_ms=30000):
    """close(child, update), on a fresh or a stale tree (a stale tree is refreshed by the first value read, so every quantity below is the one
    after that refresh): KeyError iff the name is not a child; otherwise, for a security child,
      market-value strategy: nothing is traded when the child's value is zero or NaN; else exactly one c.allocate(-value, update) - whose
        close-out clause leaves the position at zero (priced child) - and nothing else;
      fixed-income strategy: nothing when the position is zero; else exactly one c.transact(-position, update): position zero afterwards;
    a strategy child that has children is flattened first.  Nothing outside the strategy, the child's subtree and root.stale is written
    (the whole tree when a refresh happened)."""
    from pyvc.verify import FuncReport, discharge, entry_state

    fr = FuncReport(contract.qualname)
    name = "StrategyBase.close"
    PC = ("C06", "C16", "C20")
    try:
        fi = ex.prog.func(contract.qualname)
        fr.source_hash = fi.source_hash()
        st0, self, args = entry_state(ex, contract)
        child, update = args
        E = st0.heap
        for f in self_facts(E, self):
            st0.assume(_zb(f))
        rt = E.get(self, "root")
        st0.assume(_zb(named_child_facts(E, self, child)))
        c = named_child(E, self, child)
        has = E.dict_has(self, "children", child)
        issec = E.get(c, "_issec")
        st0.assume(_zb(Implies(And(has, issec), E.list_len(c, "_childrenv").eq(0))))
        # on a fresh tree a security child is on the strategy's date with its position recorded (I instance); a stale tree gets there by its refresh
        st0.assume(_zb(Implies(And(has, issec, Not(E.get(rt, "stale"))), And(E.get(c, "now").eq(E.get(self, "now")), eq(E.get(c, "_last_pos"), E.get(c, "_position"))))))
        E = st0.heap.copy()
        t0 = time.time()
        exits = ex.run_function(fi, st0.fork(), self, args)
        fr.symexec_s = time.time() - t0
        fr.paths = len(exits)
        obligs = []
        fi_strat = E.get(self, "_fixed_income")
        for xi, (st, oc) in enumerate(exits):
            kind = oc.kind if oc.kind != "raise" else "raise:" + oc.exc
            fr.exits[kind] = fr.exits.get(kind, 0) + 1
            obligs.extend(st.obligs)
            F = st.heap

            extra_pc = []

            def ob(cid, goal, props=PC):
                obligs.append(Oblig("%s/%s" % (name, cid), list(st.pc) + extra_pc, goal, "post", props))

            if oc.kind == "raise":
                if oc.exc == "KeyError":
                    ob("keyerror-only-for-an-unknown-child", And(Not(has), Not(E.dict_has(self, "_lazy_children", child))), PC + ("C19",))
                continue
            # a child declared by name only and not created yet behaves like one constructed up front: closing it is a no-op, not a KeyError
            # (property C19; the code raised KeyError before fix F21)
            lazy = E.dict_has(self, "_lazy_children", child)
            ob("completes-only-for-a-child-or-a-declared-one", Or(has, lazy))
            ob("declared-but-unused-child:closing-it-does-nothing", Implies(And(Not(has), lazy), len([x for x in st.log if len(x) in (3, 4)]) == 0), PC + ("C19",))
            allcalls = [x for x in st.log if len(x) in (3, 4)]
            root_refresh = [x for x in allcalls if x[0].endswith("StrategyBase.update")]
            if root_refresh:
                # update re-establishes the invariants (its own postcondition I): instance for the named child in the refreshed state
                k0 = allcalls.index(root_refresh[-1])
                after = allcalls[k0 + 1][3] if (k0 + 1 < len(allcalls) and len(allcalls[k0 + 1]) == 4) else F
                ca = named_child(after, self, child)
                extra_pc += [_zb(named_child_facts(after, self, child)),
                             _zb(Implies(And(has, after.get(ca, "_issec")), And(after.get(ca, "now").eq(after.get(self, "now")), eq(after.get(ca, "_last_pos"), after.get(ca, "_position")), Not(after.get(after.get(self, "root"), "stale")))))]
            refreshed = bool(root_refresh)
            calls = [x for x in allcalls if not x[0].endswith(".update")]
            names = [x[0].rsplit(".", 1)[1] for x in calls]
            sec = And(has, issec)
            trades = [x for x in calls if x[0].endswith(".allocate") or (x[0].endswith(".transact") and len(x) == 4)]
            # the state the trade decision is taken in: right before the trade (after any refresh), or the final state when nothing was traded
            H = trades[0][3] if trades else F
            val, pos, prc = H.get(c, "_value"), H.get(c, "_position"), H.get(c, "_price")
            dbg = ("[" + ",".join(names) + "]") if __import__("os").environ.get("DBG_CLOSE") else ""
            ob("mv-security:a-stale-tree-is-refreshed-before-the-child's-value-is-used", Implies(And(sec, Not(fi_strat), E.get(rt, "stale"), bool(trades)), refreshed))
            ob("mv-security:nothing-traded-when-value-is-zero-or-nan", Implies(And(sec, Not(fi_strat), Or(val.eq(0), isnan(val))), len(calls) == 0))
            ob("mv-security:otherwise-exactly-one-allocate(-value, update)" + dbg, Implies(And(sec, Not(fi_strat), Not(val.eq(0)), Not(isnan(val))), names == ["allocate", "transact"]))   # allocate's contract logs the transact it delegates to
            if names == ["allocate", "transact"] or names == ["transact"]:
                first = calls[0]
                upd = update if not isinstance(update, bool) else z3.BoolVal(update)
                a0, u0 = first[2][0], first[2][1]
                u0 = u0 if not isinstance(u0, bool) else z3.BoolVal(u0)
                want = -val if names[0] == "allocate" else -pos
                ob("the-trade-is-minus-the-child's-current-value-(position)-with-the-caller's-update-flag", Implies(sec, And(first[1].term == c.term, value_same(a0, want), u0 == upd)))
            ob("fi-security:nothing-traded-when-flat", Implies(And(sec, fi_strat, pos.eq(0)), len(calls) == 0))
            # zero up to the code's own is_zero (transact ignores quantities below TOL)
            ob("security:position-is-zero-afterwards" + dbg, Implies(And(sec, Or(fi_strat, And(Not(is_zero(val)), Not(isnan(val)), Not(is_zero(prc)), Not(isnan(prc))))), is_zero(F.get(c, "_position"))))
            ob("security:flat-child-stays-flat", Implies(And(sec, is_zero(pos)), is_zero(F.get(c, "_position"))))
            # a sub-strategy child: its own children are liquidated first (one flatten() on the child, iff it has children); what is then withdrawn
            # is the child's value AFTER that liquidation has been refreshed - read through the refreshing accessor, not a value remembered from before
            # under a fixed-income parent a sub-strategy is liquidated by flattening its children and nothing else is traded (it raised AttributeError
            # before fix F26: a strategy has no position)
            fi_sub = And(has, Not(issec), fi_strat)
            ob("fi-strategy-child:flattened-iff-it-has-children-and-nothing-else-is-called", Implies(fi_sub, And(Not(E.list_len(c, "_childrenv").eq(0)) == (len([x_ for x_ in calls if x_[0].endswith(".flatten")]) == 1), len([x_ for x_ in calls if not x_[0].endswith(".flatten")]) == 0)), PC + ("C17",))
            strat = And(has, Not(issec), Not(fi_strat))
            kids = Not(E.list_len(c, "_childrenv").eq(0))
            flats = [x_ for x_ in calls if x_[0].endswith(".flatten")]
            ob("strategy-child:its-own-children-are-flattened-first-iff-it-has-any", Implies(strat, kids == (len(flats) == 1)) if len(flats) <= 1 else Not(strat))
            if flats:
                ob("strategy-child:flatten-is-called-on-the-child-before-any-withdrawal", Implies(strat, And(flats[0][1].term == c.term, calls.index(flats[0]) == 0)))
            ob("strategy-child:nothing-withdrawn-when-its-value-is-zero-or-nan", Implies(And(strat, Or(val.eq(0), isnan(val))), len(trades) == 0))
            ob("strategy-child:otherwise-exactly-one-withdrawal", Implies(And(strat, Not(val.eq(0)), Not(isnan(val))), len(trades) == 1))
            if trades:
                t0_ = trades[0]
                upd = update if not isinstance(update, bool) else z3.BoolVal(update)
                a0 = t0_[2][0]
                u0 = t0_[2][2] if t0_[0].endswith("StrategyBase.allocate") else t0_[2][1]
                u0 = u0 if not isinstance(u0, bool) else z3.BoolVal(u0)
                ob("strategy-child:the-withdrawal-is-minus-the-child's-value-read-after-the-liquidation-was-refreshed",
                   Implies(strat, And(t0_[1].term == c.term, value_same(a0, -val), u0 == upd, Implies(bool(flats), Not(H.get(H.get(self, "root"), "stale"))))))
            x = z3.Const(dsl.fresh_name("xfr"), dsl.Ref)
            outside = And(x != self.term, slot_f(self.term, x) == -1, x != rt.term)
            if refreshed:
                # reading a value on a stale tree refreshes the whole tree through root.update
                outside = And(outside, treeof_f(x) != rt.term)
            for key in sorted(F.maps.keys()):
                a, b = F.maps[key], E.ensure(key)
                from pyvc.heap import map_same

                if map_same(a, b):
                    continue
                ob("frame:%s" % key, Implies(outside, a.select(x) == b.select(x)), ("C08", "C11"))
        s = z3.Solver()
        for p in st0.pc:
            s.add(p)
        fr.canary = str(s.check())
        discharge(obligs, timeout_ms, fr, contract.qualname)
        fr.stats = dict(feas_queries=ex.stats.feas_queries, feas_s=round(ex.stats.feas_time, 3), inlined=sorted(ex.stats.inlined), contracts_used=sorted(ex.stats.contracts_used))
    except Undecided as e:
        fr.undecided = str(e)
    except Exception as e:
        fr.undecided = "ENGINE-ERROR: %s\n%s" % (e, traceback.format_exc())
    return fr


# ------------------------------------------------------------------ StrategyBase.transact (body)
def _stx_inv(ctx):
    st, E = ctx.cur, ctx.entry.heap
    self = ctx.entry.locals["self"]
    q = ctx.entry.locals["q"]
    out = []
    rt = st.heap.get(self, "root")
    out.append(("stale-flag-untouched-by-children", st.heap.get(rt, "stale") == E.get(rt, "stale")))
    if ctx.phase == "step":
        ih = ctx.i - 1
        c = E.list_at(self, "_childrenv", ih)
        new = [x for x in st.log[len(ctx.head.log):] if len(x) in (3, 4) and x[0].endswith(".transact")]
        out.append(("each-child-transacts-exactly-once", len(new) == 1))
        if len(new) == 1:
            a = new[0][2]
            out.append(("child-receives-q-times-its-weight", And(new[0][1].term == c.term, value_same(a[0], q * E.get(c, "_weight")))))
            upd = a[1] if new[0][0].endswith("SecurityBase.transact") else a[2]
            out.append(("children-transact-without-update", upd is False or (upd is not True and Not(upd))))
    return out


LOOPS[("bt.core.StrategyBase.transact", 0)] = LoopSpec(_stx_inv, havoc_heap=_salloc_havoc, on_iter=_flat_on_iter, name="push the notional down by child weight")


def verify_strat_transact(ex, contract, timeout_ms=30000):
    """StrategyBase.transact(q, child, update): with a child name - the child is created if needed and then transacts exactly q (the name's own
    node, quantity unchanged), nothing else is called; without - every child transacts q x its weight with update deferred and the root is marked
    stale iff update."""
    from pyvc.verify import FuncReport, discharge, entry_state
    from pyvc.heap import Opt, StrV as _StrV

    fr = FuncReport(contract.qualname)
    name = "StrategyBase.transact"
    PT = ("C20", "C17", "C06")
    try:
        fi = ex.prog.func(contract.qualname)
        fr.source_hash = fi.source_hash()
        st0, self, args = entry_state(ex, contract)
        q, child, update = args
        E = st0.heap
        for f in self_facts(E, self):
            st0.assume(_zb(f))
        st0.assume(_zb(Not(isnan(q))))
        E = st0.heap.copy()
        st0.ghost["schemas"] = [children_schema(E, self), ForallInt(0, E.list_len(self, "_childrenv"), lambda j: _I_child(E, self, j), name="ji")]
        t0 = time.time()
        exits = ex.run_function(fi, st0.fork(), self, args)
        fr.symexec_s = time.time() - t0
        fr.paths = len(exits)
        obligs = []
        rt = E.get(self, "root")
        given = Not(child.isnone) if isinstance(child, Opt) else (child is not NONEV)
        for xi, (st, oc) in enumerate(exits):
            kind = oc.kind if oc.kind != "raise" else "raise:" + oc.exc
            fr.exits[kind] = fr.exits.get(kind, 0) + 1
            obligs.extend(st.obligs)
            if oc.kind == "raise":
                continue
            F = st.heap
            calls = [c for c in st.log if len(c) in (3, 4)]
            names = [c[0].rsplit(".", 1)[1] for c in calls]

            def ob(cid, goal):
                obligs.append(Oblig("%s/%s" % (name, cid), st.pc, goal, "post", PT))

            cname = child.val if isinstance(child, Opt) else child
            if names[:1] == ["_create_child_if_needed"]:
                ob("named-child:create-if-needed-then-one-transact-of-exactly-q", And(_zb(given), names == ["_create_child_if_needed", "transact"] or names == ["_create_child_if_needed", "transact", "transact"]))
                if len(calls) >= 2:
                    trg = named_child(calls[1][3] if len(calls[1]) == 4 else F, self, cname)
                    ob("named-child:the-transact-is-on-the-node-registered-under-that-name-with-q-unchanged", And(calls[0][2][0].term == cname.term, calls[1][1].term == trg.term, value_same(calls[1][2][0], q)))
            else:
                ob("no-name:children-loop-path-only-without-a-child-name", Not(_zb(given)))
                upd = update if not isinstance(update, bool) else z3.BoolVal(update)
                ob("no-name:root-marked-stale-iff-update", F.get(rt, "stale") == Or(E.get(rt, "stale"), upd))
        s = z3.Solver()
        for p in st0.pc:
            s.add(p)
        fr.canary = str(s.check())
        discharge(obligs, timeout_ms, fr, contract.qualname)
        fr.stats = dict(feas_queries=ex.stats.feas_queries, feas_s=round(ex.stats.feas_time, 3), inlined=sorted(ex.stats.inlined), contracts_used=sorted(ex.stats.contracts_used))
    except Undecided as e:
        fr.undecided = str(e)
    except Exception as e:
        fr.undecided = "ENGINE-ERROR: %s\n%s" % (e, traceback.format_exc())
    return fr
