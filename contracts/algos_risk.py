"""
Risk aggregation (property C20): UpdateRisk._set_risk_recursive and UpdateRisk.__call__ under contract.

Model.  For the algo's own measure, a node's `risk` dict is three heap fields: risk_has (hasattr(node, 'risk')),
risk_m_has (measure in node.risk) and risk_m (node.risk[measure]); `risks` (the optional history frame) is risks_has
plus a ghost log of the rows written to it.  The unit-risk table is an opaque frame token; `_get_unit_risk` is an assumed
callee contract (value of the table at (name, row), 0.0 for a security missing from the table) audited by the bounded
stand-in c20_risk.

Verified on the real body, separately for a security and for a strategy receiver (isinstance is then static):
  security:  risk_m' == 0 if is_zero(position) else unit_risk(name, row of root.now) * position * multiplier
  strategy:  every child receives exactly one recursive call with depth+1 and the same table; risk_m' == sum of the
             children's risk_m' (loop invariant over a ghost sum, NaN-propagating like float addition)
  both:      node.risk exists and holds the measure afterwards; one history row (node.now, risk) is written iff
             depth < history; nothing outside the node's subtree is written.
"""
import ast
import time
import traceback

import z3

from pyvc import dsl
from pyvc.dsl import Num, And, Or, Not, Implies, ite, is_zero
from pyvc.heap import RefV, StrV, OpaqueV, DictV, map_same, cls_f
from pyvc.state import Oblig, Undecided
from pyvc.contracts import RelationalContract, LoopSpec, ForallInt, value_same
from pyvc.symexec import NONEV, BoundFn, _Raised
from .tree import slot_f, cidx_f, treeof_f, cls_in, SEC_CLASSES, STRAT_CLASSES
from .core_strat import SumGhost, update_modkeys
from .core_tree import struct_facts, struct_schema

P20 = ("C20",)
Q_REC = "bt.algos.UpdateRisk._set_risk_recursive"
Q_CALL = "bt.algos.UpdateRisk.__call__"
RISK_KEYS = ["risk_has", "risk_m_has", "risk_m", "risk_m#nan", "risks_has"]

I = z3.IntSort()
frow_f = z3.Function("frame_row_of_date", dsl.Ref, I, I)
frow_has = z3.Function("frame_has_date", dsl.Ref, I, z3.BoolSort())
unit_f = z3.Function("unit_risk_value", dsl.Ref, dsl.Str, I, z3.RealSort())
unit_nan_f = z3.Function("unit_risk_is_nan", dsl.Ref, dsl.Str, I, z3.BoolSort())
unit_has_f = z3.Function("unit_risk_table_has_security", dsl.Ref, dsl.Str, z3.BoolSort())
measure_frame_f = z3.Function("unit_risk_frame_of_measure", dsl.Ref, dsl.Ref, dsl.Ref)


def _zb(f):
    return z3.BoolVal(f) if isinstance(f, bool) else f


class FrameTok(object):
    def __init__(self, tok):
        self.tok = tok


class RiskDict(object):
    def __init__(self, node):
        self.node = node


class RisksFrame(object):
    def __init__(self, node):
        self.node = node


class ChildValues(object):
    def __init__(self, owner):
        self.owner = owner


class NanSum(SumGhost):
    """sum of Num terms with float NaN propagation: (real sum, any-NaN flag)"""

    def new_version(self, st):
        f = z3.Function(dsl.fresh_name("Sum_" + self.name), z3.IntSort(), z3.RealSort())
        g = z3.Function(dsl.fresh_name("AnyNaN_" + self.name), z3.IntSort(), z3.BoolSort())
        st.ghost[self.key] = ((f, g), st.heap.copy())
        st.assume(And(f(0) == 0, Not(g(0))))
        return (f, g)

    def value(self, st, k):
        (f, g), _ = self.version(st)
        k = Num.lift(k)
        return Num(f(k.r), g(k.r), False)

    def zero(self, st):
        (f, g) = self.new_version(st)
        return And(f(0) == 0, Not(g(0)))

    def unfold(self, st, k):
        (f, g), _ = self.version(st)
        k = Num.lift(k)
        t = Num.lift(self.term_fn(st.heap, k))
        tn = t.nan if t.nan is not False else z3.BoolVal(False)
        return And(f(k.r + 1) == f(k.r) + t.real(), g(k.r + 1) == Or(g(k.r), tn))

    def rebase(self, st, upto, oid):
        (f, g), snap = self.version(st)
        upto = Num.lift(upto)
        goal = ForallInt(0, upto, lambda j: value_same(self.term_fn(st.heap, j), self.term_fn(snap, j)), name="jf")
        o = Oblig(oid, st.pc, goal, kind="sumframe")
        o.schemas = list(st.ghost.get("schemas", []))
        st.obligs.append(o)
        (f2, g2) = self.new_version(st)
        st.assume(And(f2(upto.r) == f(upto.r), g2(upto.r) == g(upto.r)))


def _risk_executor(ex):
    base = type(ex)

    class RiskExecutor(base):
        # ---- hasattr(node, 'risk' | 'risks')
        def ext_hasattr(self, st, e):
            if isinstance(e.args[1], ast.Constant) and e.args[1].value in ("risk", "risks"):
                out = []
                for (s, obj) in self.eval(e.args[0], st):
                    out.append((s, s.heap.get(obj, "risk_has" if e.args[1].value == "risk" else "risks_has")))
                return out
            return base.ext_hasattr(self, st, e)

        def load_attr(self, st, obj, attr):
            if isinstance(obj, RefV) and attr == "risk" and self.prog.is_subclass(obj.cls, "Node"):
                return [(st, RiskDict(obj))]
            if isinstance(obj, RefV) and attr == "risks" and self.prog.is_subclass(obj.cls, "Node"):
                return [(st, RisksFrame(obj))]
            if isinstance(obj, RisksFrame) and attr == "loc":
                return [(st, ("risksloc", obj.node))]
            if isinstance(obj, FrameTok) and attr == "index":
                return [(st, ("frameindex", obj))]
            if isinstance(obj, tuple) and len(obj) == 2 and obj[0] == "frameindex" and attr == "get_loc":
                return [(st, BoundFn("frame_get_loc", "get_loc", recv=obj[1]))]
            if isinstance(obj, DictV) and obj.field == "children" and attr == "values":
                return [(st, BoundFn("childvalues", "values", recv=obj))]
            return base.load_attr(self, st, obj, attr)

        def ext_in(self, a, b, st):
            if isinstance(b, RiskDict) and isinstance(a, OpaqueV) and a.field == "measure":
                return st.heap.get(b.node, "risk_m_has")
            return base.ext_in(self, a, b, st)

        def ext_load_subscript(self, st, b, i):
            if isinstance(b, RiskDict) and isinstance(i, OpaqueV) and i.field == "measure":
                out = []
                for (s, has) in self.branch(st, st.heap.get(b.node, "risk_m_has")):
                    out.append((s, s.heap.get(b.node, "risk_m")) if has else (s, _Raised("KeyError")))
                return out
            if type(b).__name__ == "AuxFrameV" and isinstance(i, OpaqueV) and i.field == "measure":
                # get_data("unit_risk")[measure]: the table of the algo's measure
                return [(st, FrameTok(measure_frame_f(b.token, i.owner.term)))]
            return base.ext_load_subscript(self, st, b, i)

        def ext_store_subscript(self, st, b, i, v):
            if isinstance(b, RiskDict) and isinstance(i, OpaqueV) and i.field == "measure":
                st.heap.set(b.node, "risk_m_has", True)
                st.heap.set(b.node, "risk_m", self._num(st, v))
                return [st]
            if isinstance(b, RisksFrame) and isinstance(i, OpaqueV) and i.field == "measure":
                return [st]  # a NaN column for the measure in the history frame
            if isinstance(b, tuple) and len(b) == 2 and b[0] == "risksloc":
                from pyvc.heap import TupleV

                if isinstance(i, TupleV) and len(i.items) == 2 and isinstance(i.items[1], OpaqueV) and i.items[1].field == "measure":
                    st.log.append(("risks_row", b[1], self._num(st, i.items[0]), self._num(st, v), st.heap.copy()))
                    return [st]
            return base.ext_store_subscript(self, st, b, i, v)

        def stmt_Assign(self, node, st):
            t = node.targets[0] if len(node.targets) == 1 else None
            if isinstance(t, ast.Attribute) and t.attr in ("risk", "risks"):
                out = []
                for (s, obj) in self.eval(t.value, st):
                    if isinstance(obj, RefV) and self.prog.is_subclass(obj.cls, "Node"):
                        if t.attr == "risk":
                            # node.risk = {}: a new, empty dict
                            if not (isinstance(node.value, ast.Dict) and not node.value.keys):
                                self._undecided("node.risk assigned something other than {}")
                            s.heap.set(obj, "risk_has", True)
                            s.heap.set(obj, "risk_m_has", False)
                        else:
                            s.heap.set(obj, "risks_has", True)  # a new frame over the node's dates (rows not modelled)
                        from pyvc.state import Outcome

                        out.append((s, Outcome("normal")))
                    else:
                        return base.stmt_Assign(self, node, st)
                return out
            return base.stmt_Assign(self, node, st)

        def call_value(self, st, f, pos, kw):
            if isinstance(f, BoundFn) and f.kind == "frame_get_loc":
                d = self._num(st, pos[0])
                tok = f.recv.tok
                out = []
                for (s, has) in self.branch(st, frow_has(tok, d.r)):
                    out.append((s, Num(frow_f(tok, d.r), False, True)) if has else (s, _Raised("KeyError")))
                return out
            if isinstance(f, BoundFn) and f.kind == "modfunc" and f.name == "bt.algos._get_unit_risk":
                # assumed callee contract: the table's value for (security, row); 0.0 when the table has no such security
                name, frame, idx = pos[0], pos[1], self._num(st, pos[2] if len(pos) > 2 else kw.get("index"))
                tok = frame.tok
                has = unit_has_f(tok, name.term)
                st.stats_unit = True
                return [(st, Num(z3.If(has, unit_f(tok, name.term, idx.r), 0), And(has, unit_nan_f(tok, name.term, idx.r)), False))]
            if isinstance(f, BoundFn) and f.kind == "childvalues":
                return [(st, ChildValues(f.recv.owner))]
            return base.call_value(self, st, f, pos, kw)

        def iter_adapter(self, it, st):
            if isinstance(it, ChildValues):
                owner = it.owner
                n = st.heap.list_len(owner, "_childrenv")

                def elem(s, i, owner=owner):
                    return s.heap.list_at(owner, "_childrenv", i, "Node")

                return n, elem, owner
            return base.iter_adapter(self, it, st)

    t = RiskExecutor.__new__(RiskExecutor)
    t.__dict__.update(ex.__dict__)
    t.inline = set(ex.inline) | {"bt.algos.UpdateRisk._setup_risk", "bt.algos.UpdateRisk._setup_measure"}
    return t


def sec_risk_spec(heap, target, frame_tok, rootnow):
    """documented risk of a security: unit risk at the root's date x position x multiplier, 0 when flat"""
    nm = heap.get(target, "name")
    row = frow_f(frame_tok, rootnow.r)
    has = unit_has_f(frame_tok, nm.term)
    unit = Num(z3.If(has, unit_f(frame_tok, nm.term, row), 0), And(has, unit_nan_f(frame_tok, nm.term, row)), False)
    pos = heap.get(target, "_position")
    return ite(is_zero(pos), 0.0, unit * pos * heap.get(target, "multiplier"))


def apply_set_risk(ex, st, recv, args, exact=False):
    """recursive use: the risk bookkeeping of target's subtree is rewritten (a security may also be refreshed to the root's date by its
    position getter); afterwards target.risk holds the measure"""
    target = args[0]
    h = st.heap
    parent = h.get(target, "parent")
    k = cidx_f(target.term)
    sub = lambda x: slot_f(parent.term, x) == k
    for key in RISK_KEYS + update_modkeys():
        h.ensure(key)
        h.havoc(key, cond=sub)
    st.assume(And(h.get(target, "risk_has"), h.get(target, "risk_m_has")))
    return [(st, NONEV)]


def _risk_sum(self_algo, target, E):
    def term(h, j):
        c = E.list_at(target, "_childrenv", j)
        return h.get(c, "risk_m")

    return NanSum("risk", term)


def _loop_inv(ctx):
    st, E = ctx.cur, ctx.entry.heap
    target = ctx.entry.locals["target"]
    depth = ctx.entry.locals["depth"]
    frame = ctx.entry.locals["unit_risk_frame"]
    S = st.ghost.get("risk_sum")
    if S is None:
        S = _risk_sum(None, target, E)
        st.ghost["risk_sum"] = S
    out = []
    if ctx.phase == "init":
        ctx.facts.append(S.zero(st))
    elif ctx.phase == "head":
        S.new_version(st)
    else:
        ih = ctx.i - 1
        S.rebase(st, ih, "%s/loop0/sum-frame:risk" % Q_REC)
        ctx.facts.append(S.unfold(st, ih))
        c = E.list_at(target, "_childrenv", ih)
        new = [x for x in st.log[len(ctx.head.log):] if len(x) == 4 and x[0] == Q_REC]
        out.append(("child-gets-exactly-one-recursive-call", len(new) == 1))
        for x in new:
            out.append(("recursive-call-is-on-that-child-one-level-deeper-with-the-same-table", And(x[2][0].term == c.term, value_same(x[2][1], depth + 1), x[2][2].tok == frame.tok)))
    out.append(("risk-is-the-sum-of-the-children-so-far", value_same(st.locals["risk"], S.value(st, ctx.i))))
    out.append(("own-risk-dict-stays", st.heap.get(target, "risk_has")))
    return out


def _loop_havoc(ctx):
    target = ctx.entry.locals["target"]

    def sub(i):
        i = Num.lift(i)
        return lambda x: And(slot_f(target.term, x) >= 0, slot_f(target.term, x) < i.r)

    return [(k, sub) for k in RISK_KEYS + update_modkeys()]


def _on_iter(ctx, c):
    st = ctx.cur
    target = ctx.entry.locals["target"]
    for f in struct_facts(ctx.entry.heap, target, ctx.i):
        st.assume(_zb(f))


LOOPS = {(Q_REC, 0): LoopSpec(_loop_inv, havoc_heap=_loop_havoc, on_iter=_on_iter, local_types={}, name="sum the children's risk")}


def verify_set_risk(ex, contract, timeout_ms=30000, variant="security"):
    from pyvc.verify import FuncReport, discharge
    from pyvc.contracts import make_arg
    from pyvc.state import State
    from pyvc.heap import Heap

    fr = FuncReport(contract.qualname)
    name = "UpdateRisk._set_risk_recursive[%s]" % variant
    try:
        fi = ex.prog.func(contract.qualname)
        fr.source_hash = fi.source_hash()
        rx = _risk_executor(ex)
        st0 = State(Heap(ex.schema))
        self = RefV(dsl.fresh_ref("self"), "UpdateRisk")
        target = RefV(dsl.fresh_ref("target"), "SecurityBase" if variant == "security" else "StrategyBase")
        depth = Num(z3.Int(dsl.fresh_name("depth")), False, True)
        frame = FrameTok(dsl.fresh_ref("unit_risk_frame"))
        E = st0.heap
        parent = E.get(target, "parent")
        root = E.get(target, "root")
        st0.assume(And(self.term != dsl.NONE, target.term != dsl.NONE, target.term != self.term, root.term != dsl.NONE, parent.term != dsl.NONE, slot_f(target.term, target.term) == -1,
                       cls_in(ex.schema, target.term, SEC_CLASSES if variant == "security" else STRAT_CLASSES), E.get(target, "_issec") == (variant == "security")))
        if variant == "security":
            # T for a security: its parent is a strategy of the same tree whose root is root; the parent is on the root's date
            st0.assume(And(parent.term != target.term, E.get(parent, "root").term == root.term, E.get(root, "root").term == root.term, E.get(parent, "now").eq(E.get(root, "now")),
                           Not(dsl.isnan(E.get(target, "_position"))), Not(dsl.isnan(E.get(target, "multiplier"))), cls_in(ex.schema, parent.term, STRAT_CLASSES), cls_in(ex.schema, root.term, STRAT_CLASSES),
                           slot_f(parent.term, target.term) == cidx_f(target.term), cidx_f(target.term) >= 0, E.list_len(target, "_childrenv").r == 0))
        # T: the root is the target itself or an ancestor of it - never a node below the target
        st0.assume(slot_f(target.term, root.term) == -1)
        for k in RISK_KEYS + ["now", "_position", "multiplier", "name"]:
            E.ensure(k)
        E = st0.heap.copy()
        st0.ghost["schemas"] = [struct_schema(E, target)]
        t0 = time.time()
        exits = rx.run_function(fi, st0.fork(), self, [target, depth, frame])
        fr.symexec_s = time.time() - t0
        fr.paths = len(exits)
        obligs = []
        n_norm = 0
        for xi, (st, oc) in enumerate(exits):
            kind = oc.kind if oc.kind != "raise" else "raise:" + oc.exc
            fr.exits[kind] = fr.exits.get(kind, 0) + 1
            obligs.extend(st.obligs)
            if oc.kind == "raise":
                continue
            n_norm += 1
            F = st.heap

            def ob(cid, goal, schemas=False):
                o = Oblig("%s/%s" % (name, cid), st.pc, goal, "post", P20)
                if schemas:
                    o.schemas = list(st.ghost.get("schemas", []))
                obligs.append(o)

            ob("risk-entry-exists-afterwards", And(F.get(target, "risk_has"), F.get(target, "risk_m_has")))
            rows = [x for x in st.log if len(x) == 5 and x[0] == "risks_row"]
            hist = E.get(self, "history")
            want_hist = depth < hist
            ob("history-row-written-iff-depth-below-history", _zb(want_hist) == (len(rows) == 1) if len(rows) <= 1 else False)
            for r in rows:
                # the row of the CURRENT date - the root's: a security that never traded is not updated and its own clock lags (the code used the node's
                # own date before fix F23 and this clause repeated it)
                ob("history-row-is-(current-date, risk)", And(r[1].term == target.term, value_same(r[2], E.get(root, "now")), value_same(r[3], F.get(target, "risk_m"))))
            if variant == "security":
                ob("risk-is-unit-risk-x-position-x-multiplier-or-zero-when-flat", value_same(F.get(target, "risk_m"), sec_risk_spec(F, target, frame.tok, E.get(root, "now"))))
                ob("position-and-multiplier-untouched", And(value_same(F.get(target, "_position"), E.get(target, "_position")), value_same(F.get(target, "multiplier"), E.get(target, "multiplier"))))
                ob("no-recursive-call-from-a-security", len([x for x in st.log if len(x) == 4 and x[0] == Q_REC]) == 0)
            else:
                S = st.ghost.get("risk_sum")
                n = E.list_len(target, "_childrenv")
                ob("loop-reached", S is not None)
                if S is not None:
                    ob("risk-is-the-sum-of-the-children's-risk", value_same(F.get(target, "risk_m"), S.value(st, n)))
            # frame: risk bookkeeping only inside the subtree
            x = z3.Const(dsl.fresh_name("xfr"), dsl.Ref)
            outside = And(x != target.term, slot_f(target.term, x) == -1)
            for key in sorted(F.maps.keys()):
                a, b = F.maps[key], E.ensure(key)
                if map_same(a, b):
                    continue
                ob("frame:%s" % key, Implies(outside, a.select(x) == b.select(x)))
        if n_norm == 0:
            obligs.append(Oblig("%s/has-a-normal-exit" % name, [], False, "post", P20))
        s = z3.Solver()
        for p in st0.pc:
            s.add(p)
        fr.canary = str(s.check())
        discharge(obligs, timeout_ms, fr, contract.qualname)
        fr.stats = dict(feas_queries=rx.stats.feas_queries, feas_s=round(rx.stats.feas_time, 3), inlined=sorted(rx.stats.inlined), contracts_used=sorted(rx.stats.contracts_used) + ["bt.algos._get_unit_risk (assumed)"])
    except Undecided as e:
        fr.undecided = str(e)
    except Exception as e:
        fr.undecided = "ENGINE-ERROR: %s\n%s" % (e, traceback.format_exc())
    return fr


def verify_update_risk_call(ex, contract, timeout_ms=30000):
    from pyvc.verify import FuncReport, discharge, entry_state

    fr = FuncReport(contract.qualname)
    name = "UpdateRisk.__call__"
    try:
        fi = ex.prog.func(contract.qualname)
        fr.source_hash = fi.source_hash()
        rx = _risk_executor(ex)
        st0, self, args = entry_state(rx, contract)
        target = args[0]
        st0.assume(And(target.term != dsl.NONE, target.term != self.term))
        exits = rx.run_function(fi, st0.fork(), self, [target])
        fr.paths = len(exits)
        obligs = []
        for (st, oc) in exits:
            kind = oc.kind if oc.kind != "raise" else "raise:" + oc.exc
            fr.exits[kind] = fr.exits.get(kind, 0) + 1
            obligs.extend(st.obligs)
            if oc.kind == "raise":
                continue
            calls = [x for x in st.log if len(x) == 4 and x[0] == Q_REC]
            tables = z3.Function("data_unit_risk", dsl.Ref, dsl.Ref)(target.term)
            obligs.append(Oblig("%s/returns-True" % name, st.pc, oc.kind == "return" and oc.value is True, "post", P20))
            obligs.append(Oblig("%s/one-recursion-from-the-target-at-depth-0-with-the-measure's-table" % name, st.pc,
                                len(calls) == 1 and And(calls[0][2][0].term == target.term, value_same(calls[0][2][1], Num.lift(0)), calls[0][2][2].tok == measure_frame_f(tables, self.term)), "post", P20))
        s = z3.Solver()
        for p in st0.pc:
            s.add(p)
        fr.canary = str(s.check())
        discharge(obligs, timeout_ms, fr, contract.qualname)
        fr.stats = dict(feas_queries=rx.stats.feas_queries, feas_s=round(rx.stats.feas_time, 3), inlined=sorted(rx.stats.inlined), contracts_used=sorted(rx.stats.contracts_used))
    except Undecided as e:
        fr.undecided = str(e)
    except Exception as e:
        fr.undecided = "ENGINE-ERROR: %s\n%s" % (e, traceback.format_exc())
    return fr


def contracts():
    rec = RelationalContract(Q_REC, [("target", "ref:Node"), ("depth", "int"), ("unit_risk_frame", "any")], apply_set_risk, self_cls="UpdateRisk", note="risk of the subtree recomputed; see contracts/algos_risk.py")
    call = RelationalContract(Q_CALL, [("target", "ref:StrategyBase")], None, self_cls="UpdateRisk", note="one recursion from the target at depth 0 with the measure's table")
    return [(rec, verify_set_risk), (call, verify_update_risk_call)]
