"""Task runner: each task (one function under contract, one lemma group, one audit ...) runs in its
own process; results are plain dicts."""
import importlib
import multiprocessing as mp
import os
import time
import traceback


def _run_task(task):
    t0 = time.time()
    try:
        kind = task["kind"]
        if kind == "func":
            from pyvc.source import Program
            from pyvc.ext_frames import FrameExecutor as Executor
            from contracts.schema import core_schema
            from contracts import registry

            prog = Program()
            R = registry.build()
            ex = Executor(prog, core_schema(), R["contracts"], inline=R["inline"])
            ex.loop_specs.update(R["loops"])
            q = task["qualname"]
            c = R["contracts"].get(q) or R["getter_contracts"][q]
            ver = R["verifiers"][q]
            opt = R.get("options", {}).get(q, {})
            ex.merge_enabled = opt.get("merge", True)
            kw = dict(task.get("kw") or {})
            fr = ver(ex, c, timeout_ms=task.get("timeout_ms", 30000), **kw)
            d = fr.to_dict()
            d["task"] = task
            d["wall_s"] = round(time.time() - t0, 3)
            fi = prog.func(q)
            d["nstmts"] = fi.nstmts()
            d["contract_note"] = getattr(c, "note", "")
            return d
        mod = importlib.import_module(task["module"])
        fn = getattr(mod, task["fn"])
        d = fn(task)
        d["task"] = task
        d["wall_s"] = round(time.time() - t0, 3)
        return d
    except Exception as e:
        return dict(task=task, error="%s\n%s" % (e, traceback.format_exc()), wall_s=round(time.time() - t0, 3))


def run_tasks(tasks, jobs=None):
    jobs = jobs or min(16, max(1, len(tasks)))
    if jobs == 1 or len(tasks) == 1:
        return [_run_task(t) for t in tasks]
    ctx = mp.get_context("fork")
    with ctx.Pool(jobs) as pool:
        return pool.map(_run_task, tasks, chunksize=1)


def func(qualname, **kw):
    t = dict(kind="func", qualname=qualname)
    if kw:
        t["kw"] = kw
    return t
