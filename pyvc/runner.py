"""Task runner: each task (one function under contract, one lemma group, one audit ...) runs in its
own process; results are plain dicts."""
import importlib
import multiprocessing as mp
import os
import time
import traceback


def _run_task(task):
    t0 = time.time()
    try:
        kind = task["kind"]
        if kind == "func":
            from pyvc.source import Program
            from pyvc.ext_frames import FrameExecutor as Executor
            from contracts.schema import core_schema
            from contracts import registry

            def attempt(alpha):
                prog = Program(alpha=alpha)
                R = registry.build()
                ex = Executor(prog, core_schema(), R["contracts"], inline=R["inline"])
                ex.loop_specs.update(R["loops"])
                q = task["qualname"]
                c = R["contracts"].get(q) or R["getter_contracts"][q]
                ver = R["verifiers"][q]
                opt = R.get("options", {}).get(q, {})
                ex.merge_enabled = opt.get("merge", True)
                kw = dict(task.get("kw") or {})
                fr = ver(ex, c, timeout_ms=task.get("timeout_ms", 30000), **kw)
                d = fr.to_dict()
                d["task"] = task
                fi = prog.func(q)
                d["nstmts"] = fi.nstmts()
                d["contract_note"] = getattr(c, "note", "")
                return d, prog

            d, prog = attempt(False)
            if d.get("undecided") and prog.alpha_candidates():
                # the contracts name locals (accumulators of loops) that this tree spells differently: retry on the alpha-renamed AST.  The
                # renaming is a guess (binding order); whatever is proved under it is proved (every obligation is re-derived from the renamed
                # real body), a refutation under it is only reported as a violation when it replays on the real code (pyvc.report.finish)
                d2, prog2 = attempt(True)
                if not d2.get("undecided"):
                    d = d2
                    used = {q: m for q, m in prog2.alpha.items() if q == task["qualname"] or q in ((d2.get("stats") or {}).get("inlined") or [])}
                    d["alpha"] = used or prog2.alpha
                    for o in d.get("results", []):
                        o["alpha"] = True
            d["wall_s"] = round(time.time() - t0, 3)
            return d
        mod = importlib.import_module(task["module"])
        fn = getattr(mod, task["fn"])
        d = fn(task)
        if d.get("undecided") or any(o.get("verdict") != "proved" for o in d.get("results", [])):
            from pyvc.source import Program

            cands = Program(alpha=False).alpha_candidates()
            if cands and os.environ.get("PYVC_ALPHA") != "1":
                # same second attempt as for functions under contract: obligations that name locals are re-decided on the alpha-renamed AST
                os.environ["PYVC_ALPHA"] = "1"
                try:
                    d2 = fn(task)
                finally:
                    os.environ.pop("PYVC_ALPHA", None)
                if not d2.get("undecided") and all(o.get("verdict") == "proved" for o in d2.get("results", [])):
                    d = d2
                    d["alpha"] = cands
                    for o in d.get("results", []):
                        o["alpha"] = True
        d["task"] = task
        d["wall_s"] = round(time.time() - t0, 3)
        return d
    except Exception as e:
        return dict(task=task, error="%s\n%s" % (e, traceback.format_exc()), wall_s=round(time.time() - t0, 3))


def run_tasks(tasks, jobs=None):
    jobs = jobs or min(16, max(1, len(tasks)))
    if jobs == 1 or len(tasks) == 1:
        return [_run_task(t) for t in tasks]
    ctx = mp.get_context("fork")
    with ctx.Pool(jobs) as pool:
        return pool.map(_run_task, tasks, chunksize=1)


def func(qualname, **kw):
    t = dict(kind="func", qualname=qualname)
    if kw:
        t["kw"] = kw
    return t
