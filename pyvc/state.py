"""Symbolic state, outcomes, obligations, and the SpecState contracts are written against."""
import contextlib

import z3

from . import dsl
from .dsl import Num, And, Or, Not, ite
from .heap import Heap, RefV, StrV, HistV, FnV, comm_f, idx_f, cls_f


class Undecided(Exception):
    """construct outside the supported subset, missing schema entry, missing contract ..."""


class Outcome(object):
    __slots__ = ("kind", "value", "exc")

    def __init__(self, kind, value=None, exc=None):
        self.kind = kind  # normal | return | raise | break | continue
        self.value = value
        self.exc = exc

    def __repr__(self):
        return "Outcome(%s%s)" % (self.kind, ":" + self.exc if self.exc else "")


NORMAL = Outcome("normal")


class Oblig(object):
    """One verification condition:  /\\ pc  ==>  goal"""

    def __init__(self, oid, pc, goal, kind="post", props=(), info=None, hyps=None):
        self.id = oid
        self.pc = list(pc)
        self.goal = goal
        self.kind = kind
        self.props = tuple(props)
        self.info = info or {}
        self.inputs = None  # symbols -> description (for counter-models)


class State(object):
    def __init__(self, heap, locals_=None, pc=None):
        self.heap = heap
        self.locals = dict(locals_ or {})
        self.pc = list(pc or [])
        self.log = []  # ghost call log
        self.obligs = []  # side obligations collected along this path
        self.ghost = {}
        self.path = []  # branch decisions (diagnostics)

    def fork(self):
        s = State(self.heap.copy(), self.locals, self.pc)
        s.log = list(self.log)
        s.obligs = list(self.obligs)
        s.ghost = dict(self.ghost)
        s.path = list(self.path)
        return s

    def assume(self, f):
        if f is True:
            return
        if f is False:
            f = z3.BoolVal(False)
        self.pc.append(f)

    def oblige(self, oid, goal, kind="side", props=(), info=None):
        if goal is True:
            return
        if goal is False:
            goal = z3.BoolVal(False)
        self.obligs.append(Oblig(oid, self.pc, goal, kind, props, info))


class SpecState(object):
    """
    The state a contract's spec function reads and writes.  Spec functions are written in
    'merged' style: conditionals are guards (`with S.when(c):`), updates are guarded stores,
    exceptions and early returns are recorded with their conditions.  The same spec function
    runs on a concrete adapter (pyvc.replay.ConcreteState) for replays.
    """

    symbolic = True

    def __init__(self, heap):
        self.heap = heap
        self.guards = []
        self.raises = []  # (cond, exc)
        self.raised = False
        self.ret_stack = [False]
        self.log = []  # (cond, callee, recv, args)  ghost call log of the spec
        self.side = []  # (id, cond, goal): facts the spec itself needs (e.g. divisor non-zero)

    # ---- control
    def alive(self):
        return And(Not(self.raised), Not(self.ret_stack[-1]), *self.guards)

    @contextlib.contextmanager
    def when(self, cond):
        self.guards.append(cond)
        try:
            yield
        finally:
            self.guards.pop()

    def raise_if(self, cond, exc):
        c = And(self.alive(), cond)
        if c is False:
            return
        self.raises.append((c, exc))
        self.raised = Or(self.raised, c)

    def return_if(self, cond):
        c = And(self.alive(), cond)
        if c is False:
            return
        self.ret_stack[-1] = Or(self.ret_stack[-1], c)

    def call(self, fn, *args, **kw):
        """run a nested spec function with its own 'returned' frame, under the current guards"""
        outer_alive = And(Not(self.ret_stack[-1]))
        self.ret_stack.append(False)
        with self.when(outer_alive):
            r = fn(self, *args, **kw)
        self.ret_stack.pop()
        return r

    # ---- heap access
    def get(self, ref, field):
        return self.heap.get(ref, field)

    def _merge(self, c, new, old):
        if c is True:
            return new
        if isinstance(new, RefV) or isinstance(old, RefV):
            return RefV(z3.If(c, new.term, old.term), new.cls)
        if isinstance(new, FnV):
            return FnV(z3.If(c, new.term, old.term))
        if isinstance(new, StrV):
            return StrV(z3.If(c, new.term, old.term))
        return ite(c, new, old)

    def set(self, ref, field, val):
        c = self.alive()
        if c is False:
            return
        if c is not True:
            val = self._merge(c, val, self.heap.get(ref, field))
        self.heap.set(ref, field, val)

    def hist_get(self, owner, field, i):
        return self.heap.hist_get(owner, field, i)

    def hist_set(self, owner, field, i, val):
        c = self.alive()
        if c is False:
            return
        if c is not True:
            val = ite(c, val, self.heap.hist_get(owner, field, i))
        self.heap.hist_set(owner, field, i, val)

    def hist_fill(self, owner, field, val):
        c = self.alive()
        if c is False:
            return
        if c is True:
            self.heap.hist_fill(owner, field, val)
            return
        # guarded fill: build both and select
        h2 = self.heap.copy()
        h2.hist_fill(owner, field, val)
        from .heap import IMap
        for k in (field, field + "#nan"):
            self.heap.maps[k] = IMap(c, h2.maps[k], self.heap.maps[k])

    # ---- uninterpreted environment
    def comm(self, strat, q, p):
        fn = self.heap.get(strat, "commission_fn")
        q, p = Num.lift(q), Num.lift(p)
        return Num(comm_f(fn.term, q.real(), p.real()), q._nan_or(p), False)

    def dataval(self, data, node):
        from .heap import dataval_f, dataval_nan_f, Opt

        d = data.val if isinstance(data, Opt) else data
        if d is None or not hasattr(d, "term"):  # eagerly evaluated operand of a guarded (untaken) branch
            return Num.lift(0.0)
        nm = self.heap.get(node, "name")
        return Num(dataval_f(d.term, nm.term), dataval_nan_f(d.term, nm.term), False)

    def idx(self, node, date):
        d = Num.lift(date)
        return Num(idx_f(d.r), False, True)

    def cls_is(self, ref, names, schema=None):
        sch = self.heap.schema
        t = ref.term if isinstance(ref, RefV) else ref
        return Or(*[cls_f(t) == sch.tag(n) for n in names])

    def same_ref(self, a, b):
        return a.term == b.term

    def note_call(self, callee, recv, args):
        self.log.append((self.alive(), callee, recv, tuple(args)))

    def need(self, sid, goal):
        self.side.append((sid, self.alive(), goal))
