"""
Read-confinement analysis for property C04 (no look-ahead).

The same symbolic executor, in *tolerant* mode: a statement or expression the label/Series algebra
does not model is abstracted (its result becomes an opaque value, both branches of an undecidable
test are explored, an unmodelled loop body is explored once) instead of making the function
undecided, because the question here is not what the algo computes but WHERE IT READS:

  * every label-based read of the strategy's universe goes through `target.universe`, which is cut at
    `now` by the contract of StrategyBase.universe (proved on the real getter);
  * every label-based read of an UNWINDOWED frame (frames held by the algo, frames obtained with
    get_data, unit-risk tables ...) generates the obligation  label <= now  under the parameter
    assumptions lag >= 0, lookback >= 0;
  * an opaque value derived from an unwindowed frame is *tainted*; any further indexing of a tainted value is an
    'unclassified read' and is reported as a failed obligation (never silently passed).

Soundness of the abstraction for this purpose: abstraction only forgets values, never a read of a
modelled frame; reads hidden inside an abstracted expression are caught by the taint rule or by the
syntactic scan of props/c04_tasks.py (every `.loc/.iloc/.values/.at` site of algos.py must have been
visited or be on a value of the windowed universe).
"""
import ast

import z3

from . import dsl
from .dsl import Num, And, Or, Not, Implies
from .heap import RefV, StrV, TupleV, OpaqueV
from .state import Undecided, Outcome, NORMAL
from .symexec import BoundFn, NONEV, _Raised, _SliceV, _SliceAll
from .ext_frames import FrameExecutor, AuxFrameV, UniverseV, WindowV, RowV, MaskV, IndexLV, ListLV, DictObjV, fidx_mem, fcell, fcell_nan


class Tainted(object):
    """opaque value; `timeidx`: derived from an unwindowed time-indexed frame"""

    def __init__(self, why="", timeidx=False):
        self.why, self.timeidx = why, timeidx


class TsV(object):
    """frame.index.get_level_values('Date'): the timestamps of a (multi-indexed) unwindowed frame"""

    def __init__(self, frame):
        self.frame = frame


class TsMask(object):
    """boolean mask over rows of an unwindowed frame with a proved upper bound on the selected timestamps (None: unbounded)"""

    def __init__(self, frame, hi):
        self.frame, self.hi = frame, hi


class ListSummaryV(object):
    """python list built with .append: summarised by (one representative of) its elements"""

    def __init__(self, elem=None):
        self.elem = elem


from .heap import cls_f  # noqa: E402


class ColumnV(object):
    """universe[name]: one column of the windowed universe"""

    def __init__(self, owner, hi):
        self.owner, self.hi = owner, hi


class TolerantExecutor(FrameExecutor):
    def __init__(self, *a, **kw):
        FrameExecutor.__init__(self, *a, **kw)
        self.abstracted = []
        self.visited_lines = set()
        self.unclassified = []
        self.merge_enabled = False

    def _taint_of(self, *vals):
        return any(isinstance(v, AuxFrameV) or (isinstance(v, Tainted) and v.timeidx) for v in vals)

    # ---------------------------------------------------------------- statements
    def exec_stmt(self, node, st):
        try:
            return FrameExecutor.exec_stmt(self, node, st.fork())
        except (Undecided, TypeError, AttributeError, ValueError, KeyError, z3.Z3Exception) as e:
            self.abstracted.append((self.cur_func[-1] if self.cur_func else "?", getattr(node, "lineno", 0), type(node).__name__, str(e)[:120]))
            return self.abstract_stmt(node, st)

    def abstract_stmt(self, node, st):
        taint = self._stmt_touches_aux(node, st)
        if isinstance(node, (ast.Assign, ast.AugAssign, ast.AnnAssign)):
            tgts = node.targets if isinstance(node, ast.Assign) else [node.target]
            for t in tgts:
                for n in ast.walk(t):
                    if isinstance(n, ast.Name) and isinstance(n.ctx, ast.Store):
                        st.locals[n.id] = Tainted("abstracted assignment", taint)
                # a store of an unknown value into a modelled field of a known object: the field becomes arbitrary there
                if isinstance(t, ast.Attribute) and isinstance(t.value, ast.Name) and isinstance(st.locals.get(t.value.id), RefV) and self.schema.type_of(t.attr):
                    obj = st.locals[t.value.id]
                    for key in [k for k in (t.attr, t.attr + "#nan", t.attr + "#none") if k in st.heap.maps or k == t.attr]:
                        try:
                            st.heap.ensure(key)
                            st.heap.havoc(key, cond=lambda x, obj=obj: x == obj.term)
                        except Exception:
                            pass
            return [(st, NORMAL)]
        if isinstance(node, ast.Expr):
            return [(st, NORMAL)]
        if isinstance(node, ast.If):
            out = []
            for body in (node.body, node.orelse):
                out.extend(self.exec_block(body, st.fork()))
            return out
        if isinstance(node, (ast.For, ast.While)):
            s1 = st.fork()
            if isinstance(node, ast.For):
                for n in ast.walk(node.target):
                    if isinstance(n, ast.Name):
                        s1.locals[n.id] = Tainted("loop variable", taint)
            res = [(st, NORMAL)]
            for (s2, oc) in self.exec_block(node.body, s1):
                res.append((s2, NORMAL) if oc.kind in ("normal", "continue", "break") else (s2, oc))
            return res
        if isinstance(node, ast.Return):
            return [(st, Outcome("return", Tainted("abstracted return")))]
        if isinstance(node, ast.Try):
            out = list(self.exec_block(node.body, st.fork()))
            for h in node.handlers:
                out.extend(self.exec_block(h.body, st.fork()))
            return out
        if isinstance(node, ast.Raise):
            return [(st, Outcome("raise", exc="Exception"))]
        return [(st, NORMAL)]

    def _stmt_touches_aux(self, node, st):
        for n in ast.walk(node):
            if isinstance(n, ast.Name) and isinstance(n.ctx, ast.Load):
                v = st.locals.get(n.id)
                if self._taint_of(v):
                    return True
            if isinstance(n, ast.Attribute) and isinstance(n.value, ast.Name) and n.value.id == "self":
                if self.schema.type_of(n.attr) == "auxframe":
                    return True
        return False

    # loops without an invariant: explore the body once (reads do not depend on the iteration count)
    def stmt_For(self, node, st):
        fn = self.cur_func[-1]
        k = self.loop_counter[-1].get(id(node))
        if (fn, k) in self.loop_specs:
            return FrameExecutor.stmt_For(self, node, st)
        out = []
        for (s0, it) in self.eval(node.iter, st):
            if isinstance(it, _Raised):
                out.append((s0, Outcome("raise", exc=it.exc)))
                continue
            s1 = s0.fork()
            elem = Tainted("element", self._taint_of(it))
            if isinstance(it, (ListLV, IndexLV)) or (isinstance(it, DictObjV)):
                elem = StrV(z3.Const(dsl.fresh_name("elt"), dsl.Str))
            for n in ast.walk(node.target):
                if isinstance(n, ast.Name):
                    s1.locals[n.id] = elem
            out.append((s0, NORMAL))
            for (s2, oc) in self.exec_block(node.body, s1):
                out.append((s2, NORMAL) if oc.kind in ("normal", "continue", "break") else (s2, oc))
        return out

    def expr_List(self, e, st):
        if not e.elts:
            return [(st, ListSummaryV(None))]
        out = []
        for (s, vals) in self.eval_seq(e.elts, st):
            out.append((s, vals if isinstance(vals, _Raised) else ListSummaryV(vals[0])))
        return out

    def expr_ListComp(self, e, st):
        """explore the element expression once per generator chain, binding targets to representative elements"""
        s = st.fork()
        taint = False
        for g in e.generators:
            its = self.eval(g.iter, s)
            if not its:
                return [(st, Tainted("comprehension", False))]
            s, it = its[0]
            if isinstance(it, _Raised):
                return [(s, it)]
            taint = taint or self._taint_of(it)
            rep = Tainted("element", self._taint_of(it))
            if isinstance(it, ListSummaryV) and it.elem is not None:
                rep = it.elem
            elif isinstance(it, (ListLV, IndexLV, DictObjV)):
                rep = StrV(z3.Const(dsl.fresh_name("elt"), dsl.Str))
            self._bind(g.target, rep, s)
            for c in g.ifs:
                rs = self.eval(c, s)
                if rs:
                    s = rs[0][0]
        out = []
        for (s2, v) in self.eval(e.elt, s):
            out.append((s2, v if isinstance(v, _Raised) else ListSummaryV(v)))
        return out or [(st, Tainted("comprehension", taint))]

    def _bind(self, target, val, st):
        if isinstance(target, ast.Name):
            st.locals[target.id] = val
        elif isinstance(target, ast.Tuple):
            items = val.items if isinstance(val, TupleV) and len(val.items) == len(target.elts) else [Tainted("component", self._taint_of(val))] * len(target.elts)
            for t, v in zip(target.elts, items):
                self._bind(t, v, st)

    # ---------------------------------------------------------------- expressions
    def eval(self, e, st):
        self.visited_lines.add(getattr(e, "lineno", 0))
        try:
            return FrameExecutor.eval(self, e, st)
        except Undecided as ex_:
            taint = False
            for n in ast.walk(e):
                if isinstance(n, ast.Name) and isinstance(n.ctx, ast.Load) and self._taint_of(st.locals.get(n.id)):
                    taint = True
                if isinstance(n, ast.Attribute) and self.schema.type_of(n.attr) == "auxframe":
                    taint = True
            self.abstracted.append((self.cur_func[-1] if self.cur_func else "?", getattr(e, "lineno", 0), type(e).__name__, str(ex_)[:120]))
            if taint and self._indexes(e):
                self.unclassified.append((self.cur_func[-1], getattr(e, "lineno", 0), ast.unparse(e)[:100]))
                st.oblige("%s/unclassified-read-of-unwindowed-data" % self.cur_func[-1], False, kind="read", props=("C04",), info=dict(expr=ast.unparse(e)[:100]))
            return [(st, Tainted("abstracted expression", taint))]

    def _indexes(self, e):
        for n in ast.walk(e):
            if isinstance(n, ast.Subscript):
                return True
            if isinstance(n, ast.Attribute) and n.attr in ("loc", "iloc", "values", "array", "at", "iat", "iterrows", "items", "tolist", "to_numpy"):
                return True
        return False

    def truth(self, st, v):
        if isinstance(v, Tainted) or isinstance(v, OpaqueV):
            return dsl.fresh_bool("opaque_truth")
        try:
            return FrameExecutor.truth(self, st, v)
        except Undecided:
            return dsl.fresh_bool("opaque_truth")

    def ext_load_attr(self, st, obj, attr):
        if isinstance(obj, ListSummaryV) and attr == "append":
            return [(st, BoundFn("list_append", "append", recv=obj))]
        if isinstance(obj, Tainted):
            if obj.timeidx and attr in ("loc", "iloc", "values", "array", "at", "iat"):
                return [(st, BoundFn("tainted_index", attr, recv=obj))]
            return [(st, Tainted(obj.why, obj.timeidx))]
        if isinstance(obj, ColumnV) and attr == "loc":
            return [(st, BoundFn("colloc", "loc", recv=obj))]
        if isinstance(obj, AuxFrameV) and attr in ("values", "array"):
            return [(st, BoundFn("auxvalues", attr, recv=obj))]
        if isinstance(obj, AuxFrameV) and attr == "get":
            return [(st, BoundFn("auxget", attr, recv=obj))]
        if isinstance(obj, BoundFn) and obj.kind == "auxindex" and attr == "get_loc":
            return [(st, BoundFn("aux_get_loc", attr, recv=obj.recv))]
        if isinstance(obj, BoundFn) and obj.kind == "auxindex" and attr == "get_level_values":
            return [(st, BoundFn("aux_level_values", attr, recv=obj.recv))]
        if isinstance(obj, AuxFrameV) and attr not in ("index", "loc", "columns"):
            return [(st, Tainted("frame.%s" % attr, True))]
        r = FrameExecutor.ext_load_attr(self, st, obj, attr)
        return r

    def ext_load_subscript(self, st, base, i):
        if isinstance(base, BoundFn) and base.kind == "tainted_index":
            self.unclassified.append((self.cur_func[-1], 0, "indexing a value derived from an unwindowed frame"))
            st.oblige("%s/unclassified-read-of-unwindowed-data" % self.cur_func[-1], False, kind="read", props=("C04",))
            return [(st, Tainted("tainted read", True))]
        if isinstance(base, Tainted):
            if base.timeidx:
                st.oblige("%s/unclassified-read-of-unwindowed-data" % self.cur_func[-1], False, kind="read", props=("C04",))
            return [(st, Tainted(base.why, base.timeidx))]
        if isinstance(base, UniverseV) and isinstance(i, (StrV, Tainted)):
            return [(st, ColumnV(base.owner, base.hi))]
        if isinstance(base, AuxFrameV) and isinstance(i, TsMask):
            # rows selected by a timestamp mask: confined iff the mask bounds the timestamps by the clock
            target = getattr(self, "clock_target", None) or st.locals.get("target")
            if i.hi is None or not isinstance(target, RefV):
                st.oblige("%s/read-confined:frame[mask] (no upper bound on timestamps)" % self.cur_func[-1], False, kind="read", props=("C04",))
            else:
                self.read_site(st, "frame[(ts > start) & (ts <= end)]", i.hi, self.now_of(st, target))
            return [(st, Tainted("rows up to the bound", False))]
        if isinstance(base, AuxFrameV) and not isinstance(i, (_SliceV, TupleV, MaskV)):
            # frame[key]: a column / a frame out of a dict of frames: still unwindowed data
            return [(st, AuxFrameV(dsl.fresh_ref("sub_frame")))]
        if isinstance(base, BoundFn) and base.kind == "auxvalues":
            k = self._num(st, i)
            t = z3.simplify(k.r)
            from .heap import idx_f

            if z3.is_app(t) and t.decl().eq(idx_f):
                target = getattr(self, "clock_target", None) or st.locals.get("target")
                if isinstance(target, RefV):
                    self.read_site(st, "frame.values[get_loc(t)]", Num(t.arg(0), False, True), self.now_of(st, target))
                else:
                    st.oblige("%s/unclassified-read-of-unwindowed-data" % self.cur_func[-1], False, kind="read", props=("C04",), info=dict(expr="no clock in scope"))
                return [(st, dsl.fresh_float("cell"))]
            st.oblige("%s/unclassified-read-of-unwindowed-data" % self.cur_func[-1], False, kind="read", props=("C04",), info=dict(expr="positional read .values[i] with i not obtained from index.get_loc"))
            return [(st, dsl.fresh_float("cell"))]
        if isinstance(base, BoundFn) and base.kind == "auxloc" and (isinstance(i, (ListLV, IndexLV, StrV, ListSummaryV)) or (isinstance(i, Tainted) and not i.timeidx)):
            # label selection by names (frames indexed by security, e.g. close dates / roll data): not a time-indexed read
            return [(st, Tainted("rows by name", False))]
        if isinstance(base, BoundFn) and base.kind == "colloc":
            d = self._num(st, i) if not isinstance(i, _SliceV) else None
            if d is not None:
                self.read_site(st, "universe[col].loc[t]", dsl.ite(d <= base.recv.hi, d, base.recv.hi), self.now_of(st, base.recv.owner))
            return [(st, dsl.fresh_float("cell"))]
        if isinstance(base, BoundFn) and base.kind == "auxloc" and isinstance(i, TupleV):
            # frame.loc[t, cols]: row label is what matters
            row = i.items[0]
            if isinstance(row, _SliceV):
                hi = row.hi
                target = getattr(self, "clock_target", None) or st.locals.get("target")
                if hi is None:
                    st.oblige("%s/read-confined:frame.loc[lo:] (open end)" % self.cur_func[-1], False, kind="read", props=("C04",))
                elif isinstance(target, RefV):
                    self.read_site(st, "frame.loc[lo:hi, cols]", self._num(st, hi), self.now_of(st, target))
                return [(st, Tainted("frame window", False))]
            return FrameExecutor.ext_load_subscript(self, st, base, row)
        if isinstance(base, BoundFn) and base.kind == "auxloc" and isinstance(i, _SliceV):
            target = getattr(self, "clock_target", None) or st.locals.get("target")
            if i.hi is None:
                st.oblige("%s/read-confined:frame.loc[lo:] (open end)" % self.cur_func[-1], False, kind="read", props=("C04",))
            elif isinstance(target, RefV):
                self.read_site(st, "frame.loc[lo:hi]", self._num(st, i.hi), self.now_of(st, target))
            return [(st, Tainted("frame window", False))]
        try:
            r = FrameExecutor.ext_load_subscript(self, st, base, i)
        except Undecided:
            r = None
        if r is None and isinstance(base, (RowV, WindowV, UniverseV, MaskV, IndexLV, ListLV)):
            return [(st, Tainted("derived from confined data", False))]
        return r

    def ext_call_value(self, st, f, pos, kw):
        if isinstance(f, Tainted):
            return [(st, Tainted(f.why, f.timeidx or self._taint_of(*pos)))]
        if isinstance(f, BoundFn) and f.kind == "tainted_index":
            return [(st, Tainted("tainted", True))]
        if isinstance(f, BoundFn) and f.kind == "list_append":
            if f.recv.elem is None:
                f.recv.elem = pos[0]
            return [(st, NONEV)]
        if isinstance(f, BoundFn) and f.kind == "auxget":
            return [(st, AuxFrameV(dsl.fresh_ref("sub_frame")))]
        if isinstance(f, BoundFn) and f.kind == "aux_get_loc":
            d = self._num(st, pos[0])
            self.index_facts_label(st, d)
            from .heap import idx_f

            return [(st, Num(idx_f(d.r), False, True))]
        if isinstance(f, BoundFn) and f.kind == "aux_level_values":
            return [(st, TsV(f.recv))]
        try:
            r = FrameExecutor.ext_call_value(self, st, f, pos, kw)
        except Undecided:
            r = None
        if r is None and isinstance(f, BoundFn) and f.kind in ("rowm", "winm", "idxm", "modfn", "builtin"):
            return [(st, Tainted("unmodelled call", self._taint_of(*pos)))]
        return r

    def expr_Call(self, e, st):
        # copy.deepcopy(node): a fresh object of the same class, different from everything reachable before (A-DEEPCOPY); recorded in the log
        if isinstance(e.func, ast.Name) and e.func.id == "deepcopy" and len(e.args) == 1 and "deepcopy" not in st.locals:
            out = []
            for (s, v) in self.eval(e.args[0], st):
                if isinstance(v, RefV):
                    n = RefV(dsl.fresh_ref("deepcopy_of"), v.cls)
                    s.assume(And(n.term != dsl.NONE, n.term != v.term, cls_f(n.term) == cls_f(v.term)))
                    for r in [x for x in s.locals.values() if isinstance(x, RefV)]:
                        s.assume(n.term != r.term)
                    # the copy carries the scalar settings of the original (isomorphic graph)
                    for fld in ("integer_positions", "_fixed_income", "_bidoffer_set", "_paper_trade", "commission_fn", "_issec", "lazy_add", "name"):
                        try:
                            s.heap.set(n, fld, s.heap.get(v, fld))
                        except Exception:
                            pass
                    # isomorphic and disjoint: a self-parented (root) original gives a self-parented copy, otherwise the copy hangs under
                    # fresh copies of its ancestors; nothing that existed before belongs to the new graph
                    from contracts.tree import treeof_f as _treeof, slot_f as _slot, cidx_f as _cidx

                    np_, nr_ = RefV(dsl.fresh_ref("copied_parent"), v.cls), RefV(dsl.fresh_ref("copied_root"), v.cls)
                    vp, vr = s.heap.get(v, "parent"), s.heap.get(v, "root")
                    s.heap.set(n, "parent", RefV(z3.If(vp.term == v.term, n.term, np_.term), vp.cls))
                    s.heap.set(n, "root", RefV(z3.If(vr.term == v.term, n.term, nr_.term), vr.cls))
                    s.assume(_cidx(n.term) >= 0)
                    s.assume(And(np_.term != dsl.NONE, nr_.term != dsl.NONE, np_.term != v.term, nr_.term != v.term, _treeof(n.term) == z3.If(vr.term == v.term, n.term, nr_.term)))
                    for r in [v] + [x for x in s.locals.values() if isinstance(x, RefV)]:
                        s.assume(And(_treeof(r.term) != n.term, _treeof(r.term) != nr_.term, r.term != np_.term, r.term != nr_.term,
                                     _slot(n.term, r.term) == -1, _slot(np_.term, r.term) == -1, _slot(nr_.term, r.term) == -1))
                    s.log.append(("deepcopy", v, (n,), s.heap.copy()))
                    out.append((s, n))
                else:
                    out.append((s, Tainted("deepcopy of %s" % type(v).__name__, self._taint_of(v))))
            return out
        return FrameExecutor.expr_Call(self, e, st)

    def call_function(self, st, fi, recv, pos, kw, exact=False, via_property=False, counted=False):
        try:
            return FrameExecutor.call_function(self, st, fi, recv, pos, kw, exact=exact, via_property=via_property, counted=counted)
        except (Undecided, TypeError, AttributeError, KeyError, ValueError) as e:
            self.abstracted.append((self.cur_func[-1] if self.cur_func else "?", 0, "call:" + fi.qualname, str(e)[:100]))
            return [(st, Tainted("abstracted call of %s" % fi.qualname, self._taint_of(*pos)))]

    def universe_loc(self, st, u, i):
        try:
            return FrameExecutor.universe_loc(self, st, u, i)
        except Undecided:
            # unmodelled column selector: the row/window bound is what matters for confinement
            rowsel = i.items[0] if isinstance(i, TupleV) else i
            owner = u.owner
            if isinstance(rowsel, _SliceV):
                hi = u.hi if rowsel.hi is None else self._num(st, rowsel.hi)
                self.read_site(st, "universe.loc[lo:hi]", dsl.ite(hi <= u.hi, hi, u.hi), self.now_of(st, owner))
                self.window_site(st, owner, None if rowsel.lo is None else self._num(st, rowsel.lo), hi if rowsel.hi is not None else None)
                return [(st, WindowV(owner, None, u.hi, self.ucols(owner)))]
            d = self._num(st, rowsel)
            self.read_site(st, "universe.loc[t]", dsl.ite(d <= u.hi, d, u.hi), self.now_of(st, owner))
            return [(st, Tainted("row of the windowed universe", False))]

    def load_attr(self, st, obj, attr):
        try:
            return FrameExecutor.load_attr(self, st, obj, attr)
        except Undecided:
            if isinstance(obj, RefV) and obj.cls not in ("StrategyBase", "Strategy", "Node", "SecurityBase") and self.schema.type_of(attr) is None:
                # an attribute of the algo that is not in the schema might hold a time-indexed frame: conservative taint
                return [(st, Tainted("unknown attribute %s" % attr, True))]
            raise

    def call_modfn(self, st, name, pos, kw):
        try:
            return FrameExecutor.call_modfn(self, st, name, pos, kw)
        except Undecided:
            return [(st, Tainted(name, self._taint_of(*pos)))]

    def call_builtin(self, st, name, pos, kw):
        try:
            return FrameExecutor.call_builtin(self, st, name, pos, kw)
        except Undecided:
            return [(st, Tainted(name, self._taint_of(*pos)))]

    def binop(self, op, a, b, st):
        if isinstance(a, TsMask) and isinstance(b, TsMask) and isinstance(op, ast.BitAnd):
            his = [m.hi for m in (a, b) if m.hi is not None]
            return [(st, TsMask(a.frame, his[0] if his else None))]
        if isinstance(a, (Tainted, OpaqueV)) or isinstance(b, (Tainted, OpaqueV)):
            return [(st, Tainted("arith", self._taint_of(a, b)))]
        return FrameExecutor.binop(self, op, a, b, st)

    def compare(self, op, a, b, st):
        if isinstance(a, TsV):
            if isinstance(op, (ast.LtE, ast.Lt)) and not isinstance(b, (Tainted, OpaqueV)):
                return TsMask(a.frame, self._num(st, b))
            return TsMask(a.frame, None)
        if isinstance(a, (Tainted, OpaqueV)) or isinstance(b, (Tainted, OpaqueV)):
            return dsl.fresh_bool("opaque_cmp")
        try:
            return FrameExecutor.compare(self, op, a, b, st)
        except Undecided:
            return dsl.fresh_bool("opaque_cmp")

    def _num(self, st, v):
        if isinstance(v, (Tainted, OpaqueV)):
            return dsl.fresh_float("opaque_num")
        return FrameExecutor._num(self, st, v)
