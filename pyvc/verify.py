"""
Verification of one function of /repo against its sidecar contract, and the task runner.

verify_functional:  body |= (post-state == spec(pre-state))   per heap field, per exit,
                    plus side obligations (callee preconditions, division by non-zero, not-None),
                    plus the contract's property clauses proved from the spec alone (lemmas).
"""
import time
import traceback

import z3

from . import dsl
from .dsl import Num, And, Or, Not, Implies, is_z3
from .heap import Heap, RefV, cls_f, TupleV, map_same, map_equal
from .state import State, SpecState, Oblig, Undecided
from .contracts import make_arg, value_same, FunctionalContract, ForallInt
from .prover import prove, model_to_dict
from .symexec import NONEV


def _zb(f):
    return z3.BoolVal(f) if isinstance(f, bool) else f


class FuncReport(object):
    def __init__(self, qualname):
        self.qualname = qualname
        self.results = []  # dicts
        self.paths = 0
        self.exits = {}
        self.symexec_s = 0.0
        self.prove_s = 0.0
        self.undecided = None
        self.source_hash = None
        self.stats = {}
        self.canary = None

    def to_dict(self):
        return dict(
            qualname=self.qualname, results=self.results, paths=self.paths, exits=self.exits, symexec_s=round(self.symexec_s, 3),
            prove_s=round(self.prove_s, 3), undecided=self.undecided, source_hash=self.source_hash, stats=self.stats, canary=self.canary,
        )


def heap_map(heap, key, like=None):
    return heap.ensure(key)


def entry_state(ex, contract, cls_names=None):
    heap0 = Heap(ex.schema)
    recv = None
    st0 = State(heap0)
    if contract.self_cls:
        recv = RefV(dsl.fresh_ref("self"), contract.self_cls)
        st0.assume(recv.term != dsl.NONE)
        names = cls_names
        if names is None:
            # dynamic classes that execute THIS body: subclasses that do not override it
            mname = contract.qualname.rsplit(".", 1)[1]
            names = []
            for c in ex.prog.subclasses(contract.self_cls):
                fi = ex.prog.lookup_method(c, mname) or ex.prog.lookup_property(c, mname)
                if fi is not None and fi.cls == contract.self_cls:
                    names.append(c)
        st0.assume(Or(*[cls_f(recv.term) == ex.schema.tag(c) for c in sorted(names)]))
        st0.ghost["self_classes"] = sorted(names)
    args = [make_arg(t, n) for (n, t) in contract.params]
    return st0, recv, args


def discharge(obligs, timeout_ms, fr, func, realise=None):
    """prove every obligation; obligations that share an exit (same .group) are first tried as one
    conjunction on a solver that holds the path condition once (each still counts and is reported
    individually; a failing batch is split so the failing clause is named)."""
    seen = set()
    t0 = time.time()
    groups = {}
    singles = []
    for o in obligs:
        if id(o) in seen:
            continue
        seen.add(id(o))
        g = getattr(o, "group", None)
        if g is None or isinstance(o.goal, ForallInt):
            singles.append(o)
        else:
            groups.setdefault(g, []).append(o)

    def record(o, verdict, backend, secs, model=None, reason=None, known=None):
        d = dict(id=o.id, kind=o.kind, props=list(o.props), verdict=verdict, backend=backend, secs=round(secs, 4), func=func)
        if verdict == "refuted":
            d["model"] = model_to_dict(model) if model is not None else None
            d["info"] = {k: str(v) for k, v in (o.info or {}).items()}
            if realise is not None and model is not None and not known:
                try:
                    d["scenario"] = realise(model)
                except Exception as e:  # the verdict never depends on the realiser
                    d["scenario"] = dict(unrealisable="realiser failed: %s" % e)
        if reason:
            d["reason"] = reason
        if known:
            d["known"] = known
        fr.results.append(d)

    def single(o):
        r = prove(o, timeout_ms=timeout_ms)
        if r.verdict == "refuted" and realise is not None and getattr(realise, "hyps", None):
            # look for a counter-model inside the reachable states (tree invariant instance, injective index)
            o3 = Oblig(o.id, list(o.pc) + [_zb(h) for h in realise.hyps], o.goal, o.kind, o.props, o.info)
            o3.schemas = getattr(o, "schemas", None)
            r3 = prove(o3, timeout_ms=min(timeout_ms, 10000), use_cvc5=False)
            if r3.verdict == "refuted":
                r.model = r3.model
                if getattr(realise, "nice", None):
                    o4 = Oblig(o.id, list(o3.pc) + [_zb(h) for h in realise.nice], o.goal, o.kind, o.props, o.info)
                    o4.schemas = getattr(o, "schemas", None)
                    r4 = prove(o4, timeout_ms=min(timeout_ms, 10000), use_cvc5=False)
                    if r4.verdict == "refuted":
                        r.model = r4.model
        if r.verdict == "refuted" and getattr(o, "regions", None):
            # known-finding regions: is every counterexample inside a recorded region?
            for (fid, region) in o.regions:
                o2 = Oblig(o.id, list(o.pc) + [_zb(Not(region))], o.goal, o.kind, o.props, o.info)
                o2.schemas = getattr(o, "schemas", None)
                r2 = prove(o2, timeout_ms=timeout_ms)
                if r2.verdict == "proved":
                    record(o, "refuted", r.backend, r.secs + r2.secs, model=r.model, known=fid)
                    return
        record(o, r.verdict, r.backend, r.secs, model=r.model, reason=r.reason if r.verdict == "unknown" else None)

    for o in singles:
        single(o)
    for g, os_ in groups.items():
        if len(os_) < 3:
            for o in os_:
                single(o)
            continue
        s = z3.Solver()
        s.set("timeout", timeout_ms)
        for p in os_[0].pc:
            s.add(_zb(p))
        for o in os_:
            ta = time.time()
            s.push()
            s.add(z3.Not(_zb(o.goal)))
            r = s.check()
            s.pop()
            dt = time.time() - ta
            if r == z3.unsat:
                record(o, "proved", "z3(incremental-per-exit)", dt)
            else:
                single(o)
    fr.prove_s += time.time() - t0


def verify_functional(ex, contract, timeout_ms=30000, extra_pre=None, cls_names=None):
    fr = FuncReport(contract.qualname)
    try:
        fi = ex.prog.func(contract.qualname)
        fr.source_hash = fi.source_hash()
        st0, recv, args = entry_state(ex, contract, cls_names)
        S0 = SpecState(st0.heap)
        for (pid, f) in contract.pre(S0, recv, args):
            st0.assume(_zb(f))
        if extra_pre:
            for f in extra_pre(S0, recv, args):
                st0.assume(_zb(f))
        # spec post-state from the entry heap
        Sspec = SpecState(st0.heap.copy())
        kw = {"exact": True} if contract.family else {}
        res_spec = contract.spec(Sspec, recv, *args, **kw)
        # symbolic execution of the real body
        t0 = time.time()
        exits = ex.run_function(fi, st0.fork(), recv, args)
        fr.symexec_s = time.time() - t0
        fr.paths = len(exits)
        obligs = []
        fname = contract.qualname.split(".", 2)[-1]
        nreach = 0
        for xi, (st, oc) in enumerate(exits):
            kind = oc.kind if oc.kind != "raise" else "raise:" + oc.exc
            fr.exits[kind] = fr.exits.get(kind, 0) + 1
            obligs.extend(st.obligs)
            if oc.kind == "raise" and oc.exc == "<cut>":
                continue
            nbefore = len(obligs)
            if oc.kind in ("normal", "return"):
                obligs.append(Oblig("%s/post/no-raise" % fname, st.pc, Not(Sspec.raised), "post", contract.field_props.get("raises", ())))
                rv = oc.value if oc.kind == "return" else NONEV
                sv = res_spec if res_spec is not None else NONEV
                if isinstance(sv, tuple):
                    sv = TupleV(list(sv))
                if not (rv is NONEV and sv is NONEV):
                    obligs.append(Oblig("%s/post/result" % fname, st.pc, value_same(rv, sv), "post", contract.field_props.get("result", ())))
            elif oc.kind == "raise":
                conds = [c for (c, e) in Sspec.raises if e == oc.exc]
                obligs.append(Oblig("%s/post/raises:%s" % (fname, oc.exc), st.pc, Or(*conds) if conds else False, "post", contract.field_props.get("raises", ())))
            keys = list(st.heap.maps.keys())
            for k in Sspec.heap.maps.keys():
                if k not in st.heap.maps:
                    keys.append(k)
            for k in keys:
                a = st.heap.maps.get(k)
                b = Sspec.heap.maps.get(k)
                like = a if a is not None else b
                a = heap_map(st.heap, k, like)
                b = heap_map(Sspec.heap, k, like)
                if map_same(a, b):
                    continue
                base = k.split("#")[0]
                obligs.append(Oblig("%s/post/field:%s" % (fname, k), st.pc, map_equal(a, b), "post", contract.field_props.get(base, contract.field_props.get("*", ()))))
            for o in obligs[nbefore:]:
                o.group = xi
        # needs of the spec itself
        for (sid, cond, goal) in Sspec.side:
            obligs.append(Oblig("%s/spec-need/%s" % (fname, sid), st0.pc, Implies(cond, goal), "side"))
        # property clauses (lemmas from the spec)
        if contract.clauses:
            ctx = dict(S0=S0, S1=Sspec, self=recv, args=args, result=res_spec, ex=ex)
            for (cid, props, f) in contract.clauses(ctx):
                obligs.append(Oblig("%s/clause/%s" % (fname, cid), st0.pc, f, "clause", props))
        # vacuity canary: the precondition is satisfiable and at least one exit is reachable
        s = z3.Solver()
        s.set("timeout", 10000)
        for p in st0.pc:
            s.add(p)
        fr.canary = str(s.check())
        discharge(obligs, timeout_ms, fr, contract.qualname, realise=make_realiser(ex, contract, st0, recv, args))
        fr.stats = dict(feas_queries=ex.stats.feas_queries, feas_s=round(ex.stats.feas_time, 3), inlined=sorted(ex.stats.inlined), contracts_used=sorted(ex.stats.contracts_used))
    except Undecided as e:
        fr.undecided = str(e)
    except Exception as e:
        fr.undecided = "ENGINE-ERROR: %s\n%s" % (e, traceback.format_exc())
    return fr


def make_realiser(ex, contract, st0, recv, args):
    """counter-model -> scenario (JSON) for functions whose receiver is a security or a strategy"""
    if recv is None or contract.self_cls is None:
        return None
    if not (ex.prog.is_subclass(contract.self_cls, "SecurityBase") or ex.prog.is_subclass(contract.self_cls, "StrategyBase")):
        return None
    from .concrete import sec_scenario

    tag_names = {v: k for k, v in ex.schema.class_tags.items()}
    heap0 = st0.heap.copy()

    def realise(model):
        sc = sec_scenario(model, heap0, recv, args, contract.params, ex.schema, tag_names)
        sc["qualname"] = contract.qualname
        return sc

    # reachable-state constraints used only to pick a replayable counter-model (never to prove)
    from .heap import idx_f
    import z3 as _z3

    hyps = []
    h = heap0
    is_sec = ex.prog.is_subclass(contract.self_cls, "SecurityBase")
    par = h.get(recv, "parent") if is_sec else recv
    rt = h.get(par, "root")
    if is_sec:
        hyps += [par.term != recv.term, rt.term != recv.term, h.get(recv, "_prices_set"), h.get(recv, "_bidoffer_set") == h.get(par, "_bidoffer_set"),
                 h.get(recv, "integer_positions") == h.get(par, "integer_positions")]
        hyps += [_z3.Not(_zb(dsl.isnan(h.get(recv, f)))) for f in ("_position", "multiplier", "_last_pos", "_outlay", "_weight", "_bidoffer_paid")]
        hyps += [h.get(recv, "multiplier").r > 0]
    hyps += [h.get(rt, "root").term == rt.term, h.get(par, "_bidoffer_set") == h.get(rt, "_bidoffer_set")]
    hyps += [_z3.Not(_zb(dsl.isnan(h.get(par, f)))) for f in ("_capital", "_last_fee", "_net_flows")]
    dts = [h.get(recv, "now").r, h.get(par, "now").r, h.get(rt, "now").r]
    for (n, t), v in zip(contract.params, args):
        if t == "date":
            dts.append(v.r)
        if t in ("float",) and hasattr(v, "nan") and v.nan is not False:
            hyps.append(_z3.Not(v.nan))
        if t == "optint":
            hyps.append(_z3.Or(_zb(v.isnone), _z3.And(v.val.r >= 0, v.val.r < 50)))
    for i, a in enumerate(dts):
        hyps += [_z3.Or(a == 0, _z3.And(idx_f(a) >= 0, idx_f(a) < 40)), a >= 0]
        for b in dts[i + 1:]:
            hyps.append(_z3.Implies(a != b, idx_f(a) != idx_f(b)))
    realise.hyps = hyps
    # "float-friendly" inputs (only to pick a counter-model that survives the passage from reals to doubles): multiples of 1/8 of moderate size
    from .concrete import SEC_FLOATS, STRAT_FLOATS

    nice = []

    def _nice(v):
        r = getattr(v, "r", None)
        if r is None or not is_z3(r) or r.sort() != _z3.RealSort():
            return
        nice.append(_z3.IsInt(8 * r))
        nice.append(_z3.And(r >= -100000, r <= 100000))
        nice.append(_z3.Or(r == 0, r >= _z3.RealVal("1/8"), r <= -_z3.RealVal("1/8")))

    for node, fields in ((recv, SEC_FLOATS if is_sec else STRAT_FLOATS), (par, STRAT_FLOATS)):
        for f in fields:
            try:
                _nice(h.get(node, f))
            except Exception:
                pass
    for (n, t), v in zip(contract.params, args):
        if t in ("float", "real"):
            _nice(v)
        elif t == "optfloat":
            _nice(v.val)
    realise.nice = nice
    return realise
