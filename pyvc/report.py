"""
Verdict, evidence file and violation lines for one property.

Exit codes: 0 held / 1 VIOLATION (a named obligation refuted, replay attached) / 2 undecided
(unknown, unsupported construct: never reported as a violation) / 3 checker error.
"""
import hashlib
import json
import os
import sys
import time

from .source import DROPPED

VERIF = os.path.dirname(os.path.dirname(os.path.abspath(__file__)))

ASSUMPTIONS = {
    "A-REAL": "floats are mathematical reals plus a NaN flag: no rounding, overflow, infinities or signed zero (float-level behaviour only in bounded stand-ins)",
    "A-CYTHON": "the compiled extension is Cython's faithful translation of bt/core.py (proofs read the source)",
    "A-IND": "modular recursion over a well-founded tree: a method verified against its own contract on strictly smaller subtrees",
    "A-COMM": "the commission function is a deterministic function of (quantity, price) (uninterpreted otherwise)",
    "A-SOLVER": "z3 5.1 / cvc5 1.4 'unsat' answers are trusted; every 'sat' is reported with its model",
    "A-ENGINE": "the VC generator (pyvc) is sound for the stated Python subset; mitigated by canaries and mutation self-tests",
    "A-T": "tree invariant T (parent/root links, disjoint subtrees, per-node history series are distinct objects) holds on entry of every function under contract; established by the constructors/setup contracts",
    "A-TIME": "dates are integers; DateOffset arithmetic is additive on them",
    "A-DET": "user callables and third-party numerics are deterministic functions of their arguments",
    "A-DEEPCOPY": "copy.deepcopy returns a fresh, isomorphic, disjoint object graph",
    "A-PANDAS": "the pandas operators used by a function behave like the operator definitions of the label/Series algebra in pyvc/ext_frames.py (audited exhaustively on a small domain by the bounded script c14_select at run time)",
    "A-CAL": "calendar accessors of pandas.Timestamp are those of the proleptic Gregorian / ISO calendars (audited exhaustively)",
    "A-EXT": "third-party numerics (ffn, sklearn, numpy.linalg) satisfy their assumed contracts",
}


def load_known():
    p = os.path.join(VERIF, "KNOWN_FINDINGS.json")
    if not os.path.exists(p):
        return []
    with open(p) as f:
        return json.load(f).get("findings", [])


class _OpenKnown(dict):
    def get(self, pid, default=None):
        if pid not in self:
            self[pid] = {f["id"] for f in load_known() if f.get("property") == pid and f.get("status", "known") == "known"}
        return self[pid]


OPEN_KNOWN = _OpenKnown()


def _relevant(o, pid):
    return (not o.get("props")) or (pid in o["props"])


def summarize(pid, tier, seed, results, meta, t_start, extra_cov=None, known_lines=None, bounded=None):
    """results: list of task result dicts (from runner). meta: dict(level_note, assumptions, checker_cmd ...)"""
    obligations = 0
    discharged = 0
    by_backend = {}
    solver_s = 0.0
    refuted = []
    unknown = []
    undecided = []
    errors = []
    functions = []
    samples = []
    by_id = {}
    for r in results:
        if r.get("error"):
            errors.append(dict(task=r["task"], error=r["error"]))
            continue
        kind = r["task"]["kind"]
        if kind == "func":
            functions.append(
                dict(
                    qualname=r["qualname"], source_hash=r.get("source_hash"), statements=r.get("nstmts"), paths=r.get("paths"), exits=r.get("exits"),
                    symexec_s=r.get("symexec_s"), prove_s=r.get("prove_s"), canary_pre_satisfiable=r.get("canary"), inlined=(r.get("stats") or {}).get("inlined"),
                    callee_contracts_used=(r.get("stats") or {}).get("contracts_used"), feasibility_queries=(r.get("stats") or {}).get("feas_queries"),
                    contract=r.get("contract_note", ""), undecided=r.get("undecided"),
                )
            )
            if r.get("alpha"):
                functions[-1]["locals_alpha_renamed_before_verification"] = r["alpha"]
            if r.get("undecided"):
                undecided.append(dict(function=r["qualname"], reason=r["undecided"]))
            if r.get("canary") not in ("sat", None) and not r.get("undecided"):
                errors.append(dict(task=r["task"], error="vacuity canary: precondition not satisfiable (%s)" % r.get("canary")))
            if not r.get("undecided") and not r.get("results"):
                errors.append(dict(task=r["task"], error="zero obligations generated"))
        for o in r.get("results", []):
            if not _relevant(o, pid):
                continue
            obligations += 1
            solver_s += o.get("secs", 0)
            e = by_id.setdefault(o["id"], dict(id=o["id"], kind=o.get("kind"), instances=0, proved=0, refuted=0, unknown=0, secs=0.0, backends=set(), props=o.get("props")))
            e["instances"] += 1
            e["secs"] += o.get("secs", 0)
            e["backends"].add(o.get("backend"))
            if o["verdict"] == "proved":
                discharged += 1
                e["proved"] += 1
                by_backend[o["backend"]] = by_backend.get(o["backend"], 0) + 1
            elif o["verdict"] == "refuted":
                e["refuted"] += 1
                refuted.append(o)
                if o.get("known") and o["known"] in OPEN_KNOWN.get(pid, set()):
                    # proved under the exclusion of the recorded region (second solver query in verify.single): discharged as such
                    discharged += 1
                    by_backend["z3 (outside the recorded known-finding region)"] = by_backend.get("z3 (outside the recorded known-finding region)", 0) + 1
            else:
                e["unknown"] += 1
                unknown.append(o)
        for s in r.get("samples", []) or []:
            samples.append(s)
    obl_list = []
    for e in by_id.values():
        e["backends"] = sorted(x for x in e["backends"] if x)
        e["secs"] = round(e["secs"], 4)
        obl_list.append(e)
    obl_list.sort(key=lambda e: e["id"])
    for e in obl_list[:6]:
        samples.append(dict(obligation=e["id"], kind=e["kind"], path_instances=e["instances"], proved=e["proved"], backends=e["backends"], solver_s=e["secs"]))
    cov = dict(
        obligations=obligations, discharged=discharged, checker_cmd=meta.get("checker_cmd", "./check %s --tier %s" % (pid, tier)),
        trusted_base=meta.get("trusted_base", ["z3 5.1.0 (python API)", "cvc5 1.4.0 (fallback on unknown)", "pyvc VC generator (/verif/pyvc)", "CPython ast module"]),
        by_backend=by_backend, solver_s=round(solver_s, 3), functions_under_contract=functions, extraction_drops=DROPPED,
        obligations_by_id=obl_list, samples=samples[:12], undecided=undecided, unknown=[dict(id=o["id"], reason=o.get("reason")) for o in unknown[:20]],
        explanation=meta.get("explanation", ""),
    )
    if extra_cov:
        cov.update(extra_cov)
    if bounded:
        cov.update(bounded)
    level = meta.get("level", "proof")
    if level == "exploration":
        # the deciding part of this check is the bounded real-code stand-in: report its measured counts as the coverage of record
        bs = (bounded or {}).get("bounded_stand_ins") or []
        cov["evaluations"] = int(sum(b.get("evaluations", 0) for b in bs))
        cov["distinct_nontrivial"] = int(sum(b.get("distinct_nontrivial", 0) for b in bs))
        cov["rule"] = " | ".join(b.get("rule", "") for b in bs)
        cov["lemma_obligations_discharged_by_solver"] = discharged
    ev = dict(
        property_id=pid, tier=tier, seed=seed, level=level, coverage=cov, assumptions=[("%s: %s" % (a, ASSUMPTIONS.get(a, ""))) if a in ASSUMPTIONS else a for a in meta.get("assumptions", [])],
        wall_s=round(time.time() - t_start, 2), violations=0,
    )
    return ev, refuted, unknown, undecided, errors


def write_replay(pid, o, extra=None):
    d = os.path.join(VERIF, "out", "replays")
    os.makedirs(d, exist_ok=True)
    h = hashlib.sha256((o["id"] + json.dumps(o.get("model") or {}, sort_keys=True)).encode()).hexdigest()[:10]
    path = os.path.join("out", "replays", "%s-%s.json" % (pid, h))
    body = dict(property=pid, failed_obligation=o["id"], function=o.get("func"), verdict=o["verdict"], backend=o.get("backend"), solver_model=o.get("model"), info=o.get("info"))
    if extra:
        body.update(extra)
    with open(os.path.join(VERIF, path), "w") as f:
        json.dump(body, f, indent=1, default=str)
    return path


def finish(pid, ev, refuted, unknown, undecided, errors, replay_fn=None, known=None, known_witness_fn=None):
    """print verdict lines, write the evidence file, return the exit code"""
    known = known or []
    code = 0
    lines = []
    known_hits = {}
    viol = []
    open_ids = {f["id"] for f in known if f.get("property") == pid and f.get("status", "known") == "known"}
    for o in refuted:
        # a refutation confined to a recorded region counts as that finding only while the finding is listed as open for this property
        if o.get("known") and o["known"] in open_ids:
            known_hits.setdefault(o["known"], []).append(o)
        else:
            viol.append(o)
    # group violations by obligation id
    seen = set()
    nviol = 0
    for o in viol:
        if o["id"] in seen:
            continue
        seen.add(o["id"])
        nviol += 1
        extra = None
        tail = ""
        if o.get("replay_inline"):
            extra = o["replay_inline"]      # a bounded stand-in's failing input: a real execution, reproduced when the script ran
        elif replay_fn is not None:
            try:
                extra = replay_fn(o)
            except Exception as e:  # replay machinery must never mask the verdict
                extra = dict(replay_error=str(e))
        if not extra or not extra.get("reproduced"):
            tail = " no-failing-input-found"
            if o.get("alpha"):
                # the contracts reached this body through a guessed renaming of its locals: without an input that fails on the real code the
                # refutation may be an artefact of the guess.  Undecided, not a violation.
                nviol -= 1
                unknown.append(dict(o, reason="refuted only on the alpha-renamed body (locals matched to the contract's names by binding order) and no failing input was found on the real code"))
                continue
        path = write_replay(pid, o, extra)
        lines.append("VIOLATION property=%s replay=%s obligation=%s%s" % (pid, path, o["id"], tail))
        code = 1
    ev["violations"] = nviol
    kf = []
    for f in known:
        if f.get("property") != pid or f.get("status", "known") != "known":
            continue
        hit = known_hits.get(f["id"])
        still = None
        if known_witness_fn is not None:
            try:
                still = known_witness_fn(f)
            except Exception as e:
                still = None
        if hit or still:
            lines.append("KNOWN-FINDING: property=%s %s" % (pid, f["what"]))
            kf.append(dict(id=f["id"], what=f["what"], obligation_refuted_only_inside_region=bool(hit), witness_still_fails=still))
    ev["coverage"]["known_findings_replayed"] = kf
    if code == 0:
        if errors:
            code = 3
        elif unknown or undecided:
            code = 2
    ev["coverage"]["errors"] = errors[:10]
    ev["coverage"]["verdict"] = {0: "held", 1: "violation", 2: "undecided", 3: "checker-error"}[code]
    # evidence describes /repo itself: runs against another tree (BT_REPO, used to test seeded changes) never overwrite it
    evdir = os.path.join(VERIF, "evidence")
    other = os.environ.get("BT_REPO")
    if other and os.path.realpath(other) != os.path.realpath("/repo"):
        evdir = os.path.join(VERIF, "out", "evidence-other-tree")
        ev["coverage"]["tree"] = other
    os.makedirs(evdir, exist_ok=True)
    with open(os.path.join(evdir, "%s.json" % pid), "w") as f:
        json.dump(ev, f, indent=1, default=str)
    for ln in lines:
        print(ln)
    if code == 2:
        for u in undecided[:5]:
            print("UNDECIDED function=%s reason=%s" % (u["function"], str(u["reason"])[:300]))
        for o in unknown[:5]:
            print("UNDECIDED obligation=%s reason=%s" % (o["id"], o.get("reason")))
    if code == 3:
        for e in errors[:5]:
            print("CHECKER-ERROR %s" % str(e)[:600])
    c = ev["coverage"]
    print("%s %s: %d obligations, %d discharged, %d violation(s), %d known finding(s), wall %.1fs -> exit %d" % (pid, ev["tier"], c["obligations"], c["discharged"], nviol, len(kf), ev["wall_s"], code))
    return code
