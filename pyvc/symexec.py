"""
Forking symbolic executor over the real Python AST of /repo/bt.

 * statements fork at undecided branches; infeasible branches are pruned by a cheap solver query
   over the (ground) path condition; `unknown` keeps the branch (sound: only extra paths)
 * calls are modular: a callee with a contract is replaced by its contract (pre => obligation,
   post => assumption); small getters and helpers listed in `inline` are executed in place
 * loops are cut at sidecar invariants (see contracts.LoopSpec)
 * constructs outside the subset raise Undecided -> the function's obligations are 'undecided'
"""
import ast
import time
from fractions import Fraction

import z3

from . import dsl
from .dsl import Num, And, Or, Not, Implies, ite, is_z3
from .heap import Heap, RefV, StrV, HistV, HistBuf, HistSlice, ListV, DictV, Opt, TupleV, FnV, FrameV, comm_f, idx_f, cls_f
from .state import State, Outcome, NORMAL, Oblig, Undecided, SpecState


class ModV(object):
    def __init__(self, name):
        self.name = name


class BoundFn(object):
    """callable value: builtin / module function / bound method"""

    def __init__(self, kind, name, recv=None, extra=None):
        self.kind = kind
        self.name = name
        self.recv = recv
        self.extra = extra


class PyObjV(object):
    """result of opaque user code used as a condition: its truthiness and whether it IS the False / True singleton"""

    def __init__(self, truthy, isfalse, istrue):
        self.truthy, self.isfalse, self.istrue = truthy, isfalse, istrue

    @staticmethod
    def of_bool(b):
        b = z3.BoolVal(b) if isinstance(b, bool) else b
        return PyObjV(b, z3.Not(b), b)


class NoneV(object):
    def __repr__(self):
        return "NoneV"


NONEV = NoneV()

MODULE_ALIASES = {"np": "np", "math": "math", "pd": "pd", "cy": "cy", "bt": "bt", "random": "random", "re": "re"}

BUILTIN_EXC = ("Exception", "ValueError", "ZeroDivisionError", "KeyError", "NotImplementedError", "TypeError", "AttributeError", "IndexError")


class Stats(object):
    def __init__(self):
        self.feas_queries = 0
        self.feas_time = 0.0
        self.paths = 0
        self.inlined = set()
        self.contracts_used = set()


class Executor(object):
    def __init__(self, prog, schema, contracts, inline=(), feas_timeout_ms=1500):
        self.prog = prog
        self.schema = schema
        self.contracts = contracts  # qualname -> Contract
        self.inline = set(inline)
        self.feas_timeout_ms = feas_timeout_ms
        self.stats = Stats()
        self.loop_specs = {}  # (qualname, ordinal) -> LoopSpec
        self.cur_func = []
        self.loop_counter = []
        self.module_consts = {"TOL": Num.lift(dsl.TOL), "PAR": Num.lift(100.0)}
        self.max_paths = 20000

    # ------------------------------------------------------------------ feasibility
    def feasible(self, st, cond):
        if cond is True:
            return True
        if cond is False:
            return False
        c = z3.simplify(cond)
        if z3.is_true(c):
            return True
        if z3.is_false(c):
            return False
        t0 = time.time()
        s = z3.Solver()
        s.set("timeout", self.feas_timeout_ms)
        for p in st.pc:
            s.add(p)
        s.add(c)
        r = s.check()
        self.stats.feas_queries += 1
        self.stats.feas_time += time.time() - t0
        return r != z3.unsat

    def branch(self, st, cond):
        """-> list of (state, bool)"""
        if isinstance(cond, bool):
            return [(st, cond)]
        c = z3.simplify(cond)
        if z3.is_true(c):
            return [(st, True)]
        if z3.is_false(c):
            return [(st, False)]
        out = []
        ft = self.feasible(st, c)
        ff = self.feasible(st, z3.Not(c))
        if ft and ff:
            s2 = st.fork()
            st.assume(c)
            st.path.append("T")
            s2.assume(z3.Not(c))
            s2.path.append("F")
            return [(st, True), (s2, False)]
        if ft:
            st.assume(c)
            return [(st, True)]
        if ff:
            st.assume(z3.Not(c))
            return [(st, False)]
        return []

    # ------------------------------------------------------------------ truthiness
    def truth(self, st, v):
        """python truthiness of a value -> z3 bool / python bool"""
        if isinstance(v, bool):
            return v
        if v is NONEV:
            return False
        if isinstance(v, (int, float)):
            return bool(v)
        if is_z3(v) and v.sort() == z3.BoolSort():
            return v
        if isinstance(v, PyObjV):
            return v.truthy
        if isinstance(v, Num):
            return v.ne(0)
        if isinstance(v, DictV):
            return st.heap.list_len(v.owner, "_childrenv") > 0 if v.field == "children" else self._undecided("truthiness of dict %s" % v.field)
        if isinstance(v, ListV):
            return st.heap.list_len(v.owner, v.field) > 0
        if isinstance(v, Opt):
            # an optional is true when it is not None AND its value is true (0.0, an empty list ... are false as well)
            inner = self.truth(st, v.val)
            if isinstance(v.isnone, bool):
                return False if v.isnone else inner
            if isinstance(inner, bool):
                return Not(v.isnone) if inner else False
            return And(Not(v.isnone), inner)
        if isinstance(v, RefV):
            return v.term != dsl.NONE
        if isinstance(v, str):
            return len(v) > 0
        self._undecided("truthiness of %r" % (v,))

    def _undecided(self, msg):
        raise Undecided("%s [in %s]" % (msg, self.cur_func[-1] if self.cur_func else "?"))

    # ------------------------------------------------------------------ blocks / statements
    def exec_block(self, stmts, st):
        results = []
        work = [(st, 0)]
        while work:
            s, k = work.pop()
            if k == len(stmts):
                results.append((s, NORMAL))
                continue
            for (s2, oc) in self.exec_stmt(stmts[k], s):
                if oc.kind == "normal":
                    work.append((s2, k + 1))
                else:
                    results.append((s2, oc))
            if len(results) + len(work) > self.max_paths:
                self._undecided("path explosion")
        return results

    def exec_stmt(self, node, st):
        m = getattr(self, "stmt_" + type(node).__name__, None)
        if m is None:
            self._undecided("statement %s (line %s)" % (type(node).__name__, getattr(node, "lineno", "?")))
        return m(node, st)

    def stmt_Pass(self, node, st):
        return [(st, NORMAL)]

    def stmt_Expr(self, node, st):
        if isinstance(node.value, ast.Constant):
            return [(st, NORMAL)]
        out = []
        for (s, v) in self.eval(node.value, st):
            if isinstance(v, _Raised):
                out.append((s, Outcome("raise", exc=v.exc)))
            else:
                out.append((s, NORMAL))
        return out

    def stmt_Return(self, node, st):
        if node.value is None:
            return [(st, Outcome("return", NONEV))]
        out = []
        for (s, v) in self.eval(node.value, st):
            if isinstance(v, _Raised):
                out.append((s, Outcome("raise", exc=v.exc)))
            else:
                out.append((s, Outcome("return", v)))
        return out

    def stmt_Break(self, node, st):
        return [(st, Outcome("break"))]

    def stmt_Continue(self, node, st):
        return [(st, Outcome("continue"))]

    def stmt_Raise(self, node, st):
        exc = "Exception"
        e = node.exc
        if isinstance(e, ast.Call):
            f = e.func
            if isinstance(f, ast.Name):
                exc = f.id
            # message arguments: not evaluated; must be side-effect free (names, attributes, constants, % formatting)
            for a in e.args:
                self._check_pure_message(a)
        elif isinstance(e, ast.Name):
            exc = e.id
        elif e is None:
            self._undecided("re-raise")
        return [(st, Outcome("raise", exc=exc))]

    def _check_pure_message(self, a):
        for n in ast.walk(a):
            if isinstance(n, ast.Call):
                self._undecided("call inside exception message")

    def stmt_Assign(self, node, st):
        out = []
        for (s, v) in self.eval(node.value, st):
            if isinstance(v, _Raised):
                out.append((s, Outcome("raise", exc=v.exc)))
                continue
            states = [s]
            for tgt in node.targets:
                nxt = []
                for s1 in states:
                    nxt.extend(self.assign(tgt, v, s1))
                states = nxt
            for s1 in states:
                if isinstance(s1, tuple):
                    out.append(s1)
                else:
                    out.append((s1, NORMAL))
        return out

    def stmt_AugAssign(self, node, st):
        # target op= value  (evaluation order: target read, value, op, store)
        load = self._as_load(node.target)
        out = []
        for (s, cur) in self.eval(load, st):
            if isinstance(cur, _Raised):
                out.append((s, Outcome("raise", exc=cur.exc)))
                continue
            for (s1, v) in self.eval(node.value, s):
                if isinstance(v, _Raised):
                    out.append((s1, Outcome("raise", exc=v.exc)))
                    continue
                for (s2, r) in self.binop(node.op, cur, v, s1):
                    if isinstance(r, _Raised):
                        out.append((s2, Outcome("raise", exc=r.exc)))
                        continue
                    for s3 in self.assign(node.target, r, s2):
                        out.append(s3 if isinstance(s3, tuple) else (s3, NORMAL))
        return out

    def _as_load(self, t):
        import copy

        t2 = copy.copy(t)
        t2.ctx = ast.Load()
        return t2

    def assign(self, tgt, v, st):
        """-> list of states (or (state, Outcome) tuples for raises)"""
        if isinstance(tgt, ast.Name):
            st.locals[tgt.id] = v
            return [st]
        if isinstance(tgt, ast.Tuple):
            if not isinstance(v, TupleV) or len(v.items) != len(tgt.elts):
                self._undecided("tuple unpacking of non-tuple")
            states = [st]
            for t, item in zip(tgt.elts, v.items):
                nxt = []
                for s in states:
                    nxt.extend(self.assign(t, item, s))
                states = nxt
            return states
        if isinstance(tgt, ast.Attribute):
            out = []
            for (s, obj) in self.eval(tgt.value, st):
                if isinstance(obj, _Raised):
                    out.append((s, Outcome("raise", exc=obj.exc)))
                    continue
                if not isinstance(obj, RefV):
                    self._undecided("attribute store on non-object")
                self.store_attr(s, obj, tgt.attr, v)
                out.append(s)
            return out
        if isinstance(tgt, ast.Subscript):
            out = []
            for (s, base) in self.eval(tgt.value, st):
                if isinstance(base, _Raised):
                    out.append((s, Outcome("raise", exc=base.exc)))
                    continue
                for (s1, i) in self.eval_index(tgt.slice, s):
                    out.extend(self.store_subscript(s1, base, i, v))
            return out
        self._undecided("assignment target %s" % type(tgt).__name__)

    def store_attr(self, st, obj, attr, v):
        if attr == "_funiverse" and type(v).__name__ == "FrameWinV":
            st.heap.set(obj, "_funiverse_hi", v.hi)
            return
        if attr == "_funiverse" and isinstance(v, FrameV):
            # the whole, unwindowed frame: no upper bound on the labels it exposes
            st.heap.set(obj, "_funiverse_hi", dsl.fresh_int("unbounded_window"))
            return
        if attr in ("temp", "perm"):
            if (isinstance(v, _EmptyDict) or getattr(v, "desc", None) == "{}") and attr == "temp":
                m = st.heap.ensure("temp#has")
                st.heap.maps["temp#has"] = m.store(obj.term, z3.K(dsl.Str, z3.BoolVal(False)))
                return
            st.heap.set(obj, "perm_ver", dsl.fresh_int("perm_ver"))
            return
        t = self.schema.type_of(attr)
        if t is None:
            self._undecided("attribute %s not in schema (store)" % attr)
        if t in ("float",) and isinstance(v, (int, float)):
            v = Num.lift(float(v)) if not isinstance(v, bool) else Num.lift(int(v))
        if t == "bool" and isinstance(v, (int,)) and not isinstance(v, bool):
            v = bool(v)
        if t == "opaque":
            return
        if t == "hist" or t == "list" or t == "dict" or t == "opthist":
            self._undecided("store of %s attribute %s" % (t, attr))
        if v is NONEV and t not in ("optfloat", "optdict", "optdate"):
            self._undecided("store of None into %s" % attr)
        hook = getattr(self, "on_store", None)
        if hook:
            hook(st, obj, attr, v)
        st.heap.set(obj, attr, v)

    def store_subscript(self, st, base, i, v):
        if isinstance(base, HistBuf):
            if isinstance(i, _SliceAll):
                st.heap.hist_fill(base.hist.owner, base.hist.field, v)
                hook = getattr(self, "on_hist_store", None)
                if hook:
                    hook(st, base.hist, None, v)
                return [st]
            i = self._num(st, i)
            hook = getattr(self, "on_hist_store", None)
            if hook:
                hook(st, base.hist, i, v)
            st.heap.hist_set(base.hist.owner, base.hist.field, i, v)
            return [st]
        if isinstance(base, BoundFn) and base.kind == "loc" and isinstance(base.recv, FrameV) and base.recv.field == "_universe" and isinstance(i, TupleV) and len(i.items) == 2 and isinstance(i.items[1], StrV):
            # strategy._universe.loc[date, child_name] = v : the column a parent keeps for a strategy child
            owner = base.recv.owner
            d = self._num(st, i.items[0])
            child = st.heap.dict_at(owner, "children", i.items[1], "Node")
            row = Num(idx_f(d.r), False, True)
            st.heap.hist_set(child, "_ucol", row, self._num(st, v))
            return [st]
        h = getattr(self, "ext_store_subscript", None)
        if h:
            r = h(st, base, i, v)
            if r is not None:
                return r
        self._undecided("subscript store on %s" % type(base).__name__)

    def stmt_If(self, node, st):
        out = []
        base_len = len(st.pc)
        base_pc = list(st.pc)
        for (s, c) in self.eval_cond(node.test, st):
            if isinstance(c, _Raised):
                out.append((s, Outcome("raise", exc=c.exc)))
                continue
            body = node.body if c else node.orelse
            out.extend(self.exec_block(body, s))
        return self.merge_outcomes(out, base_pc)

    # ------------------------------------------------------------------ state merging at joins
    def merge_outcomes(self, outs, base_pc):
        """merge the normally-completing states of a conditional into one (values become ite-terms),
        when they differ only in locals / heap / path condition"""
        normals = [(s, oc) for (s, oc) in outs if oc.kind == "normal"]
        if len(normals) < 2 or not getattr(self, "merge_enabled", True):
            return outs
        others = [(s, oc) for (s, oc) in outs if oc.kind != "normal"]
        m = self.merge_states([s for (s, _) in normals], base_pc)
        if m is None:
            return outs
        return others + [(m, NORMAL)]

    def merge_states(self, states, base_pc):
        n0 = len(base_pc)
        for s in states:
            if len(s.pc) < n0 or any(not (a is b or z3.eq(_zb(a), _zb(b))) for a, b in zip(s.pc[:n0], base_pc)):
                return None
        first = states[0]
        for s in states[1:]:
            if len(s.log) != len(first.log) or any(a is not b for a, b in zip(s.log, first.log)):
                return None
            if set(s.ghost.keys()) != set(first.ghost.keys()) or any(s.ghost[k] is not first.ghost[k] and s.ghost[k] != first.ghost[k] for k in first.ghost if k != "schemas"):
                return None
            if len(s.ghost.get("schemas", [])) != len(first.ghost.get("schemas", [])):
                return None
        guards = []
        for s in states:
            extra = [_zb(p) for p in s.pc[n0:]]
            guards.append(z3.And(*extra) if len(extra) > 1 else (extra[0] if extra else z3.BoolVal(True)))
        m = first.fork()
        m.pc = list(base_pc) + [z3.Or(*guards)]
        # locals
        names = []
        for s in states:
            for k in s.locals:
                if k not in names:
                    names.append(k)
        newloc = {}
        for k in names:
            vals = [s.locals.get(k, _MISSING) for s in states]
            if any(v is _MISSING for v in vals):
                # defined on some branches only: usable only if never read afterwards; keep undefined
                continue
            mv = self._merge_vals(vals, guards)
            if mv is _NOMERGE:
                return None
            newloc[k] = mv
        m.locals = newloc
        # heap
        keys = []
        for s in states:
            for k in s.heap.maps:
                if k not in keys:
                    keys.append(k)
        from .heap import IMap, map_same

        for k in keys:
            maps = [s.heap.ensure(k) for s in states]
            cur = maps[-1]
            for g, mp in zip(reversed(guards[:-1]), reversed(maps[:-1])):
                if not map_same(mp, cur):
                    cur = IMap(g, mp, cur)
            m.heap.maps[k] = cur
        # obligations: union
        seen = set()
        obl = []
        for s in states:
            for o in s.obligs:
                if id(o) not in seen:
                    seen.add(id(o))
                    obl.append(o)
        m.obligs = obl
        m.path = list(first.path)
        return m

    def _merge_vals(self, vals, guards):
        v0 = vals[0]
        if all(v is v0 for v in vals):
            return v0
        if all(isinstance(v, (Num, int, float)) and not isinstance(v, bool) for v in vals):
            cur = Num.lift(vals[-1])
            for g, v in zip(reversed(guards[:-1]), reversed(vals[:-1])):
                cur = ite(g, Num.lift(v), cur)
            return cur
        if any(isinstance(v, PyObjV) for v in vals) and all(isinstance(v, (bool, PyObjV)) or (is_z3(v) and v.sort() == z3.BoolSort()) for v in vals):
            objs = [v if isinstance(v, PyObjV) else PyObjV.of_bool(v) for v in vals]
            parts = []
            for fld in ("truthy", "isfalse", "istrue"):
                cur = getattr(objs[-1], fld)
                for g, o in zip(reversed(guards[:-1]), reversed(objs[:-1])):
                    cur = z3.If(g, getattr(o, fld), cur)
                parts.append(cur)
            return PyObjV(*parts)
        if all(isinstance(v, bool) or (is_z3(v) and v.sort() == z3.BoolSort()) for v in vals):
            cur = _zb(vals[-1])
            for g, v in zip(reversed(guards[:-1]), reversed(vals[:-1])):
                cur = z3.If(g, _zb(v), cur)
            return cur
        if all(isinstance(v, RefV) for v in vals) and len(set(v.cls for v in vals)) == 1:
            cur = vals[-1].term
            for g, v in zip(reversed(guards[:-1]), reversed(vals[:-1])):
                cur = z3.If(g, v.term, cur)
            return RefV(cur, v0.cls)
        if all(isinstance(v, Opt) or v is NONEV or isinstance(v, Num) for v in vals):
            opts = [v if isinstance(v, Opt) else (Opt(True, Num.lift(0)) if v is NONEV else Opt(False, v)) for v in vals]
            isn = self._merge_vals([o.isnone for o in opts], guards)
            try:
                inner = self._merge_vals([o.val for o in opts], guards)
            except Exception:
                return _NOMERGE
            if inner is _NOMERGE:
                return _NOMERGE
            return Opt(isn, inner)
        if all(isinstance(v, TupleV) for v in vals) and len(set(len(v.items) for v in vals)) == 1:
            items = []
            for i in range(len(v0.items)):
                x = self._merge_vals([v.items[i] for v in vals], guards)
                if x is _NOMERGE:
                    return _NOMERGE
                items.append(x)
            return TupleV(items)
        if all(isinstance(v, str) for v in vals) and len(set(vals)) == 1:
            return v0
        return _NOMERGE

    def eval_cond(self, e, st):
        """evaluate a test expression and branch on it -> list of (state, python bool)"""
        out = []
        if isinstance(e, ast.BoolOp):
            # short-circuit with forking (operands may have side effects)
            return self._cond_boolop(e, st)
        if isinstance(e, ast.UnaryOp) and isinstance(e.op, ast.Not):
            for (s, b) in self.eval_cond(e.operand, st):
                out.append((s, b if isinstance(b, _Raised) else (not b)))
            return out
        # narrowing: `name is None` / `name is not None` on an optional local unwraps it on the not-None side
        narrow = None
        if isinstance(e, ast.Compare) and len(e.ops) == 1 and isinstance(e.ops[0], (ast.Is, ast.IsNot)) and isinstance(e.left, ast.Name) \
                and isinstance(e.comparators[0], ast.Constant) and e.comparators[0].value is None and isinstance(st.locals.get(e.left.id), Opt):
            narrow = (e.left.id, isinstance(e.ops[0], ast.IsNot))
        if isinstance(e, ast.Name) and isinstance(st.locals.get(e.id), Opt):
            narrow = (e.id, True)       # `if name:` - a true optional is not None
        for (s, v) in self.eval(e, st):
            if isinstance(v, _Raised):
                out.append((s, v))
                continue
            t = self.truth(s, v)
            for (s1, b) in self.branch(s, t):
                if narrow is not None and b == narrow[1] and isinstance(s1.locals.get(narrow[0]), Opt):
                    s1.locals[narrow[0]] = s1.locals[narrow[0]].val
                out.append((s1, b))
        return out

    def _cond_boolop(self, e, st):
        is_and = isinstance(e.op, ast.And)
        results = []
        work = [(st, 0)]
        while work:
            s, k = work.pop()
            for (s1, b) in self.eval_cond(e.values[k], s):
                if isinstance(b, _Raised):
                    results.append((s1, b))
                elif k == len(e.values) - 1:
                    results.append((s1, b))
                elif is_and and not b:
                    results.append((s1, False))
                elif (not is_and) and b:
                    results.append((s1, True))
                else:
                    work.append((s1, k + 1))
        return results

    # ------------------------------------------------------------------ loops
    def _next_loop_spec(self, node):
        fn = self.cur_func[-1]
        k = self.loop_counter[-1].get(id(node))
        if k is None:
            self._undecided("loop not indexed")
        # a spec may describe the loop it belongs to (names called / mentioned in the body): loops are then found by that description, so that
        # swapping the branches of an if/else, which renumbers the loops, does not attach an invariant to the wrong loop
        described = [(kk, sp) for (f, kk), sp in self.loop_specs.items() if f == fn and getattr(sp, "match", None) is not None]
        if described:
            hits = [(kk, sp) for (kk, sp) in described if sp.match(node)]
            if len(hits) == 1:
                return hits[0][1], hits[0][0]
        spec = self.loop_specs.get((fn, k))
        if spec is None:
            self._undecided("loop #%d of %s has no invariant" % (k, fn))
        return spec, k

    def stmt_For(self, node, st):
        spec, k = self._next_loop_spec(node)
        return spec.run_for(self, node, st, k)

    def stmt_While(self, node, st):
        spec, k = self._next_loop_spec(node)
        return spec.run_while(self, node, st, k)

    def stmt_Try(self, node, st):
        h = getattr(self, "ext_try", None)
        if h:
            return h(node, st)
        self._undecided("try statement")

    # ------------------------------------------------------------------ expressions
    def eval(self, e, st):
        m = getattr(self, "expr_" + type(e).__name__, None)
        if m is None:
            self._undecided("expression %s (line %s)" % (type(e).__name__, getattr(e, "lineno", "?")))
        return m(e, st)

    def eval_seq(self, exprs, st):
        """evaluate a list of expressions left to right -> list of (state, [values]) ; raises propagate as (state,_Raised)"""
        results = [(st, [])]
        for e in exprs:
            nxt = []
            for (s, vals) in results:
                if isinstance(vals, _Raised):
                    nxt.append((s, vals))
                    continue
                for (s1, v) in self.eval(e, s):
                    if isinstance(v, _Raised):
                        nxt.append((s1, v))
                    else:
                        nxt.append((s1, vals + [v]))
            results = nxt
        return results

    def expr_Constant(self, e, st):
        v = e.value
        if v is None:
            return [(st, NONEV)]
        if isinstance(v, bool):
            return [(st, v)]
        if isinstance(v, int):
            return [(st, Num.lift(v))]
        if isinstance(v, float):
            return [(st, Num.lift(v))]
        if isinstance(v, str):
            return [(st, v)]
        self._undecided("constant %r" % (v,))

    def expr_Name(self, e, st):
        n = e.id
        if n in st.locals:
            return [(st, st.locals[n])]
        if n in self.module_consts:
            return [(st, self.module_consts[n])]
        if n in MODULE_ALIASES:
            return [(st, ModV(MODULE_ALIASES[n]))]
        if n in ("abs", "len", "isinstance", "hasattr", "getattr", "float", "int", "super", "list", "max", "min", "any", "set", "zip", "dict", "print", "type"):
            return [(st, BoundFn("builtin", n))]
        if n == "True":
            return [(st, True)]
        if n == "False":
            return [(st, False)]
        if n == "None":
            return [(st, NONEV)]
        if n in self.prog.classes:
            return [(st, BoundFn("class", n))]
        fq = self._module_func(n)
        if fq:
            return [(st, BoundFn("modfunc", fq))]
        self._undecided("name %s" % n)

    def _module_func(self, n):
        for m in ("bt.core", "bt.algos", "bt.backtest"):
            if self.prog.has(m + "." + n):
                return m + "." + n
        return None

    def expr_Tuple(self, e, st):
        out = []
        for (s, vals) in self.eval_seq(e.elts, st):
            out.append((s, vals if isinstance(vals, _Raised) else TupleV(vals)))
        return out

    def expr_UnaryOp(self, e, st):
        out = []
        if isinstance(e.op, ast.Not):
            for (s, b) in self.eval_cond(e.operand, st):
                out.append((s, b if isinstance(b, _Raised) else (not b)))
            return out
        for (s, v) in self.eval(e.operand, st):
            if isinstance(v, _Raised):
                out.append((s, v))
            elif isinstance(e.op, ast.USub):
                out.append((s, -Num.lift(self._num(s, v))))
            elif isinstance(e.op, ast.UAdd):
                out.append((s, Num.lift(self._num(s, v))))
            elif isinstance(e.op, ast.Invert):
                h = getattr(self, "ext_invert", None)
                r = h(s, v) if h else None
                if r is None:
                    self._undecided("~ operator")
                out.append((s, r))
        return out

    def _num(self, st, v):
        """coerce value to Num (python semantics for bool/int/float), obligations for Opt"""
        if isinstance(v, Num):
            return v
        if isinstance(v, (bool, int, float)):
            return Num.lift(v)
        if is_z3(v) and v.sort() == z3.BoolSort():
            return Num.lift(v)
        if isinstance(v, Opt):
            st.oblige("%s/not-none" % self.cur_func[-1], Not(v.isnone), kind="side")
            st.assume(Not(v.isnone) if not isinstance(v.isnone, bool) else z3.BoolVal(not v.isnone))
            return self._num(st, v.val)
        self._undecided("numeric use of %r" % (v,))

    def expr_BinOp(self, e, st):
        out = []
        for (s, vals) in self.eval_seq([e.left, e.right], st):
            if isinstance(vals, _Raised):
                out.append((s, vals))
                continue
            out.extend(self.binop(e.op, vals[0], vals[1], s))
        return out

    def binop(self, op, a, b, st):
        if isinstance(op, ast.Mod) and isinstance(a, str):
            return [(st, "<fmt>")]
        h = getattr(self, "ext_binop", None)
        if h:
            r = h(op, a, b, st)
            if r is not None:
                return r
        if isinstance(op, ast.BitOr) and self._is_boolish(a) and self._is_boolish(b):
            return [(st, Or(self.truth(st, a), self.truth(st, b)))]
        if isinstance(op, ast.BitAnd) and self._is_boolish(a) and self._is_boolish(b):
            return [(st, And(self.truth(st, a), self.truth(st, b)))]
        if isinstance(op, ast.BitXor) and self._is_boolish(a) and self._is_boolish(b):
            return [(st, Not(dsl.Iff(self.truth(st, a), self.truth(st, b))))]
        a, b = self._num(st, a), self._num(st, b)
        if isinstance(op, ast.Add):
            return [(st, a + b)]
        if isinstance(op, ast.Sub):
            return [(st, a - b)]
        if isinstance(op, ast.Mult):
            return [(st, a * b)]
        if isinstance(op, ast.Div):
            # Python float division by zero raises ZeroDivisionError (C double division in the compiled
            # build raises too: Cython's cdivision is off).  numpy scalars would give inf/nan instead;
            # so every division must have a provably non-zero divisor: division obligation.
            nz = b.ne(0) if b.nan is False else And(Not(b.nan), b.ne(0))
            nzs = z3.simplify(nz) if is_z3(nz) else nz
            if not (nzs is True or (is_z3(nzs) and z3.is_true(nzs))):
                st.oblige("%s/division-nonzero" % self.cur_func[-1], Or(b.nan, b.ne(0)) if b.nan is not False else b.ne(0), kind="side", info={"line": None})
            return [(st, a / b)]
        if isinstance(op, ast.Mod) and a.is_int and b.is_int:
            # Python %: result takes the sign of the divisor; zero divisor raises
            st.oblige("%s/modulo-nonzero" % self.cur_func[-1], b.ne(0), kind="side", props=("C10",))
            pos = a.r % b.r
            neg = -((-a.r) % (-b.r))
            return [(st, Num(z3.If(b.r > 0, pos, neg), a._nan_or(b), True))]
        if isinstance(op, ast.FloorDiv) and a.is_int and b.is_int:
            st.oblige("%s/division-nonzero" % self.cur_func[-1], b.ne(0), kind="side", props=("C10",))
            pos = a.r / b.r
            return [(st, Num(z3.If(b.r > 0, pos, (-a.r) / (-b.r)), a._nan_or(b), True))]
        self._undecided("binary operator %s" % type(op).__name__)

    def _is_boolish(self, v):
        return isinstance(v, (bool, PyObjV)) or (is_z3(v) and v.sort() == z3.BoolSort())

    def expr_BoolOp(self, e, st):
        """value-producing and/or: Python returns the deciding OPERAND, not its truth value (`x or default` is x when x is true).  Boolean
        operands keep the forked python-bool form used by conditions."""
        is_and = isinstance(e.op, ast.And)
        boolish = lambda v: isinstance(v, bool) or (is_z3(v) and v.sort() == z3.BoolSort())
        results = []
        work = [(st, 0)]
        last = len(e.values) - 1
        while work:
            s, k = work.pop()
            for (s1, v) in self.eval(e.values[k], s):
                if isinstance(v, _Raised):
                    results.append((s1, v))
                    continue
                if k == last and not boolish(v):
                    results.append((s1, v))
                    continue
                t = self.truth(s1, v)
                for (s2, b) in self.branch(s1, t):
                    val = b if boolish(v) else v
                    if k == last:
                        results.append((s2, val))
                    elif is_and and not b:
                        results.append((s2, val))
                    elif (not is_and) and b:
                        results.append((s2, val))
                    else:
                        work.append((s2, k + 1))
        return results

    def expr_IfExp(self, e, st):
        out = []
        for (s, c) in self.eval_cond(e.test, st):
            if isinstance(c, _Raised):
                out.append((s, c))
                continue
            out.extend(self.eval(e.body if c else e.orelse, s))
        return out

    def expr_Compare(self, e, st):
        if len(e.ops) != 1:
            self._undecided("chained comparison")
        op = e.ops[0]
        out = []
        for (s, vals) in self.eval_seq([e.left, e.comparators[0]], st):
            if isinstance(vals, _Raised):
                out.append((s, vals))
                continue
            out.append((s, self.compare(op, vals[0], vals[1], s)))
        return out

    def compare(self, op, a, b, st):
        h = getattr(self, "ext_compare", None)
        if h:
            r = h(op, a, b, st)
            if r is not None:
                return r
        if isinstance(op, (ast.Is, ast.IsNot)):
            r = self._is(a, b, st)
            return r if isinstance(op, ast.Is) else Not(r)
        if isinstance(op, (ast.In, ast.NotIn)):
            r = self._in(a, b, st)
            return r if isinstance(op, ast.In) else Not(r)
        # ==, != on references / strings / None
        if isinstance(a, RefV) and isinstance(b, RefV):
            r = a.term == b.term
            return r if isinstance(op, ast.Eq) else (Not(r) if isinstance(op, ast.NotEq) else self._undecided("ordering of objects"))
        if isinstance(a, StrV) or isinstance(b, StrV):
            if isinstance(a, StrV) and isinstance(b, StrV):
                r = a.term == b.term
                return r if isinstance(op, ast.Eq) else Not(r)
            self._undecided("string comparison with constant")
        if isinstance(a, str) and isinstance(b, str):
            return (a == b) if isinstance(op, ast.Eq) else (a != b)
        if a is NONEV or b is NONEV:
            r = self._is(a, b, st)
            return r if isinstance(op, ast.Eq) else Not(r)
        if isinstance(a, Opt) or isinstance(b, Opt):
            # optional number against a number: None == x is False, None != x is True
            if isinstance(op, (ast.Eq, ast.NotEq)) and isinstance(b, Opt) and isinstance(b.val, Num) and not isinstance(a, Opt):
                a, b = b, a
            if isinstance(op, (ast.Eq, ast.NotEq)) and isinstance(a, Opt) and isinstance(a.val, Num) and not isinstance(b, Opt):
                e_ = And(Not(a.isnone), a.val.eq(self._num(st, b)))
                return e_ if isinstance(op, ast.Eq) else Not(e_)
            self._undecided("comparison with optional")
        a, b = self._num(st, a), self._num(st, b)
        if isinstance(op, ast.Eq):
            return a.eq(b)
        if isinstance(op, ast.NotEq):
            return a.ne(b)
        if isinstance(op, ast.Lt):
            return a < b
        if isinstance(op, ast.LtE):
            return a <= b
        if isinstance(op, ast.Gt):
            return a > b
        if isinstance(op, ast.GtE):
            return a >= b
        self._undecided("comparison %s" % type(op).__name__)

    def _is(self, a, b, st):
        if isinstance(b, PyObjV) and not isinstance(a, PyObjV):
            a, b = b, a
        if isinstance(a, PyObjV):
            if b is False:
                return a.isfalse
            if b is True:
                return a.istrue
            if b is NONEV:
                return And(Not(a.truthy), Not(a.isfalse)) if False else self._undecided("'is None' on opaque result")
        if a is NONEV and b is NONEV:
            return True
        if b is NONEV:
            a, b = b, a
        if a is NONEV:
            if isinstance(b, Opt):
                return b.isnone
            if isinstance(b, RefV):
                return b.term == dsl.NONE
            if isinstance(b, (Num, bool, int, float, str, HistV, DictV, ListV, FnV, StrV)) or is_z3(b):
                return False
            if type(b).__name__ in ("DictObjV", "RowV", "ListLV", "IndexLV", "MaskV", "UniverseV", "WindowV", "AuxFrameV", "TupleV", "TempV", "PyListV"):
                return False        # model values that stand for an existing container / frame object
            self._undecided("is None on %r" % (b,))
        if isinstance(a, RefV) and isinstance(b, RefV):
            return a.term == b.term
        if isinstance(a, FnV) and isinstance(b, FnV):
            return a.term == b.term          # function objects: identity of the (uninterpreted) function value
        self._undecided("'is' on %r, %r" % (a, b))

    def _in(self, a, b, st):
        if isinstance(b, DictV):
            if isinstance(a, StrV):
                return st.heap.dict_has(b.owner, b.field, a)
        h = getattr(self, "ext_in", None)
        if h:
            r = h(a, b, st)
            if r is not None:
                return r
        self._undecided("'in' on %r" % (b,))

    # ---- attributes
    def expr_Attribute(self, e, st):
        out = []
        for (s, obj) in self.eval(e.value, st):
            if isinstance(obj, _Raised):
                out.append((s, obj))
                continue
            out.extend(self.load_attr(s, obj, e.attr))
        return out

    def load_attr(self, st, obj, attr):
        if isinstance(obj, RefV):
            attr = getattr(self, "attr_alias", {}).get((obj.cls, attr), attr)
        if isinstance(obj, ModV):
            return [(st, self.module_attr(obj, attr))]
        if isinstance(obj, RefV):
            if obj.cls is None:
                self._undecided("attribute %s on untyped reference" % attr)
            # property getter?
            p = self.prog.lookup_property(obj.cls, attr) if obj.cls in self.prog.classes else None
            if p is None and obj.cls in self.prog.classes:
                # subclasses may define the property (dynamic type unknown)
                pass
            if p is not None:
                tops = self.top_definers(obj.cls, attr, exclude=p.cls)
                if tops:
                    out = []
                    for (s1, o1) in self.split_on_class(st, obj, tops, residual=p.cls):
                        p1 = self.prog.lookup_property(o1.cls, attr)
                        out.extend(self.call_function(s1, p1, o1, [], {}, via_property=True))
                    return out
                return self.call_function(st, p, obj, [], {}, via_property=True)
            m = self.prog.lookup_method(obj.cls, attr) if obj.cls in self.prog.classes else None
            if m is not None:
                return [(st, BoundFn("method", attr, recv=obj))]
            t = self.schema.type_of(attr)
            if t is None:
                h = getattr(self, "ext_load_attr", None)
                if h:
                    r = h(st, obj, attr)
                    if r is not None:
                        return r
                # defined only in subclasses: case split on the dynamic class
                groups = self.top_definers(obj.cls, attr) if obj.cls in self.prog.classes else []
                if groups:
                    out = []
                    for (s1, o1) in self.split_on_class(st, obj, groups):
                        out.extend(self.load_attr(s1, o1, attr))
                    return out
                self._undecided("attribute %s not in schema (class %s)" % (attr, obj.cls))
            if t in ("labels", "auxframe", "custom"):
                h = getattr(self, "ext_load_attr", None)
                r = h(st, obj, attr) if h else None
                if r is not None:
                    return r
                self._undecided("attribute %s of type %s" % (attr, t))
            return [(st, st.heap.get(obj, attr))]
        if isinstance(obj, HistV):
            if attr in ("values", "array"):
                return [(st, HistBuf(obj))]
            if attr == "loc":
                return [(st, BoundFn("loc", "loc", recv=obj))]
            if attr == "index":
                return [(st, BoundFn("index", "index", recv=obj))]
        if isinstance(obj, FrameV) and attr == "index":
            return [(st, BoundFn("index", "index", recv=obj))]
        if isinstance(obj, FrameV) and attr == "loc":
            return [(st, BoundFn("loc", "loc", recv=obj))]
        if isinstance(obj, Opt) and isinstance(obj.val, HistV):
            # attribute on optional series: must be not None
            st.oblige("%s/not-none" % self.cur_func[-1], Not(obj.isnone), kind="side")
            st.assume(Not(obj.isnone))
            return self.load_attr(st, obj.val, attr)
        if isinstance(obj, BoundFn) and obj.kind == "index" and attr == "get_loc":
            return [(st, BoundFn("get_loc", "get_loc", recv=obj.recv))]
        if isinstance(obj, BoundFn) and obj.kind == "superobj":
            m = self.prog.lookup_method(obj.recv.cls, attr, after=obj.extra) if True else None
            # super(C, self): resolve after class C along the MRO of C (static)
            m = self.prog.lookup_method(obj.extra, attr, after=obj.extra)
            if m is None:
                self._undecided("super().%s not found" % attr)
            return [(st, BoundFn("supermethod", attr, recv=obj.recv, extra=m))]
        h = getattr(self, "ext_load_attr", None)
        if h:
            r = h(st, obj, attr)
            if r is not None:
                return r
        self._undecided("attribute %s on %s" % (attr, type(obj).__name__))

    def module_attr(self, mod, attr):
        if mod.name == "np" and attr == "nan":
            return Num.lift(float("nan"))
        if mod.name in ("np", "math", "pd", "random", "re"):
            return BoundFn("modfn", mod.name + "." + attr)
        if mod.name == "bt":
            return ModV("bt." + attr)
        if mod.name.startswith("bt."):
            if attr in self.prog.classes:
                return BoundFn("class", attr)
            if attr in ("PAR", "TOL"):
                return self.module_consts[attr]
            return ModV(mod.name + "." + attr)
        self._undecided("module attribute %s.%s" % (mod.name, attr))

    # ---- subscripts
    def eval_index(self, sl, st):
        if isinstance(sl, ast.Slice):
            if sl.lower is None and sl.upper is None and sl.step is None:
                return [(st, _SliceAll())]
            out = []
            lo = [(st, None)] if sl.lower is None else self.eval(sl.lower, st)
            for (s, l) in lo:
                hi = [(s, None)] if sl.upper is None else self.eval(sl.upper, s)
                for (s1, h) in hi:
                    out.append((s1, _SliceV(l, h)))
            return out
        if isinstance(sl, ast.Tuple) and any(isinstance(x, ast.Slice) for x in sl.elts):
            results = [(st, [])]
            for x in sl.elts:
                nxt = []
                for (s, vals) in results:
                    for (s1, v) in self.eval_index(x, s):
                        nxt.append((s1, vals + [v]))
                results = nxt
            return [(s, TupleV(vals)) for (s, vals) in results]
        return self.eval(sl, st)

    def expr_Subscript(self, e, st):
        out = []
        for (s, base) in self.eval(e.value, st):
            if isinstance(base, _Raised):
                out.append((s, base))
                continue
            for (s1, i) in self.eval_index(e.slice, s):
                if isinstance(i, _Raised):
                    out.append((s1, i))
                    continue
                out.extend(self.load_subscript(s1, base, i))
        return out

    def load_subscript(self, st, base, i):
        if isinstance(base, HistBuf):
            i = self._num(st, i)
            return [(st, st.heap.hist_get(base.hist.owner, base.hist.field, i))]
        if isinstance(base, BoundFn) and base.kind == "loc" and isinstance(base.recv, HistV):
            if isinstance(i, _SliceV) and i.lo is None:
                return [(st, HistSlice(base.recv, i.hi, dict(st.heap.maps)))]
        if isinstance(base, DictV):
            if isinstance(i, StrV):
                # KeyError if absent
                has = st.heap.dict_has(base.owner, base.field, i)
                out = []
                for (s, b) in self.branch(st, has):
                    if b:
                        out.append((s, self.dict_lookup(s, base, i)))
                    else:
                        out.append((s, _Raised("KeyError")))
                return out
        from .heap import DataV, dataval_f, dataval_nan_f
        if isinstance(base, Opt) and isinstance(base.val, DataV):
            st.oblige("%s/not-none" % self.cur_func[-1], Not(base.isnone), kind="side")
            base = base.val
        if isinstance(base, DataV) and isinstance(i, StrV):
            return [(st, Num(dataval_f(base.term, i.term), dataval_nan_f(base.term, i.term), False))]
        if isinstance(base, TupleV) and isinstance(i, Num):
            k = z3.simplify(i.r)
            if z3.is_int_value(k):
                return [(st, base.items[k.as_long()])]
        h = getattr(self, "ext_load_subscript", None)
        if h:
            r = h(st, base, i)
            if r is not None:
                return r
        self._undecided("subscript on %s" % type(base).__name__)

    def dict_lookup(self, st, d, key):
        h = getattr(self, "on_dict_lookup", None)
        r = st.heap.dict_at(d.owner, d.field, key, "Node")
        if h:
            h(st, d, key, r)
        return r

    # ---- calls
    def expr_Call(self, e, st):
        if any(isinstance(a, ast.Starred) for a in e.args):
            self._undecided("star-args call")
        # list-comprehension style handled elsewhere
        out = []
        for (s, f) in self.eval(e.func, st):
            if isinstance(f, _Raised):
                out.append((s, f))
                continue
            # isinstance / hasattr: second arg is a class expr, do not evaluate generally
            if isinstance(f, BoundFn) and f.kind == "builtin" and f.name in ("isinstance", "hasattr", "getattr", "super"):
                out.extend(self.call_special(s, f, e))
                continue
            argexprs = list(e.args) + [k.value for k in e.keywords]
            for (s1, vals) in self.eval_seq(argexprs, s):
                if isinstance(vals, _Raised):
                    out.append((s1, vals))
                    continue
                pos = vals[: len(e.args)]
                kw = {(k.arg if k.arg is not None else "**"): v for k, v in zip(e.keywords, vals[len(e.args) :])}
                out.extend(self.call_value(s1, f, pos, kw))
        return out

    def call_special(self, st, f, e):
        if f.name == "super":
            if len(e.args) == 2 and isinstance(e.args[0], ast.Name) and isinstance(e.args[1], ast.Name):
                recv = st.locals[e.args[1].id]
                return [(st, BoundFn("superobj", "super", recv=recv, extra=e.args[0].id))]
            self._undecided("super() form")
        if f.name == "isinstance":
            out = []
            for (s, obj) in self.eval(e.args[0], st):
                names = self._class_names(e.args[1])
                out.append((s, self.isinstance_of(s, obj, names)))
            return out
        if f.name == "hasattr":
            h = getattr(self, "ext_hasattr", None)
            if h:
                return h(st, e)
            self._undecided("hasattr")
        if f.name == "getattr":
            h = getattr(self, "ext_getattr", None)
            if h:
                return h(st, e)
            self._undecided("getattr")

    def _class_names(self, node):
        if isinstance(node, ast.Name):
            return [node.id]
        if isinstance(node, ast.Attribute):
            return [node.attr]
        if isinstance(node, ast.Tuple):
            out = []
            for x in node.elts:
                out.extend(self._class_names(x))
            return out
        self._undecided("isinstance class expression")

    def isinstance_of(self, st, obj, names):
        if isinstance(obj, RefV):
            subs = set()
            for n in names:
                if n not in self.prog.classes:
                    self._undecided("isinstance against %s" % n)
                subs.update(self.prog.subclasses(n))
            # statically decided?
            if obj.cls in self.prog.classes:
                possible = set(self.prog.subclasses(obj.cls))
                if possible <= subs:
                    return True
                if not (possible & subs):
                    return False
            return Or(*[cls_f(obj.term) == self.schema.tag(c) for c in sorted(subs)])
        if isinstance(obj, str) or isinstance(obj, StrV):
            return "str" in names
        if isinstance(obj, Num) or isinstance(obj, (int, float)):
            return False if all(n in self.prog.classes for n in names) else self._undecided("isinstance of number")
        self._undecided("isinstance of %r" % (obj,))

    def call_value(self, st, f, pos, kw):
        if not isinstance(f, BoundFn):
            if isinstance(f, FnV):
                # commission function call  fn(q, p)
                q, p = self._num(st, pos[0]), self._num(st, pos[1])
                return [(st, Num(comm_f(f.term, q.real(), p.real()), q._nan_or(p), False))]
            h = getattr(self, "ext_call_value", None)
            if h:
                r = h(st, f, pos, kw)
                if r is not None:
                    return r
            self._undecided("call of %r" % (f,))
        k = f.kind
        if k == "builtin":
            return self.call_builtin(st, f.name, pos, kw)
        if k == "modfn":
            return self.call_modfn(st, f.name, pos, kw)
        if k == "modfunc":
            fi = self.prog.func(f.name)
            return self.call_function(st, fi, None, pos, kw)
        if k == "method":
            fi = self.prog.lookup_method(f.recv.cls, f.name)
            return self.call_function(st, fi, f.recv, pos, kw)
        if k == "supermethod":
            return self.call_function(st, f.extra, f.recv, pos, kw, exact=True)
        if k == "get_loc":
            d = self._num(st, pos[0])
            return [(st, self.get_loc(st, f.recv, d))]
        h = getattr(self, "ext_call_value", None)
        if h:
            r = h(st, f, pos, kw)
            if r is not None:
                return r
        self._undecided("call kind %s" % k)

    def get_loc(self, st, owner, d):
        r = Num(idx_f(d.r), False, True)
        st.assume(r.r >= 0)
        return r

    def call_builtin(self, st, name, pos, kw):
        if name == "abs":
            return [(st, dsl.absv(self._num(st, pos[0])))]
        if name == "float":
            v = self._num(st, pos[0])
            return [(st, Num(v.real(), v.nan, False))]
        if name == "len":
            v = pos[0]
            if isinstance(v, ListV):
                return [(st, st.heap.list_len(v.owner, v.field))]
            if isinstance(v, DictV) and v.field == "children":
                return [(st, st.heap.list_len(v.owner, "_childrenv"))]
        if name == "print":
            return [(st, NONEV)]
        if name in ("max", "min") and len(pos) == 2 and not kw and all(isinstance(x, (Num, int, float)) and not isinstance(x, bool) for x in pos):
            # two numbers; Python keeps the FIRST argument when the comparison is false (also with a NaN operand)
            a, b = self._num(st, pos[0]), self._num(st, pos[1])
            take_b = (b > a) if name == "max" else (b < a)
            out = []
            for (s, t) in self.branch(st, take_b):
                out.append((s, pos[1] if t else pos[0]))
            return out
        h = getattr(self, "ext_builtin", None)
        if h:
            r = h(st, name, pos, kw)
            if r is not None:
                return r
        self._undecided("builtin %s" % name)

    def call_modfn(self, st, name, pos, kw):
        if name == "np.isnan":
            v = pos[0]
            if isinstance(v, Opt):
                v = self._num(st, v)
            v = self._num(st, v)
            return [(st, v.nan if v.nan is not False else False)]
        if name in ("np.abs",):
            return [(st, dsl.absv(self._num(st, pos[0])))]
        if name == "np.sign":
            return [(st, dsl.sign(self._num(st, pos[0])))]
        if name == "math.floor" or name == "math.ceil":
            v = self._num(st, pos[0])
            # float NaN -> ValueError in Python
            out = []
            if v.nan is not False:
                for (s, b) in self.branch(st, v.nan):
                    if b:
                        out.append((s, _Raised("ValueError")))
                    else:
                        out.append((s, dsl.floor(v) if name.endswith("floor") else dsl.ceil(v)))
                return out
            return [(st, dsl.floor(v) if name.endswith("floor") else dsl.ceil(v))]
        if name == "np.isclose":
            a, b = self._num(st, pos[0]), self._num(st, pos[1])
            rtol = self._num(st, kw.get("rtol", pos[2] if len(pos) > 2 else 1e-05))
            atol = self._num(st, kw.get("atol", pos[3] if len(pos) > 3 else 1e-08))
            r = dsl.isclose(a, b, rtol, atol)
            return [(st, r)]
        h = getattr(self, "ext_modfn", None)
        if h:
            r = h(st, name, pos, kw)
            if r is not None:
                return r
        self._undecided("library function %s" % name)

    def top_definers(self, cls, name, exclude=None):
        """top-most classes strictly below `cls` that define method/property `name`"""
        defs = [c for c in self.prog.subclasses(cls) if c != cls and c != exclude and (name in self.prog.classes[c].methods or name in self.prog.classes[c].properties)]
        tops = []
        for c in defs:
            anc = self.prog.mro(c)[1:]
            if not any(a in defs for a in anc):
                tops.append(c)
        return sorted(tops)

    def split_on_class(self, st, obj, groups, residual=None):
        """fork on the dynamic class of obj: one branch per group (narrowed static class) and,
        if feasible, a residual branch (none of the groups)"""
        out = []
        conds = []
        for g in groups:
            c = Or(*[cls_f(obj.term) == self.schema.tag(k) for k in sorted(self.prog.subclasses(g))])
            conds.append(c)
        rest = Not(Or(*conds)) if conds else True
        for g, c in zip(groups, conds):
            if self.feasible(st, c):
                s1 = st.fork()
                s1.assume(c)
                out.append((s1, RefV(obj.term, g)))
        if residual is not None and self.feasible(st, rest if not isinstance(rest, bool) else z3.BoolVal(rest)):
            s1 = st.fork()
            s1.assume(rest if not isinstance(rest, bool) else z3.BoolVal(rest))
            out.append((s1, RefV(obj.term, obj.cls)))
        return out

    # ---- function calls: contract or inline
    def bind_args(self, fi, recv, pos, kw):
        a = fi.node.args
        names = [x.arg for x in a.args]
        if recv is not None:
            names = names[1:]
        if a.vararg or a.kwarg:
            self._undecided("varargs in %s" % fi.qualname)
        defaults = a.defaults
        ndef = len(defaults)
        bound = {}
        for n, v in zip(names, pos):
            bound[n] = v
        if len(pos) > len(names):
            self._undecided("too many args to %s" % fi.qualname)
        for k, v in kw.items():
            if k not in names:
                self._undecided("unknown kwarg %s to %s" % (k, fi.qualname))
            bound[k] = v
        allnames = [x.arg for x in a.args]
        for i, n in enumerate(names):
            if n not in bound:
                di = allnames.index(n) - (len(allnames) - ndef)
                if di < 0:
                    self._undecided("missing argument %s to %s" % (n, fi.qualname))
                bound[n] = ("default", defaults[di])
        return names, bound

    def call_function(self, st, fi, recv, pos, kw, exact=False, via_property=False, counted=False):
        q = fi.qualname
        if (fi.node.args.kwarg or fi.node.args.vararg or "**" in kw) and q in self.contracts and getattr(self.contracts[q], "raw_args", False):
            self.stats.contracts_used.add(q)
            return self.contracts[q].apply(self, st, recv, list(pos) + [kw], exact=exact)
        cc = getattr(self, "count_calls", None)
        if cc and recv is not None and fi.name in cc and not counted and len(self.cur_func) == 1:
            fld = cc[fi.name]
            st.heap.set(recv, fld, st.heap.get(recv, fld) + 1)
            counted = True
        names, bound = self.bind_args(fi, recv, pos, kw)
        # evaluate defaults
        for n in names:
            v = bound[n]
            if isinstance(v, tuple) and len(v) == 2 and v[0] == "default":
                r = self.eval(v[1], State(st.heap, {}, st.pc))
                bound[n] = r[0][1]
        # dynamic dispatch: if the receiver's static class has overriders below it, use the
        # contract registered for the static class (interface / family contract)
        target_q = q
        if recv is not None and not exact:
            ovr = [c for c in self.prog.overriders(recv.cls, fi.name) if c != fi.cls]
            if ovr:
                cq = "%s.%s.%s" % (self.prog.classes[recv.cls].module, recv.cls, fi.name)
                if cq in self.contracts:
                    target_q = cq
                elif q in self.contracts and getattr(self.contracts[q], "family", False):
                    target_q = q
                else:
                    groups = self.top_definers(recv.cls, fi.name, exclude=fi.cls)
                    out = []
                    for (s1, r1) in self.split_on_class(st, recv, groups, residual=fi.cls):
                        if r1.cls == recv.cls:
                            out.extend(self.call_function(s1, fi, r1, pos, kw, exact=True, counted=counted))
                        else:
                            f1 = self.prog.lookup_method(r1.cls, fi.name)
                            out.extend(self.call_function(s1, f1, r1, pos, kw, counted=counted))
                    return out
        c = self.contracts.get(target_q)
        if c is not None and not (q in self.inline):
            self.stats.contracts_used.add(target_q)
            return c.apply(self, st, recv, [bound[n] for n in names], exact=exact)
        if q in self.inline or fi.nstmts() <= 0 or (via_property and fi.nstmts() <= 9) or all(isinstance(b, ast.Pass) for b in fi.body()):
            return self.inline_call(st, fi, recv, names, bound)
        self._undecided("call to %s: no contract and not inlinable" % q)

    def inline_call(self, st, fi, recv, names, bound):
        if fi.qualname in self.cur_func and self.cur_func.count(fi.qualname) > 1:
            self._undecided("recursive inlining of %s" % fi.qualname)
        self.stats.inlined.add(fi.qualname)
        saved = st.locals
        loc = {}
        if recv is not None:
            loc[fi.node.args.args[0].arg] = recv
        for n in names:
            loc[n] = bound[n]
        st.locals = loc
        self.cur_func.append(fi.qualname)
        self.loop_counter.append(self.loop_ordinals(fi))
        try:
            res = self.exec_block(fi.body(), st)
        finally:
            self.cur_func.pop()
            self.loop_counter.pop()
        out = []
        for (s, oc) in res:
            s.locals = dict(saved)
            if oc.kind == "normal":
                out.append((s, NONEV))
            elif oc.kind == "return":
                out.append((s, oc.value))
            elif oc.kind == "raise":
                out.append((s, _Raised(oc.exc)))
            else:
                self._undecided("break/continue escaping function")
        return out

    def loop_ordinals(self, fi):
        """loops (for / while / side-effecting comprehensions) of a function numbered in source order"""
        nodes = [n for n in ast.walk(fi.node) if isinstance(n, (ast.For, ast.While, ast.ListComp))]
        nodes.sort(key=lambda n: (n.lineno, n.col_offset))
        return {id(n): k for k, n in enumerate(nodes)}

    # ---- entry point
    def run_function(self, fi, st, recv, argvals):
        """execute the body of fi from state st with receiver and argument values bound"""
        a = fi.node.args
        names = [x.arg for x in a.args]
        loc = {}
        if recv is not None:
            loc[names[0]] = recv
            names = names[1:]
        for n, v in zip(names, argvals):
            loc[n] = v
        st.locals = loc
        self.cur_func.append(fi.qualname)
        self.loop_counter.append(self.loop_ordinals(fi))
        try:
            res = self.exec_block(fi.body(), st)
        finally:
            self.cur_func.pop()
            self.loop_counter.pop()
        self.stats.paths += len(res)
        return res

    def expr_ListComp(self, e, st):
        """side-effecting comprehension used as a statement: [f(c) for c in xs if p(c)]  ==  for c in xs: if p(c): f(c)
        (the resulting list is not modelled; only supported where the value is discarded)"""
        if len(e.generators) != 1 or e.generators[0].is_async:
            self._undecided("nested comprehension")
        g = e.generators[0]
        body = [ast.Expr(value=e.elt)]
        for cond in reversed(g.ifs):
            body = [ast.If(test=cond, body=body, orelse=[])]
        loop = ast.For(target=g.target, iter=g.iter, body=body, orelse=[])
        ast.copy_location(loop, e)
        ast.fix_missing_locations(loop)
        k = self.loop_counter[-1].get(id(e))
        self.loop_counter[-1][id(loop)] = k
        out = []
        for (s, oc) in self.stmt_For(loop, st):
            if oc.kind == "normal":
                out.append((s, _ListResult()))
            elif oc.kind == "raise":
                out.append((s, _Raised(oc.exc)))
            else:
                self._undecided("control flow out of a comprehension")
        return out

    def expr_Dict(self, e, st):
        if not e.keys:
            h = getattr(self, "ext_dict_literal", None)
            if h and not getattr(self, "empty_dict_is_temp_reset", False):
                return h(e, st)
            return [(st, _EmptyDict())]
        h = getattr(self, "ext_dict", None)
        if h:
            return h(e, st)
        self._undecided("dict literal")

    def expr_JoinedStr(self, e, st):
        return [(st, "<fmt>")]


_MISSING = object()
_NOMERGE = object()


def _zb(f):
    return z3.BoolVal(f) if isinstance(f, bool) else f


class _Raised(object):
    """expression evaluation ended in an exception"""

    def __init__(self, exc):
        self.exc = exc


class _SliceAll(object):
    pass


class _ListResult(object):
    """value of a side-effecting comprehension (never inspected)"""


class _EmptyDict(object):
    pass


class _SliceV(object):
    def __init__(self, lo, hi):
        self.lo = lo
        self.hi = hi
