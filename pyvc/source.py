"""
Loading of the real source: every run re-parses /repo/bt/*.py from the working tree.

What extraction drops (reported in every evidence file):
  * docstrings
  * @cy.locals(...) decorators and `x = cy.declare(...)` class attributes (C typing hints)
  * the *text* of exception messages (the argument of the exception constructor is not evaluated)
Nothing else: the AST that is symbolically executed is the AST of the file on disk.
"""
import ast
import hashlib
import os

REPO = os.environ.get("BT_REPO", "/repo")

DROPPED = [
    "docstrings",
    "@cy.locals(...) decorators and cy.declare(...) class attributes (Cython C-typing hints; doubles are reals+NaN flag, bint is Bool)",
    "text of exception messages (constructor arguments of raised exceptions are not evaluated)",
]


class FuncInfo(object):
    def __init__(self, module, cls, name, node, is_property=False):
        self.module = module
        self.cls = cls
        self.name = name
        self.node = node
        self.is_property = is_property

    @property
    def qualname(self):
        if self.cls:
            return "%s.%s.%s" % (self.module, self.cls, self.name)
        return "%s.%s" % (self.module, self.name)

    def body(self):
        b = self.node.body
        if b and isinstance(b[0], ast.Expr) and isinstance(getattr(b[0], "value", None), ast.Constant) and isinstance(b[0].value.value, str):
            b = b[1:]
        return b

    def source_hash(self):
        return hashlib.sha256(ast.dump(self.node).encode()).hexdigest()[:16]

    def nstmts(self):
        return sum(1 for n in ast.walk(self.node) if isinstance(n, ast.stmt)) - 1


class ClassInfo(object):
    def __init__(self, module, name, bases, node):
        self.module = module
        self.name = name
        self.bases = bases
        self.node = node
        self.methods = {}
        self.properties = {}


PINNED_LOCALS = os.path.join(os.path.dirname(os.path.dirname(os.path.abspath(__file__))), "contracts", "pinned_locals.json")


def local_binding_order(fnnode):
    """names a function binds itself (parameters excluded), in the order of their first binding in the source"""
    params = {a.arg for a in fnnode.args.args + fnnode.args.kwonlyargs + fnnode.args.posonlyargs}
    for a in (fnnode.args.vararg, fnnode.args.kwarg):
        if a is not None:
            params.add(a.arg)
    seen = []
    for n in ast.walk(fnnode):
        if isinstance(n, ast.Name) and isinstance(n.ctx, ast.Store) and n.id not in params:
            seen.append((n.lineno, n.col_offset, n.id))
        elif isinstance(n, ast.ExceptHandler) and n.name and n.name not in params:
            seen.append((n.lineno, n.col_offset, n.name))
    out = []
    for (_, _, nm) in sorted(seen):
        if nm not in out:
            out.append(nm)
    return out


def alpha_candidate(fnnode, pinned):
    """{current name: pinned name} when the function binds as many new names as it lost pinned ones (matched in binding order) and none of
    the pinned names is used for anything else in the function; None otherwise.  This is only ever a *guess* about which local plays which
    role: contracts transported through it are re-proved from scratch, and a failure under a guess is reported as undecided, not as a violation."""
    cur = local_binding_order(fnnode)
    missing = [n for n in pinned if n not in cur]
    new = [n for n in cur if n not in pinned]
    if not missing or len(missing) != len(new):
        return None
    used = {n.id for n in ast.walk(fnnode) if isinstance(n, ast.Name)} | {n.arg for n in ast.walk(fnnode) if isinstance(n, ast.arg)}
    if any(m in used for m in missing) or any(isinstance(n, (ast.Global, ast.Nonlocal)) for n in ast.walk(fnnode)):
        return None
    return dict(zip(new, missing))


def alpha_rename(fnnode, mapping):
    """rename locals in place (every occurrence, nested lambdas / comprehensions included): semantics-preserving because the target names
    occur nowhere in the function"""
    for n in ast.walk(fnnode):
        if isinstance(n, ast.Name) and n.id in mapping:
            n.id = mapping[n.id]
        elif isinstance(n, ast.arg) and n is not fnnode and n.arg in mapping:
            n.arg = mapping[n.arg]
        elif isinstance(n, ast.ExceptHandler) and n.name in mapping:
            n.name = mapping[n.name]


class Program(object):
    """All modules of the repo package, indexed by qualified name."""

    def __init__(self, repo=None, modules=("core", "algos", "backtest"), alpha=None):
        if alpha is None:
            alpha = os.environ.get("PYVC_ALPHA") == "1"   # set by the task runner for its second attempt only
        self.repo = repo or REPO
        self.alpha = {}  # qualname -> {current local: pinned local} applied to the parsed AST (only when alpha=True)
        self._want_alpha = alpha
        self.classes = {}  # simple class name -> ClassInfo   (class names are unique across bt/*.py)
        self.functions = {}  # qualname -> FuncInfo
        self.module_src = {}
        self.trees = {}
        for m in modules:
            path = os.path.join(self.repo, "bt", m + ".py")
            with open(path) as f:
                src = f.read()
            self.module_src[m] = src
            tree = ast.parse(src, filename=path)
            self.trees[m] = tree
            self._index("bt." + m, tree)
        if self._want_alpha:
            for q, mapping in self.alpha_candidates().items():
                alpha_rename(self.functions[q].node, mapping)
                self.alpha[q] = mapping

    def alpha_candidates(self):
        import json

        try:
            with open(PINNED_LOCALS) as f:
                pinned = json.load(f)
        except OSError:
            return {}
        out = {}
        for q, names in pinned.items():
            fi = self.functions.get(q)
            if fi is None:
                continue
            m = alpha_candidate(fi.node, names)
            if m:
                out[q] = m
        return out

    def _index(self, modname, tree):
        for node in tree.body:
            if isinstance(node, ast.FunctionDef):
                fi = FuncInfo(modname, None, node.name, node)
                self.functions[fi.qualname] = fi
            elif isinstance(node, ast.ClassDef):
                bases = []
                for b in node.bases:
                    if isinstance(b, ast.Name):
                        bases.append(b.id)
                    elif isinstance(b, ast.Attribute):
                        bases.append(b.attr)
                ci = ClassInfo(modname, node.name, bases, node)
                self.classes[node.name] = ci
                for item in node.body:
                    if isinstance(item, ast.FunctionDef):
                        is_prop = any(isinstance(d, ast.Name) and d.id == "property" for d in item.decorator_list)
                        fi = FuncInfo(modname, node.name, item.name, item, is_prop)
                        self.functions[fi.qualname] = fi
                        if is_prop:
                            ci.properties[item.name] = fi
                        else:
                            ci.methods[item.name] = fi

    # ---- class hierarchy (single inheritance in bt)
    def mro(self, cls):
        out = []
        c = cls
        while c in self.classes:
            out.append(c)
            bs = [b for b in self.classes[c].bases if b in self.classes]
            if not bs:
                break
            c = bs[0]
        return out

    def is_subclass(self, c, base):
        return base in self.mro(c)

    def subclasses(self, base):
        return [c for c in self.classes if self.is_subclass(c, base)]

    def lookup_method(self, cls, name, after=None):
        """Resolve a method along the MRO of cls; `after`: start after that class (super())."""
        m = self.mro(cls)
        if after is not None:
            m = m[m.index(after) + 1 :]
        for c in m:
            ci = self.classes[c]
            if name in ci.methods:
                return ci.methods[name]
        return None

    def lookup_property(self, cls, name):
        for c in self.mro(cls):
            ci = self.classes[c]
            if name in ci.properties:
                return ci.properties[name]
            if name in ci.methods:
                return None
        return None

    def overriders(self, cls, name):
        """classes below cls (inclusive) that define method/property `name` themselves"""
        out = []
        for c in self.subclasses(cls):
            ci = self.classes[c]
            if name in ci.methods or name in ci.properties:
                out.append(c)
        return out

    def func(self, qualname):
        return self.functions[qualname]

    def has(self, qualname):
        return qualname in self.functions


def subset_inventory(fi):
    """Statement / expression kinds used by a function (for the evidence file)."""
    kinds = {}
    for n in ast.walk(fi.node):
        k = type(n).__name__
        kinds[k] = kinds.get(k, 0) + 1
    return kinds
