"""
Contracts (sidecar; nothing here is stored in /repo).

FunctionalContract
    post-state == spec(pre-state): the spec is a function over SpecState written in the DSL, so the
    same text is (a) assumed at call sites, (b) the postcondition the real body is verified against,
    field by field with an empty frame for everything the spec does not touch, (c) the hypothesis of
    the property lemmas (`clauses`), and (d) the executable oracle of replays.

RelationalContract
    requires / modifies / ensures for functions with unbounded effects (children loops, recursion).

LoopSpec
    inductive invariant at a loop cut, keyed by (function qualname, loop ordinal).
"""
import ast

import z3

from . import dsl
from .dsl import Num, And, Or, Not, Implies, ite, is_z3, fresh_name
from .heap import Heap, RefV, StrV, HistV, ListV, DictV, Opt, TupleV, FnV, Fn, cls_f
from .state import State, Outcome, NORMAL, Oblig, Undecided, SpecState
from .symexec import NONEV, _Raised


class ForallInt(object):
    """schematic quantified clause  forall j in [lo, hi): body(j)   (kept ground: instantiated by the engine)"""

    def __init__(self, lo, hi, body, name="j"):
        self.lo, self.hi, self.body, self.name = lo, hi, body, name

    def inst(self, j):
        j = Num.lift(j)
        return Implies(And(Num.lift(self.lo) <= j, j < Num.lift(self.hi)), self.body(j))


def make_arg(ptype, name):
    """fresh symbolic value for a parameter type"""
    if ptype == "float":
        return dsl.fresh_float(name)
    if ptype == "real":  # float known not NaN
        return dsl.fresh_real(name)
    if ptype in ("int", "date"):
        return dsl.fresh_int(name)
    if ptype == "bool":
        return dsl.fresh_bool(name)
    if ptype == "optfloat":
        return Opt(dsl.fresh_bool(name + "#none"), dsl.fresh_float(name))
    if ptype == "optint":
        return Opt(dsl.fresh_bool(name + "#none"), dsl.fresh_int(name))
    if ptype == "fn":
        from .heap import FnV, Fn

        return FnV(z3.Const(fresh_name(name), Fn))
    if ptype == "optdata":
        from .heap import DataV

        return Opt(dsl.fresh_bool(name + "#none"), DataV(dsl.fresh_ref(name)))
    if ptype == "optstr":
        return Opt(dsl.fresh_bool(name + "#none"), StrV(z3.Const(fresh_name(name), dsl.Str)))
    if ptype == "none":
        return NONEV
    if ptype == "str":
        return StrV(z3.Const(fresh_name(name), dsl.Str))
    if ptype.startswith("ref:"):
        return RefV(dsl.fresh_ref(name), ptype[4:])
    if ptype == "any":
        return NONEV
    raise ValueError(ptype)


def value_same(a, b):
    """logical equality of two symbolic values of the same shape"""
    if a is NONEV or b is NONEV:
        return a is b
    if isinstance(a, TupleV):
        return And(*[value_same(x, y) for x, y in zip(a.items, b.items)]) if isinstance(b, TupleV) and len(a.items) == len(b.items) else False
    if isinstance(a, RefV):
        return a.term == b.term
    if isinstance(a, (bool,)) and isinstance(b, bool):
        return a == b
    if is_z3(a) and a.sort() == z3.BoolSort() or is_z3(b) and b.sort() == z3.BoolSort():
        return dsl.Iff(a, b)
    return dsl.same(a, b)


class Contract(object):
    family = False

    def __init__(self, qualname, params, self_cls=None):
        self.qualname = qualname
        self.params = params  # list of (name, type)
        self.self_cls = self_cls

    def pre(self, S, recv, args):
        return []


class FunctionalContract(Contract):
    def __init__(self, qualname, params, spec, pre=None, self_cls=None, clauses=None, family=False, field_props=None, coerce=None, note=""):
        Contract.__init__(self, qualname, params, self_cls)
        self.spec = spec
        self._pre = pre
        self.clauses = clauses  # fn(ctx) -> [(id, props, formula)]
        self.family = family
        self.field_props = field_props or {}  # heap key prefix -> tuple of property ids
        self.coerce = coerce
        self.note = note

    def pre(self, S, recv, args):
        if self._pre is None:
            return []
        return self._pre(S, recv, *args)

    # ---- use at a call site
    def apply(self, ex, st, recv, args, exact=False):
        S = SpecState(st.heap)
        args = self.coerce_args(ex, st, args)
        for (pid, f) in self.pre(S, recv, args):
            st.oblige("%s/call:%s/pre:%s" % (ex.cur_func[-1], self.qualname.split(".", 2)[-1], pid), f, kind="pre")
            st.assume(f if not isinstance(f, bool) else z3.BoolVal(f))
        kw = {"exact": exact} if self.family else {}
        pre_heap = st.heap.copy()
        result = self.spec(S, recv, *args, **kw)
        if isinstance(result, tuple):
            result = TupleV(list(result))
        st.log.append((self.qualname, recv, tuple(args), pre_heap))
        for (sid, cond, goal) in S.side:
            st.oblige("%s/call:%s/%s" % (ex.cur_func[-1], self.qualname.split(".", 2)[-1], sid), Implies(cond, goal), kind="side")
        out = []
        if S.raises:
            # fork: one branch per exception kind, one for normal completion
            bykind = {}
            for (c, e) in S.raises:
                bykind.setdefault(e, []).append(c)
            for e, cs in bykind.items():
                c = Or(*cs)
                if ex.feasible(st, c if not isinstance(c, bool) else z3.BoolVal(c)):
                    s2 = st.fork()
                    s2.assume(c)
                    out.append((s2, _Raised(e)))
            nr = Not(S.raised)
            if ex.feasible(st, nr if not isinstance(nr, bool) else z3.BoolVal(nr)):
                st.assume(nr)
                out.append((st, result if result is not None else NONEV))
            return out
        return [(st, result if result is not None else NONEV)]

    def coerce_args(self, ex, st, args):
        out = []
        for (name, t), v in zip(self.params, args):
            if t in ("float", "real") and not isinstance(v, Num):
                if isinstance(v, Opt):
                    v = ex._num(st, v)
                elif v is NONEV:
                    raise Undecided("None passed for float parameter %s of %s" % (name, self.qualname))
                else:
                    v = Num.lift(v)
            if t == "optfloat" and not isinstance(v, Opt):
                v = Opt(True, Num.lift(0.0)) if v is NONEV else Opt(False, Num.lift(v))
            if t == "optint" and not isinstance(v, Opt):
                v = Opt(True, Num.lift(0)) if v is NONEV else Opt(False, Num.lift(v))
            if t == "bool" and isinstance(v, Num):
                v = v.ne(0)
            if t == "optdata" and not isinstance(v, Opt):
                from .heap import DataV

                v = Opt(True, DataV(dsl.NONE)) if v is NONEV else Opt(False, v)
            out.append(v)
        return out


class RelationalContract(Contract):
    """requires / modifies(havoc) / ensures.  `apply_fn(ex, st, recv, args, exact)` implements the
    call-site use; `verify_fn` builds the obligations for the body."""

    def __init__(self, qualname, params, apply_fn, pre=None, self_cls=None, family=False, note=""):
        Contract.__init__(self, qualname, params, self_cls)
        self.apply_fn = apply_fn
        self._pre = pre
        self.family = family
        self.note = note

    def pre(self, S, recv, args):
        if self._pre is None:
            return []
        return self._pre(S, recv, *args)

    def apply(self, ex, st, recv, args, exact=False):
        S = SpecState(st.heap)
        for (pid, f) in self.pre(S, recv, args):
            st.oblige("%s/call:%s/pre:%s" % (ex.cur_func[-1], self.qualname.split(".", 2)[-1], pid), f, kind="pre")
            st.assume(f if not isinstance(f, bool) else z3.BoolVal(f))
        st.log.append((self.qualname, recv, tuple(args), st.heap.copy()))
        return self.apply_fn(ex, st, recv, args, exact)


# ---------------------------------------------------------------------------------- loops


def assigned_names(stmts):
    names = []
    for s in stmts:
        for n in ast.walk(s):
            if isinstance(n, ast.Name) and isinstance(n.ctx, ast.Store) and n.id not in names:
                names.append(n.id)
    return names


def havoc_like(v, name):
    from .symexec import PyObjV

    if isinstance(v, PyObjV) or (name == "res" and isinstance(v, bool)):
        t, f, u = dsl.fresh_bool(name + "_truthy"), dsl.fresh_bool(name + "_isFalse"), dsl.fresh_bool(name + "_isTrue")
        o = PyObjV(t, f, u)
        o.facts = And(Implies(f, Not(t)), Implies(u, t))
        return o
    if isinstance(v, Num):
        if v.is_int:
            return dsl.fresh_int(name)
        return dsl.fresh_float(name)
    if isinstance(v, bool) or (is_z3(v) and v.sort() == z3.BoolSort()):
        return dsl.fresh_bool(name)
    if isinstance(v, RefV):
        return RefV(dsl.fresh_ref(name), v.cls)
    return v


class LoopCtx(object):
    def __init__(self, ex, entry, cur, i, n, phase="head", head=None, owner=None, extra=None):
        self.ex = ex
        self.entry = entry  # state at loop head before the first iteration
        self.cur = cur  # state in which the invariant is evaluated
        self.i = i
        self.n = n
        self.phase = phase  # init | head | step
        self.head = head  # havocked head state (phase == step)
        self.owner = owner
        self.extra = extra or {}
        self.facts = []  # definitional facts the invariant wants assumed in ctx.cur (ghost unfoldings)

    def local(self, name):
        return self.cur.locals[name]

    def entry_local(self, name):
        return self.entry.locals[name]


class LoopSpec(object):
    """
    invariant(ctx) -> list of (id, formula | ForallInt)          (ctx.phase: init | head | step)
    havoc_heap(ctx) -> list of heap keys, or (key, condfn) with condfn(i) -> (x -> formula): the body
                       may change map `key` only at references x with condfn(i+1)(x); this frame is
                       built into the havoc (HMap) and re-proved at every step
    local_types: {name: kind} for locals first assigned inside the body
    """

    def __init__(self, invariant, havoc_heap=None, frame_facts=None, elem_cls="Node", on_iter=None, local_types=None, name="", mentions=None, lacks=None):
        # optional description of the loop this spec belongs to: attribute / variable names its body mentions (and names it does not)
        self.match = None
        if mentions or lacks:
            def match(node, mentions=tuple(mentions or ()), lacks=tuple(lacks or ())):
                names = {n.attr for n in ast.walk(node) if isinstance(n, ast.Attribute)} | {n.id for n in ast.walk(node) if isinstance(n, ast.Name)}
                return all(m in names for m in mentions) and not any(m in names for m in lacks)

            self.match = match
        self.invariant = invariant
        self.havoc_heap = havoc_heap or (lambda ctx: [])
        self.frame_facts = frame_facts
        self.elem_cls = elem_cls
        self.on_iter = on_iter
        self.local_types = local_types or {}
        self.name = name

    def _clauses(self, ctx, fn, k):
        try:
            return self.invariant(ctx)
        except KeyError as e:
            # the invariant names an accumulator local of the loop; code that no longer has it is outside this contract: undecided, never a violation
            raise Undecided("loop %d of %s: the invariant refers to %s, which the current body does not define" % (k, fn, e))

    def _check_inv(self, ex, ctx, st, tag, fn, k):
        clauses = self._clauses(ctx, fn, k)
        for f in ctx.facts:
            st.assume(_zb(f))
        for (cid, f) in clauses:
            oid = "%s/loop%d/%s:%s" % (fn, k, tag, cid)
            if isinstance(f, ForallInt):
                o = Oblig(oid, st.pc, f, kind="loopinv")
                o.schemas = list(st.ghost.get("schemas", []))
                st.obligs.append(o)
            else:
                st.oblige(oid, f, kind="loopinv")

    def _assume_inv(self, ex, ctx, st):
        clauses = self._clauses(ctx, ex.cur_func[-1] if ex.cur_func else "?", -1)
        for f in ctx.facts:
            st.assume(_zb(f))
        for (cid, f) in clauses:
            if isinstance(f, ForallInt):
                st.ghost["schemas"] = st.ghost.get("schemas", []) + [f]
                for t in [ctx.i, ctx.i - 1]:
                    st.assume(_zb(f.inst(t)))
            else:
                st.assume(_zb(f))

    def _havoc(self, ex, node, st, entry, n, owner=None):
        h = st.fork()
        i = dsl.fresh_int("i")
        names = assigned_names(node.body)
        for nm in names:
            if nm in h.locals:
                h.locals[nm] = havoc_like(h.locals[nm], nm)
                if getattr(h.locals[nm], "facts", None) is not None:
                    h.assume(h.locals[nm].facts)
            elif nm in self.local_types:
                h.locals[nm] = make_arg(self.local_types[nm], nm)
        ctx = LoopCtx(ex, entry, h, i, n, "head", owner=owner)
        framed = []
        for item in self.havoc_heap(ctx):
            if isinstance(item, tuple):
                key, condfn = item
                base = entry.heap.ensure(key)
                h.heap.ensure(key)
                fresh = z3.Const(fresh_name(key + "@loop"), z3.ArraySort(dsl.Ref, base.range()))
                from .heap import HMap

                h.heap.maps[key] = HMap(base, fresh, condfn(i))
                framed.append((key, condfn))
            else:
                h.heap.havoc(item)
        if self.frame_facts:
            for f in self.frame_facts(ctx):
                h.assume(_zb(f))
        return h, i, ctx, framed

    def _frame_obligs(self, ex, st, entry, framed, i_next, fn, k):
        from .heap import map_same

        for (key, condfn) in framed:
            a = st.heap.ensure(key)
            b = entry.heap.ensure(key)
            if map_same(a, b):
                continue
            x = z3.Const(fresh_name("xfr"), dsl.Ref)
            c = condfn(i_next)(x)
            o = Oblig("%s/loop%d/frame:%s" % (fn, k, key), st.pc, Implies(Not(c), a.select(x) == b.select(x)), kind="loopinv")
            o.ref_skolem = x
            o.ref_schemas = list(st.ghost.get("ref_schemas", []))
            st.obligs.append(o)
        # maps the body touched although the spec does not list them
        listed = set(k_ for (k_, _) in framed)
        for key, a in st.heap.maps.items():
            if key in listed:
                continue
            b = entry.heap.maps.get(key)
            if b is None:
                b = entry.heap.ensure(key)
            hb = getattr(self, "_plain_havoc", set())
            if key in hb:
                continue
            if not map_same(a, b):
                x = z3.Const(fresh_name("xfr"), dsl.Ref)
                st.oblige("%s/loop%d/untouched:%s" % (fn, k, key), a.select(x) == b.select(x), kind="loopinv")

    def run_for(self, ex, node, st, k):
        fn = ex.cur_func[-1]
        its = ex.eval(node.iter, st)
        out = []
        for (s0, it) in its:
            if isinstance(it, _Raised):
                out.append((s0, Outcome("raise", exc=it.exc)))
                continue
            dateseq = type(it).__name__ == "DateSeqV"
            elem_fn = None
            adapter = getattr(ex, "iter_adapter", None)
            if not isinstance(it, ListV) and not dateseq and adapter is not None:
                ad = adapter(it, s0)
                if ad is not None:
                    n_ad, elem_fn, it_owner_ad = ad
            if not isinstance(it, ListV) and not dateseq and elem_fn is None:
                raise Undecided("for-loop over %r in %s" % (it, fn))
            if not isinstance(node.target, ast.Name) and not (isinstance(node.target, ast.Tuple) and all(isinstance(t, ast.Name) for t in node.target.elts) and elem_fn is not None):
                raise Undecided("for-loop target")
            if elem_fn is not None:
                n = n_ad
                it_owner = it_owner_ad
            elif dateseq:
                from .ext_algos import idxlen_c

                n = Num(z3.If(idxlen_c - it.offset >= 0, idxlen_c - it.offset, 0), False, True)
                it_owner = None
            else:
                n = s0.heap.list_len(it.owner, it.field)
                it_owner = it.owner
            s0.assume(n.r >= 0)
            entry = s0.fork()
            # 1. invariant holds initially
            ctx0 = LoopCtx(ex, entry, s0, Num.lift(0), n, "init", owner=it_owner)
            self._check_inv(ex, ctx0, s0, "init", fn, k)
            # 2. arbitrary iteration
            h, i, ctx, framed = self._havoc(ex, node, s0, entry, n, owner=it_owner)
            self._plain_havoc = set(x for x in self.havoc_heap(ctx) if not isinstance(x, tuple))
            h.assume(And(i.r >= 0, i.r <= n.r))
            self._assume_inv(ex, ctx, h)
            head = h.fork()
            # 2a. exit: i == n
            hx = h.fork()
            if ex.feasible(hx, i.r == n.r):
                hx.assume(i.r == n.r)
                out.extend(ex.exec_block(node.orelse, hx) if node.orelse else [(hx, NORMAL)])
            # 2b. body: i < n   (run on a fork: the invariant's closures hold on to the head state's heap)
            hb = h.fork()
            if ex.feasible(hb, i.r < n.r):
                hb.assume(i.r < n.r)
                if elem_fn is not None:
                    c = elem_fn(hb, i)
                elif dateseq:
                    c = ex.index_facts_pos(hb, i + it.offset)
                else:
                    c = hb.heap.list_at(it.owner, it.field, i, self.elem_cls)
                if isinstance(node.target, ast.Name):
                    hb.locals[node.target.id] = c
                else:
                    # tuple target: the adapter yields a tuple value of the same width
                    items = getattr(c, "items", None)
                    if items is None or len(items) != len(node.target.elts):
                        raise Undecided("for-loop tuple target over non-tuple elements")
                    for t, v in zip(node.target.elts, items):
                        hb.locals[t.id] = v
                if self.on_iter:
                    self.on_iter(LoopCtx(ex, entry, hb, i, n, "head", owner=it_owner), c)
                for (s2, oc) in ex.exec_block(node.body, hb):
                    if oc.kind in ("normal", "continue"):
                        ctx2 = LoopCtx(ex, entry, s2, i + 1, n, "step", head=head, owner=it_owner)
                        self._check_inv(ex, ctx2, s2, "step", fn, k)
                        self._frame_obligs(ex, s2, entry, framed, i + 1, fn, k)
                        # path ends here (cut); keep it only for its obligations
                        out.append((s2, Outcome("raise", exc="<cut>")))
                    elif oc.kind == "break":
                        out.append((s2, NORMAL))
                    else:
                        out.append((s2, oc))
        return out

    def run_while(self, ex, node, st, k):
        fn = ex.cur_func[-1]
        out = []
        entry = st.fork()
        ctx0 = LoopCtx(ex, entry, st, None, None)
        self._check_inv(ex, ctx0, st, "init", fn, k)
        h, i, ctx, framed = self._havoc(ex, node, st, entry, None)
        ctx.i = None
        h.obligs = list(st.obligs)
        self._assume_inv(ex, LoopCtx(ex, entry, h, None, None), h)
        first = True
        for (s1, b) in ex.eval_cond(node.test, h):
            if isinstance(b, _Raised):
                out.append((s1, Outcome("raise", exc=b.exc)))
                continue
            if not b:
                out.append((s1, NORMAL))
                continue
            for (s2, oc) in ex.exec_block(node.body, s1):
                if oc.kind in ("normal", "continue"):
                    self._check_inv(ex, LoopCtx(ex, entry, s2, None, None), s2, "step", fn, k)
                    out.append((s2, Outcome("raise", exc="<cut>")))
                elif oc.kind == "break":
                    out.append((s2, NORMAL))
                else:
                    out.append((s2, oc))
        return out


def _zb(f):
    return z3.BoolVal(f) if isinstance(f, bool) else f
