"""
Heap model: one z3 array per field over sort Ref (Burstall-Bornat).  History series owned by a
node ("hist" fields: `_values`, `_cash`, ...) are modelled as one buffer per (node, field):
Array(Ref, Array(Int, Real)) plus a NaN-flag twin.  That each node's series are distinct objects
(so a store through one is invisible through another) is part of invariant T (established by
`setup`, audited at run time by the C10/C19 audits).
"""
import z3

from .dsl import Num, Ref, Str, NONE, fresh_name, is_z3

# ------------------------------------------------------------------ value wrappers


class RefV(object):
    __slots__ = ("term", "cls")

    def __init__(self, term, cls):
        self.term = term
        self.cls = cls

    def __repr__(self):
        return "RefV(%s:%s)" % (self.term, self.cls)


class StrV(object):
    __slots__ = ("term",)

    def __init__(self, term):
        self.term = term


class HistV(object):
    """handle on a history series owned by a node: node.<field>"""

    __slots__ = ("owner", "field")

    def __init__(self, owner, field):
        self.owner = owner
        self.field = field


class HistBuf(object):
    """`series.values` / `series.array`"""

    __slots__ = ("hist",)

    def __init__(self, hist):
        self.hist = hist


class HistSlice(object):
    """series.loc[:label] -- what the accessors hand to the user"""

    __slots__ = ("hist", "upto", "heapver")

    def __init__(self, hist, upto, heapver=None):
        self.hist = hist
        self.upto = upto
        self.heapver = heapver


class ListV(object):
    """node._childrenv"""

    __slots__ = ("owner", "field")

    def __init__(self, owner, field):
        self.owner = owner
        self.field = field


class DictV(object):
    """node.children"""

    __slots__ = ("owner", "field")

    def __init__(self, owner, field):
        self.owner = owner
        self.field = field


class FrameV(object):
    """node.data / node._universe : a DataFrame owned by a node (only its index is modelled here)"""

    __slots__ = ("owner", "field")

    def __init__(self, owner, field):
        self.owner = owner
        self.field = field


class OpaqueV(object):
    """attribute whose value is not modelled beyond its identity (owner, field)"""

    __slots__ = ("owner", "field")

    def __init__(self, owner, field):
        self.owner = owner
        self.field = field


class DataV(object):
    """the optional `data` argument of update(): a mapping name -> price for the date (legacy path)"""

    __slots__ = ("term",)

    def __init__(self, term):
        self.term = term


dataval_f = z3.Function("data_value", Ref, Str, z3.RealSort())
dataval_nan_f = z3.Function("data_value_nan", Ref, Str, z3.BoolSort())


class Opt(object):
    """value that may be None"""

    __slots__ = ("isnone", "val")

    def __init__(self, isnone, val):
        self.isnone = isnone
        self.val = val


class TupleV(object):
    __slots__ = ("items",)

    def __init__(self, items):
        self.items = list(items)


class FnV(object):
    """commission function value (uninterpreted id)"""

    __slots__ = ("term",)

    def __init__(self, term):
        self.term = term


Fn = z3.DeclareSort("Fn")

# uninterpreted commission: comm(fn, q, p)
comm_f = z3.Function("comm", Fn, z3.RealSort(), z3.RealSort(), z3.RealSort())
# position of a date label in the (shared) universe index
idx_f = z3.Function("idx", z3.IntSort(), z3.IntSort())
# class tag of an object
cls_f = z3.Function("cls", Ref, z3.IntSort())


# ------------------------------------------------------------------ heap maps
class ZMap(object):
    """heap map backed by a z3 array term"""

    __slots__ = ("arr",)

    def __init__(self, arr):
        self.arr = arr

    def select(self, t):
        return z3.Select(self.arr, t)

    def store(self, t, v):
        return ZMap(z3.Store(self.arr, t, v))

    def sort(self):
        return self.arr.sort()

    def range(self):
        return self.arr.sort().range()


class HMap(object):
    """havocked map:  x |-> cond(x) ? fresh[x] : base[x]   (frame built into the havoc; stays ground)"""

    __slots__ = ("base", "fresh", "cond")

    def __init__(self, base, fresh, cond):
        self.base, self.fresh, self.cond = base, fresh, cond

    def select(self, t):
        c = self.cond(t)
        if c is True:
            return z3.Select(self.fresh, t)
        if c is False:
            return self.base.select(t)
        return z3.If(c, z3.Select(self.fresh, t), self.base.select(t))

    def store(self, t, v):
        return SMap(self, t, v)

    def range(self):
        return self.base.range()


class SMap(object):
    __slots__ = ("base", "key", "val")

    def __init__(self, base, key, val):
        self.base, self.key, self.val = base, key, val

    def select(self, t):
        if z3.eq(t, self.key):
            return self.val
        return z3.If(t == self.key, self.val, self.base.select(t))

    def store(self, t, v):
        if z3.eq(t, self.key):
            return SMap(self.base, t, v)
        return SMap(self, t, v)

    def range(self):
        return self.base.range()


class IMap(object):
    """c ? a : b"""

    __slots__ = ("c", "a", "b")

    def __init__(self, c, a, b):
        self.c, self.a, self.b = c, a, b

    def select(self, t):
        return z3.If(self.c, self.a.select(t), self.b.select(t))

    def store(self, t, v):
        return SMap(self, t, v)

    def range(self):
        return self.a.range()


def map_same(a, b):
    """structural identity (no solver)"""
    if a is b:
        return True
    if isinstance(a, ZMap) and isinstance(b, ZMap):
        return z3.eq(a.arr, b.arr)
    return False


def map_equal(a, b, witness=None):
    """formula: the two maps are equal (extensionally).  z3 arrays: array equality; otherwise at a
    fresh skolem reference (valid as a *goal* only)."""
    if isinstance(a, ZMap) and isinstance(b, ZMap):
        return a.arr == b.arr
    x = witness if witness is not None else z3.Const(fresh_name("xfr"), Ref)
    return a.select(x) == b.select(x)


EXTRA_KEYS = {}  # ghost heap keys registered by extensions: key -> range sort


class Schema(object):
    def __init__(self):
        self.fields = {}  # field -> type
        self.class_tags = {}

    def declare(self, **kw):
        for k, v in kw.items():
            if k in self.fields and self.fields[k] != v:
                raise ValueError("field %s redeclared %s vs %s" % (k, self.fields[k], v))
            self.fields[k] = v

    def type_of(self, f):
        return self.fields.get(f)

    def tag(self, clsname):
        if clsname not in self.class_tags:
            self.class_tags[clsname] = len(self.class_tags) + 1
        return self.class_tags[clsname]


def _sort_for(t):
    if t in ("float",):
        return z3.RealSort()
    if t in ("int", "date"):
        return z3.IntSort()
    if t == "bool":
        return z3.BoolSort()
    if t.startswith("ref"):
        return Ref
    if t == "str":
        return Str
    if t == "fn":
        return Fn
    raise ValueError(t)


class Heap(object):
    """Symbolic heap.  `maps` is copied on fork; z3 terms are immutable."""

    def __init__(self, schema, maps=None, tag="0"):
        self.schema = schema
        self.maps = dict(maps) if maps else {}
        self.tag = tag

    def copy(self):
        h = Heap(self.schema, self.maps, self.tag)
        return h

    # ---- array management
    def _arr(self, key, rng):
        a = self.maps.get(key)
        if a is None:
            a = ZMap(z3.Const("%s@%s" % (key, self.tag), z3.ArraySort(Ref, rng)))
            self.maps[key] = a
        return a

    def arr(self, field):
        t = self.schema.type_of(field)
        if t is None:
            raise KeyError("field %r not in schema" % field)
        if t in ("hist", "opthist"):
            return self._arr(field, z3.ArraySort(z3.IntSort(), z3.RealSort()))
        if t == "list":
            return self._arr(field, z3.ArraySort(z3.IntSort(), Ref))
        if t == "strlist":
            return self._arr(field, z3.ArraySort(z3.IntSort(), Str))
        if t == "dict":
            return self._arr(field, z3.ArraySort(Str, Ref))
        return self._arr(field, _sort_for(t))

    def nanarr(self, field):
        t = self.schema.type_of(field)
        if t in ("hist", "opthist"):
            return self._arr(field + "#nan", z3.ArraySort(z3.IntSort(), z3.BoolSort()))
        return self._arr(field + "#nan", z3.BoolSort())

    def lenarr(self, field):
        return self._arr(field + "#len", z3.IntSort())

    def hasarr(self, field):
        return self._arr(field + "#has", z3.ArraySort(Str, z3.BoolSort()))

    def nonearr(self, field):
        return self._arr(field + "#none", z3.BoolSort())

    # ---- typed access
    def get(self, ref, field):
        t = self.schema.type_of(field)
        if t is None:
            raise KeyError("field %r not in schema" % field)
        term = ref.term if isinstance(ref, RefV) else ref
        if t == "float":
            return Num(self.arr(field).select(term), self.nanarr(field).select(term), False)
        if t in ("int", "date"):
            return Num(self.arr(field).select(term), False, True)
        if t == "bool":
            return self.arr(field).select(term)
        if t.startswith("ref"):
            cls = t.split(":", 1)[1] if ":" in t else "Node"
            return RefV(self.arr(field).select(term), cls)
        if t.startswith("optref"):
            raise NotImplementedError
        if t == "str":
            return StrV(self.arr(field).select(term))
        if t == "fn":
            return FnV(self.arr(field).select(term))
        if t == "hist":
            return HistV(RefV(term, None), field)
        if t == "opthist":
            return Opt(self.nonearr(field).select(term), HistV(RefV(term, None), field))
        if t == "frame":
            return FrameV(RefV(term, None), field)
        if t == "opaque":
            return OpaqueV(RefV(term, None), field)
        if t == "optfloat":
            return Opt(self.nonearr(field).select(term), Num(self._arr(field, z3.RealSort()).select(term), False, False))
        if t == "optdate":
            return Opt(self.nonearr(field).select(term), Num(self._arr(field, z3.IntSort()).select(term), False, True))
        if t == "optdict":
            return Opt(self.nonearr(field).select(term), ("dictref", self._arr(field, Ref).select(term)))
        if t == "optstr":
            return Opt(self.nonearr(field).select(term), StrV(z3.Select(self._arr(field, Str).arr, term)))
        if t in ("list", "strlist"):
            return ListV(RefV(term, None), field)
        if t == "dict":
            return DictV(RefV(term, None), field)
        raise ValueError("type %s" % t)

    def set(self, ref, field, val):
        t = self.schema.type_of(field)
        if t is None:
            raise KeyError("field %r not in schema" % field)
        term = ref.term if isinstance(ref, RefV) else ref
        if t == "float":
            v = Num.lift(val)
            self.maps[field] = self.arr(field).store(term, v.real())
            nk = field + "#nan"
            self.maps[nk] = self.nanarr(field).store(term, z3.BoolVal(v.nan) if isinstance(v.nan, bool) else v.nan)
            return
        if t in ("int", "date"):
            v = Num.lift(val)
            if not v.is_int:
                raise TypeError("storing non-int into %s" % field)
            self.maps[field] = self.arr(field).store(term, v.r)
            return
        if t == "bool":
            b = z3.BoolVal(val) if isinstance(val, bool) else val
            if isinstance(b, Num):
                b = b.r != 0
            self.maps[field] = self.arr(field).store(term, b)
            return
        if t.startswith("ref"):
            self.maps[field] = self.arr(field).store(term, val.term if isinstance(val, RefV) else val)
            return
        if t == "fn":
            self.maps[field] = self.arr(field).store(term, val.term)
            return
        if t == "str":
            self.maps[field] = self.arr(field).store(term, val.term)
            return
        if t == "optfloat":
            if type(val).__name__ == "NoneV":
                self.maps[field + "#none"] = self.nonearr(field).store(term, z3.BoolVal(True))
                return
            v = Num.lift(val.val if isinstance(val, Opt) else val)
            self.maps[field + "#none"] = self.nonearr(field).store(term, val.isnone if isinstance(val, Opt) else z3.BoolVal(False))
            self.maps[field] = self._arr(field, z3.RealSort()).store(term, v.real())
            return
        if t == "optdate":
            if type(val).__name__ == "NoneV":
                self.maps[field + "#none"] = self.nonearr(field).store(term, z3.BoolVal(True))
                return
            v = Num.lift(val.val if isinstance(val, Opt) else val)
            self.maps[field + "#none"] = self.nonearr(field).store(term, val.isnone if isinstance(val, Opt) else z3.BoolVal(False))
            self.maps[field] = self._arr(field, z3.IntSort()).store(term, v.r)
            return
        if t == "optdict":
            if type(val).__name__ == "NoneV":
                self.maps[field + "#none"] = self.nonearr(field).store(term, z3.BoolVal(True))
                return
            self.maps[field + "#none"] = self.nonearr(field).store(term, z3.BoolVal(False))
            self.maps[field] = self._arr(field, Ref).store(term, val.ref)
            return
        raise ValueError("cannot set field %s of type %s" % (field, t))

    # ---- history buffers
    def hist_get(self, owner, field, i):
        term = owner.term if isinstance(owner, RefV) else owner
        i = Num.lift(i)
        buf = self.arr(field).select(term)
        nbuf = self.nanarr(field).select(term)
        return Num(z3.Select(buf, i.r), z3.Select(nbuf, i.r), False)

    def hist_set(self, owner, field, i, val):
        term = owner.term if isinstance(owner, RefV) else owner
        i = Num.lift(i)
        v = Num.lift(val)
        a = self.arr(field)
        na = self.nanarr(field)
        self.maps[field] = a.store(term, z3.Store(a.select(term), i.r, v.real()))
        self.maps[field + "#nan"] = na.store(term, z3.Store(na.select(term), i.r, z3.BoolVal(v.nan) if isinstance(v.nan, bool) else v.nan))

    def hist_fill(self, owner, field, val):
        term = owner.term if isinstance(owner, RefV) else owner
        v = Num.lift(val)
        a = self.arr(field)
        na = self.nanarr(field)
        self.maps[field] = a.store(term, z3.K(z3.IntSort(), v.real()))
        self.maps[field + "#nan"] = na.store(term, z3.K(z3.IntSort(), z3.BoolVal(v.nan) if isinstance(v.nan, bool) else v.nan))

    # ---- lists (children)
    def list_len(self, owner, field):
        term = owner.term if isinstance(owner, RefV) else owner
        return Num(self.lenarr(field).select(term), False, True)

    def list_at(self, owner, field, i, cls="Node"):
        term = owner.term if isinstance(owner, RefV) else owner
        i = Num.lift(i)
        if self.schema.type_of(field) == "strlist":
            return StrV(z3.Select(self.arr(field).select(term), i.r))
        return RefV(z3.Select(self.arr(field).select(term), i.r), cls)

    def dict_has(self, owner, field, key):
        term = owner.term if isinstance(owner, RefV) else owner
        return z3.Select(self.hasarr(field).select(term), key.term)

    def dict_at(self, owner, field, key, cls="Node"):
        term = owner.term if isinstance(owner, RefV) else owner
        return RefV(z3.Select(self.arr(field).select(term), key.term), cls)

    def keys(self):
        return list(self.maps.keys())

    def havoc(self, key, name=None, cond=None):
        """replace map `key` by a fresh one; with cond(x): only at references satisfying cond"""
        a = self.maps.get(key)
        if a is None:
            a = self.ensure(key)
        fresh = z3.Const(fresh_name((name or key) + "@h"), z3.ArraySort(Ref, a.range()))
        if cond is None:
            self.maps[key] = ZMap(fresh)
        else:
            self.maps[key] = HMap(a, fresh, cond)

    def ensure_ghost_bool(self, key):
        a = self.maps.get(key)
        if a is None:
            a = ZMap(z3.Const("%s@%s" % (key, self.tag), z3.ArraySort(Ref, z3.BoolSort())))
            self.maps[key] = a
        return a

    def ensure(self, key):
        """create the base map for a heap key (field or field#suffix)"""
        if key in self.maps:
            return self.maps[key]
        if key.startswith("tmp#"):
            return self.ensure_ghost_bool(key)
        if key in EXTRA_KEYS:
            a = ZMap(z3.Const("%s@%s" % (key, self.tag), z3.ArraySort(Ref, EXTRA_KEYS[key])))
            self.maps[key] = a
            return a
        if key == "temp#has":
            a = ZMap(z3.Const("%s@%s" % (key, self.tag), z3.ArraySort(Ref, z3.ArraySort(Str, z3.BoolSort()))))
            self.maps[key] = a
            return a
        if "#" in key:
            f, suf = key.split("#", 1)
            if suf == "nan":
                return self.nanarr(f)
            if suf == "len":
                return self.lenarr(f)
            if suf == "has":
                return self.hasarr(f)
            if suf == "none":
                return self.nonearr(f)
            raise KeyError(key)
        return self.arr(key)


def heap_keys_union(h1, h2):
    ks = list(h1.maps.keys())
    for k in h2.maps.keys():
        if k not in h1.maps:
            ks.append(k)
    return ks
