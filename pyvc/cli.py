import argparse
import importlib
import json
import os
import sys
import time

from . import report
from .runner import run_tasks


def main():
    ap = argparse.ArgumentParser()
    ap.add_argument("prop", nargs="?")
    ap.add_argument("--tier", default=os.environ.get("VERIF_TIER", "quick"))
    ap.add_argument("--replay")
    ap.add_argument("--jobs", type=int, default=int(os.environ.get("VERIF_JOBS", "16")))
    a = ap.parse_args()
    if a.replay:
        from . import replay

        sys.exit(replay.run_replay_file(a.replay))
    if not a.prop:
        ap.error("property id required")
    tier = a.tier if a.tier in ("quick", "thorough") else "quick"
    seed = int(os.environ.get("VERIF_SEED", "0") or 0)
    t0 = time.time()
    try:
        mod = importlib.import_module("props." + a.prop)
    except ImportError as e:
        print("CHECKER-ERROR: no check for %s (%s)" % (a.prop, e))
        sys.exit(3)
    tasks = mod.tasks(tier, seed)
    results = run_tasks(tasks, jobs=a.jobs)
    meta = dict(mod.META)
    meta["checker_cmd"] = "./check %s --tier %s" % (a.prop, tier)
    extra = None
    bounded = None
    if hasattr(mod, "post"):
        extra, bounded = mod.post(results, tier, seed)
    ev, refuted, unknown, undecided, errors = report.summarize(a.prop, tier, seed, results, meta, t0, extra_cov=extra, bounded=bounded)
    # violations found by run-time audits / bounded monitors (real executions)
    for r in results:
        for v in r.get("violations", []) or []:
            refuted.append(v)
    code = report.finish(
        a.prop, ev, refuted, unknown, undecided, errors, replay_fn=getattr(mod, "replay", None), known=report.load_known(), known_witness_fn=getattr(mod, "known_witness", None)
    )
    sys.exit(code)


if __name__ == "__main__":
    main()
