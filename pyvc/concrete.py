"""
Concrete side of the contracts: (1) turning a solver counter-model of a security-level function into
a scenario (plain JSON), (2) realising a scenario on REAL bt objects built with the public
constructors and setup(), poking the remaining private fields, (3) running the real method and
comparing the whole post-state with the contract's spec function evaluated in concrete mode.

The same harness, fed with generated instead of solver-made scenarios, is the bounded stand-in /
CPython cross-check of the engine (never counted as proved).
"""
import copy
import math
from fractions import Fraction

from . import dsl
from .dsl import And, Or, Not

# scalar fields poked per node kind
STRAT_FLOATS = ["_capital", "_value", "_notl_value", "_price", "_weight", "_net_flows", "_last_value", "_last_notl_value", "_last_price", "_last_fee", "_bidoffer_paid"]
STRAT_BOOLS = ["stale", "bankrupt", "_bidoffer_set", "_fixed_income", "_paper_trade", "integer_positions"]
SEC_FLOATS = ["_price", "_value", "_notl_value", "_weight", "_capital", "_position", "_last_pos", "multiplier", "_outlay", "_bidoffer", "_bidoffer_paid", "_coupon", "_holding_cost"]
SEC_BOOLS = ["_needupdate", "_prices_set", "_bidoffer_set", "integer_positions", "_fixed_income"]
SEC_HISTS = ["_prices", "_values", "_notl_values", "_positions", "_outlays", "_bidoffers", "_bidoffers_paid", "_coupons", "_cost_long", "_cost_short", "_coupon_income", "_holding_costs"]
COUPON_CLASSES = ("CouponPayingSecurity", "CouponPayingHedgeSecurity")


# =============================================================================================== model -> scenario
def _val(m, t):
    import z3

    v = m.eval(t, model_completion=True)
    if z3.is_true(v):
        return True
    if z3.is_false(v):
        return False
    if z3.is_int_value(v):
        return v.as_long()
    if z3.is_rational_value(v):
        return [v.numerator_as_long(), v.denominator_as_long()]
    if z3.is_algebraic_value(v):
        a = v.approx(20)
        return [a.numerator_as_long(), a.denominator_as_long()]
    return str(v)


def _num(m, n):
    """Num -> JSON (None for NaN)"""
    from .dsl import Num

    n = Num.lift(n)
    nan = n.nan if isinstance(n.nan, bool) else _val(m, n.nan)
    if nan is True:
        return None
    return _val(m, n.real() if not n.is_int else n.r)


def sec_scenario(m, heap0, self, args, params, schema, tag_names):
    """scenario for a function whose receiver is a security (self) or a strategy (adjust)"""
    import z3
    from .heap import comm_f, idx_f, cls_f, Opt
    from .dsl import Num

    sc = dict(kind="sec", nodes={}, args={}, hist={}, notes=[])
    cls_tag = _val(m, cls_f(self.term))
    cls = tag_names.get(cls_tag)
    sc["self_cls"] = cls
    is_strat = cls in ("StrategyBase", "Strategy", "FixedIncomeStrategy")
    if is_strat:
        par = self
        secv = None
    else:
        par = heap0.get(self, "parent")
        secv = self
    rt = heap0.get(par, "root")
    ev = lambda t: str(m.eval(t, model_completion=True))
    ids = dict(sec=ev(secv.term) if secv is not None else None, par=ev(par.term), root=ev(rt.term))
    if secv is not None and ids["sec"] in (ids["par"], ids["root"]):
        sc["unrealisable"] = "model aliases the security with its parent/root"
    sc["root_is_parent"] = ids["par"] == ids["root"]

    def dump(node, floats, bools):
        d = {}
        for f in floats:
            d[f] = _num(m, heap0.get(node, f))
        for f in bools:
            d[f] = _val(m, heap0.get(node, f))
        d["now"] = _val(m, heap0.get(node, "now").r)
        return d

    sc["nodes"]["par"] = dump(par, STRAT_FLOATS, STRAT_BOOLS)
    if not sc["root_is_parent"]:
        sc["nodes"]["root"] = dump(rt, STRAT_FLOATS, STRAT_BOOLS)
    if secv is not None:
        sc["nodes"]["sec"] = dump(secv, SEC_FLOATS, SEC_BOOLS)
        for f in ("_coupons", "_cost_long", "_cost_short"):
            sc["nodes"]["sec"][f + "#none"] = _val(m, heap0.get(secv, f).isnone)
    # arguments
    dates = []
    for (name, t), v in zip(params, args):
        if t in ("float", "real"):
            sc["args"][name] = _num(m, v)
        elif t in ("int", "date"):
            sc["args"][name] = _val(m, v.r)
            if t == "date":
                dates.append(sc["args"][name])
        elif t == "bool":
            sc["args"][name] = _val(m, v) if not isinstance(v, bool) else v
        elif t in ("optfloat", "optint"):
            none = v.isnone if isinstance(v.isnone, bool) else _val(m, v.isnone)
            sc["args"][name] = None if none else _num(m, v.val)
            sc["args"][name + "#none"] = bool(none)
        elif t == "none":
            sc["args"][name] = None
    # dates and their index positions
    for nd in sc["nodes"].values():
        dates.append(nd["now"])
    dmap = {}
    for d in sorted(set(dates)):
        dmap[str(d)] = _val(m, idx_f(z3.IntVal(d)))
    sc["idx"] = dmap
    # history rows at the positions in play
    poss = sorted(set([p for p in dmap.values() if isinstance(p, int)] + [v for k, v in sc["args"].items() if k == "inow" and isinstance(v, int)] + [0]))
    if secv is not None:
        for f in SEC_HISTS:
            sc["hist"][f] = {str(p): _num(m, heap0.hist_get(secv, f, Num.lift(p))) for p in poss}
    # commission function graph
    fi = None
    for d_ in m.decls():
        if d_.name() == "comm":
            fi = m[d_]
    table = []
    els = 0.0
    if fi is not None:
        for k in range(fi.num_entries()):
            e = fi.entry(k)
            table.append([_val(m, e.arg_value(1)), _val(m, e.arg_value(2)), _val(m, e.value())])
        try:
            els = _val(m, fi.else_value())
        except Exception:
            els = [0, 1]
    sc["comm"] = dict(table=table, default=els)
    return sc


# =============================================================================================== scenario -> real objects
def _f(x):
    if x is None:
        return float("nan")
    if isinstance(x, list):
        return float(Fraction(x[0], x[1]))
    if isinstance(x, bool):
        return x
    return float(x)


def make_comm(spec):
    table = [(_f(q), _f(p), _f(v)) for q, p, v in spec.get("table", []) if not isinstance(q, str)]
    dflt = _f(spec.get("default", 0.0)) if not isinstance(spec.get("default"), str) else 0.0

    def comm(q, p):
        for (tq, tp, tv) in table:
            if abs(tq - q) <= 1e-9 * max(1.0, abs(tq)) and abs(tp - p) <= 1e-9 * max(1.0, abs(tp)):
                return tv
        return dflt

    return comm


def build_tree(sc, bt):
    """returns (root, par, sec, dates)"""
    import numpy as np
    import pandas as pd

    core = bt.core
    cls = sc["self_cls"]
    is_strat = cls in ("StrategyBase", "Strategy", "FixedIncomeStrategy")
    idx = {d: p for d, p in sc["idx"].items() if int(d) != 0}
    L = max([p for p in idx.values() if isinstance(p, int)] + [int(k) for f in sc["hist"].values() for k in f.keys()] + [1]) + 2
    if L > 4000 or min([p for p in idx.values() if isinstance(p, int)] + [0]) < 0:
        raise ValueError("unrealisable index positions %s" % idx)
    index = pd.date_range("2020-01-01", periods=L, freq="D")
    dates = {}
    for d, p in idx.items():
        dates[int(d)] = 0 if int(d) == 0 else index[p]
    secnode = sc["nodes"].get("sec")
    name = "sec"
    prices = pd.DataFrame({name: [1.0] * L, "other": [1.0] * L}, index=index)
    kw = {}
    hist = sc["hist"]

    def col(field, dflt=0.0):
        v = [dflt] * L
        for k, x in hist.get(field, {}).items():
            v[int(k)] = _f(x)
        return v

    if secnode is not None:
        prices[name] = col("_prices", 1.0)
        if secnode.get("_bidoffer_set"):
            kw["bidoffer"] = pd.DataFrame({name: col("_bidoffers", 0.0)}, index=index)
        if cls in COUPON_CLASSES:
            kw["coupons"] = pd.DataFrame({name: col("_coupons", 0.0)}, index=index)
            if not secnode.get("_cost_long#none"):
                kw["cost_long"] = pd.DataFrame({name: col("_cost_long", 0.0)}, index=index)
            if not secnode.get("_cost_short#none"):
                kw["cost_short"] = pd.DataFrame({name: col("_cost_short", 0.0)}, index=index)
    elif sc["nodes"]["par"].get("_bidoffer_set"):
        kw["bidoffer"] = pd.DataFrame({name: [0.0] * L}, index=index)
    sec = None
    if secnode is not None:
        sec = getattr(core, cls if cls != "SecurityBase" else "SecurityBase")(name)
    pcls = cls if is_strat else ("FixedIncomeStrategy" if sc["nodes"]["par"].get("_fixed_income") else "StrategyBase")
    mk = lambda c, n, ch: (getattr(core, c)(n, children=ch) if c != "StrategyBase" else core.StrategyBase(n, children=ch))
    par = mk(pcls, "par", [sec] if sec is not None else None)
    if sec is not None:
        sec = par.children[name]  # constructors deep-copy children
    if sc["root_is_parent"]:
        root = par
    else:
        rcls = "FixedIncomeStrategy" if sc["nodes"]["root"].get("_fixed_income") else "StrategyBase"
        root = mk(rcls, "root", [par])
        par = root.children["par"]
        if sec is not None:
            sec = par.children[name]
    root.setup(prices, **kw)
    comm = make_comm(sc.get("comm", {}))
    root.set_commissions(comm)

    def poke(node, d, floats, bools):
        for f in floats:
            if f in d:
                setattr(node, f, _f(d[f]))
        for f in bools:
            if f in d and f not in ("_prices_set",):
                if f == "stale":
                    continue
                setattr(node, f, bool(d[f]))
        node.now = dates.get(d["now"], 0) if d["now"] != 0 else 0

    poke(par, sc["nodes"]["par"], STRAT_FLOATS, [b for b in STRAT_BOOLS if b not in ("_bidoffer_set", "_fixed_income", "_paper_trade")])
    if not sc["root_is_parent"]:
        poke(root, sc["nodes"]["root"], STRAT_FLOATS, [b for b in STRAT_BOOLS if b not in ("_bidoffer_set", "_fixed_income", "_paper_trade")])
        root.stale = bool(sc["nodes"]["root"].get("stale", False))
    else:
        root.stale = bool(sc["nodes"]["par"].get("stale", False))
    if sec is not None:
        sd = sc["nodes"]["sec"]
        if not sd.get("_prices_set", True):
            raise ValueError("unrealisable: security without universe prices (legacy data= path)")
        poke(sec, sd, SEC_FLOATS, ["_needupdate", "integer_positions"])
        for f in ("_values", "_notl_values", "_positions", "_outlays", "_bidoffers_paid", "_coupon_income", "_holding_costs"):
            ser = getattr(sec, f, None)
            if ser is None:
                continue
            for k, x in hist.get(f, {}).items():
                ser.array[int(k)] = _f(x)
    return root, par, sec, dates


# =============================================================================================== concrete spec state
class ConcreteState(object):
    """the SpecState interface over real objects; writes go to an overlay so the spec runs on the
    pre-state while the real method runs on its own copy"""

    symbolic = False

    def __init__(self):
        self.ov = {}
        self.hov = {}
        self.fills = {}
        self.guards = []
        self.raises = []
        self.raised = False
        self.ret_stack = [False]
        self.log = []
        self.side = []

    def alive(self):
        return (not self.raised) and (not self.ret_stack[-1]) and all(self.guards)

    def when(self, cond):
        import contextlib

        @contextlib.contextmanager
        def cm():
            self.guards.append(bool(cond))
            try:
                yield
            finally:
                self.guards.pop()

        return cm()

    def raise_if(self, cond, exc):
        if self.alive() and cond:
            self.raises.append((True, exc))
            self.raised = True

    def return_if(self, cond):
        if self.alive() and cond:
            self.ret_stack[-1] = True

    def call(self, fn, *args, **kw):
        outer = not self.ret_stack[-1]
        self.ret_stack.append(False)
        self.guards.append(outer)
        try:
            return fn(self, *args, **kw)
        finally:
            self.guards.pop()
            self.ret_stack.pop()

    def get(self, obj, field):
        k = (id(obj), field)
        if k in self.ov:
            return self.ov[k]
        v = getattr(obj, field, None)
        import numpy as np

        if isinstance(v, (np.floating,)):
            return float(v)
        if isinstance(v, (np.bool_,)):
            return bool(v)
        return v

    def set(self, obj, field, val):
        if self.alive():
            self.ov[(id(obj), field)] = val
            self.log.append((obj, field))

    def hist_get(self, obj, field, i):
        i = int(i)
        k = (id(obj), field, i)
        if k in self.hov:
            return self.hov[k]
        if (id(obj), field) in self.fills:
            return self.fills[(id(obj), field)]
        try:
            return float(getattr(obj, field).values[i])
        except (AttributeError, IndexError, TypeError):  # eagerly evaluated operand of a guarded (untaken) branch
            return float("nan")

    def hist_set(self, obj, field, i, val):
        if self.alive():
            self.hov[(id(obj), field, int(i))] = val
            self.log.append((obj, field, int(i)))

    def hist_fill(self, obj, field, val):
        if self.alive():
            self.fills[(id(obj), field)] = val
            for k in [k for k in self.hov if k[0] == id(obj) and k[1] == field]:
                del self.hov[k]
            self.log.append((obj, field, "fill"))

    def comm(self, strat, q, p):
        return float(strat.commission_fn(q, p))

    def dataval(self, data, node):
        try:
            return float(data[node.name])
        except Exception:
            return float("nan")

    def idx(self, node, date):
        try:
            return node.data.index.get_loc(date)
        except Exception:  # eager evaluation of an ite branch that is not taken (date == 0 sentinel)
            return -1

    def cls_is(self, obj, names):
        return type(obj).__name__ in names

    def same_ref(self, a, b):
        return a is b

    def note_call(self, *a):
        pass

    def need(self, *a):
        pass


def nodes_of(root):
    out = [root]
    for c in root._childrenv:
        out.extend(nodes_of(c))
    return out


def snapshot(root, schema_fields):
    """plain snapshot of every schema scalar and every history buffer of every node"""
    import numpy as np
    import pandas as pd

    snap = {}
    for n in nodes_of(root):
        d = {}
        for f in schema_fields:
            if not hasattr(n, f):
                continue
            v = getattr(n, f)
            if isinstance(v, pd.Series):
                d[f] = np.array(v.values, dtype=float, copy=True)
            elif isinstance(v, (int, float, bool, np.floating, np.bool_)) or v is None or isinstance(v, pd.Timestamp):
                d[f] = v
        snap[n.full_name] = d
    snap["<root.stale>"] = {"stale": root.stale}
    return snap


def close(a, b, tol=(1e-7, 1e-9)):
    import numpy as np

    if isinstance(a, np.ndarray) or isinstance(b, np.ndarray):
        a, b = np.asarray(a, dtype=float), np.asarray(b, dtype=float)
        if a.shape != b.shape:
            return False
        return bool(np.all((np.isnan(a) & np.isnan(b)) | (np.abs(a - b) <= tol[0] + tol[1] * np.maximum(np.abs(a), np.abs(b)))))
    if isinstance(a, (float, int, np.floating)) and isinstance(b, (float, int, np.floating)) and not isinstance(a, bool) and not isinstance(b, bool):
        fa, fb = float(a), float(b)
        if math.isnan(fa) or math.isnan(fb):
            return math.isnan(fa) and math.isnan(fb)
        return abs(fa - fb) <= tol[0] + tol[1] * max(abs(fa), abs(fb))
    return a == b


def run_and_compare(sc, spec_fn, method, param_names, bt, schema_fields, family_exact=None):
    """build the scenario twice (real run / spec run on the untouched twin), compare post-states"""
    root, par, sec, dates = build_tree(sc, bt)
    root2, par2, sec2, _ = build_tree(sc, bt)
    recv = sec if sec is not None else par
    recv2 = sec2 if sec2 is not None else par2
    args = []
    for n in param_names:
        v = sc["args"].get(n)
        if n == "date":
            v = dates.get(v, 0) if v != 0 else 0
        elif isinstance(v, list) or (isinstance(v, (int, float)) and not isinstance(v, bool) and n not in ("inow",)):
            v = _f(v)
        elif v is None and n in ("amount", "q", "fee"):
            v = float("nan")
        args.append(v)
    pre = snapshot(root, schema_fields)
    real_exc = None
    real_res = None
    try:
        real_res = getattr(recv, method)(*args)
    except Exception as e:  # noqa: BLE001 - the outcome is what is compared
        real_exc = type(e).__name__
    post = snapshot(root, schema_fields)
    # spec on the twin
    S = ConcreteState()
    kw = {"exact": False} if family_exact is not None else {}
    spec_res = spec_fn(S, recv2, *args, **kw)
    spec_exc = S.raises[0][1] if S.raises else None
    expected = snapshot(root2, schema_fields)
    byid = {id(n): n.full_name for n in nodes_of(root2)}
    for (oid, f), v in S.ov.items():
        nm = byid.get(oid)
        if nm is None:
            continue
        if f == "stale":
            expected["<root.stale>"]["stale"] = bool(v)
        else:
            expected[nm][f] = v
    for (oid, f), v in S.fills.items():
        expected[byid[oid]][f][:] = v
    for (oid, f, i), v in S.hov.items():
        expected[byid[oid]][f][i] = v
    diffs = []
    for nm in expected:
        for f in expected[nm]:
            if f not in post.get(nm, {}):
                continue
            if not close(post[nm][f], expected[nm][f]):
                diffs.append(dict(node=nm, field=f, real=str(post[nm][f])[:200], contract=str(expected[nm][f])[:200]))
    exc_ok = (real_exc is None) == (spec_exc is None) and (real_exc is None or real_exc == spec_exc or spec_exc == "Exception")
    res_ok = True
    if real_exc is None and spec_res is not None and real_res is not None:
        try:
            res_ok = all(close(a, b) for a, b in zip(real_res, spec_res)) if isinstance(spec_res, tuple) else close(real_res, spec_res)
        except TypeError:
            res_ok = True
    return dict(reproduced=bool(diffs) or not exc_ok or not res_ok, diffs=diffs[:12], real_exception=real_exc, contract_exception=spec_exc,
                real_result=str(real_res)[:200], contract_result=str(spec_res)[:200], args=[str(a) for a in args])


REPLAY_SCRIPT = """
import json, sys
import bt
from pyvc import concrete
from contracts import registry
from contracts.schema import core_schema
sc = json.loads(%(sc)r)
R = registry.build()
c = R["contracts"][sc["qualname"]]
fields = [f for f, t in core_schema().fields.items() if t in ("float", "int", "date", "bool", "hist", "opthist")]
method = sc["qualname"].rsplit(".", 1)[1]
try:
    if hasattr(c, "spec"):
        d = concrete.run_and_compare(sc, c.spec, method, [n for n, t in c.params], bt, fields, family_exact=(False if c.family else None))
    else:
        d = R["concrete_checks"][sc["qualname"]](sc, bt, fields)
except Exception as e:
    import traceback
    d = dict(reproduced=False, realiser_error=str(e), tb=traceback.format_exc()[-1500:])
d["module"] = bt.core.__file__
print("JSON:" + json.dumps(d, default=str))
"""


def replay_scenario(o):
    """generic replay_fn for property modules: run the scenario attached to a refuted obligation on the real code"""
    import json

    sc = o.get("scenario")
    if not sc or sc.get("unrealisable"):
        return dict(reproduced=False, reason=(sc or {}).get("unrealisable", "no scenario extracted for this obligation"))
    from .replay import Scratch

    script = REPLAY_SCRIPT % dict(sc=json.dumps(sc))
    with Scratch() as s:
        d = s.run_json(script)
    d["replay_script"] = script
    d["scenario"] = sc
    return d
