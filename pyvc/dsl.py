"""
Value layer shared by the symbolic executor and by contracts.

Everything a contract or spec function computes is written once against this small
DSL and evaluated in two modes:
  * symbolic: operands are `Num` (z3 real/int term + NaN flag), z3 BoolRef, z3 Ref terms ...
  * concrete: operands are plain Python floats / ints / bools (used by replays)

Encoding assumptions (A-REAL): a Python/C double is a mathematical real plus a NaN flag;
no rounding, no overflow, no infinities, no signed zero.  Python ints are unbounded
integers (true in Python).
"""
import math
from fractions import Fraction

import z3

Ref = z3.DeclareSort("Ref")
Str = z3.DeclareSort("Str")
NONE = z3.Const("NONE", Ref)

_fresh_counter = [0]


def fresh_name(base):
    _fresh_counter[0] += 1
    return "%s!%d" % (base, _fresh_counter[0])


def is_z3(x):
    return isinstance(x, z3.ExprRef)


def to_real_term(x):
    """python number / z3 arith -> z3 Real term"""
    if isinstance(x, bool):
        return z3.RealVal(1 if x else 0)
    if isinstance(x, int):
        return z3.RealVal(x)
    if isinstance(x, float):
        if math.isnan(x) or math.isinf(x):
            raise ValueError("non-finite literal")
        return z3.RealVal(str(Fraction(repr(x))))
    if isinstance(x, Fraction):
        return z3.RealVal(str(x))
    if is_z3(x):
        if x.sort() == z3.IntSort():
            return z3.ToReal(x)
        return x
    raise TypeError("cannot convert %r to real" % (x,))


class Num(object):
    """A Python number in symbolic form: real (or int) term + NaN flag."""

    __slots__ = ("r", "nan", "is_int")

    def __init__(self, r, nan=False, is_int=False):
        self.r = r
        self.nan = nan  # python False, or z3 Bool
        self.is_int = is_int  # term has Int sort

    # -- construction helpers
    @staticmethod
    def lift(x):
        if isinstance(x, Num):
            return x
        if isinstance(x, bool):
            return Num(z3.IntVal(1 if x else 0), False, True)
        if isinstance(x, int):
            return Num(z3.IntVal(x), False, True)
        if isinstance(x, float):
            if math.isnan(x):
                return Num(z3.RealVal(0), True, False)
            return Num(to_real_term(x), False, False)
        if isinstance(x, Fraction):
            return Num(to_real_term(x), False, False)
        if is_z3(x):
            if x.sort() == z3.IntSort():
                return Num(x, False, True)
            if x.sort() == z3.RealSort():
                return Num(x, False, False)
            if x.sort() == z3.BoolSort():
                return Num(z3.If(x, z3.IntVal(1), z3.IntVal(0)), False, True)
        raise TypeError("cannot lift %r" % (x,))

    def real(self):
        return z3.ToReal(self.r) if self.is_int else self.r

    def _nan_or(self, o):
        if self.nan is False:
            return o.nan
        if o.nan is False:
            return self.nan
        return z3.Or(self.nan, o.nan)

    def _bin(self, o, f, keep_int=True):
        o = Num.lift(o)
        if self.is_int and o.is_int and keep_int:
            return Num(f(self.r, o.r), self._nan_or(o), True)
        return Num(f(self.real(), o.real()), self._nan_or(o), False)

    def __add__(self, o):
        return self._bin(o, lambda a, b: a + b)

    def __radd__(self, o):
        return Num.lift(o).__add__(self)

    def __sub__(self, o):
        return self._bin(o, lambda a, b: a - b)

    def __rsub__(self, o):
        return Num.lift(o).__sub__(self)

    def __mul__(self, o):
        return self._bin(o, lambda a, b: a * b)

    def __rmul__(self, o):
        return Num.lift(o).__mul__(self)

    def __truediv__(self, o):
        return self._bin(o, lambda a, b: a / b, keep_int=False)

    def __rtruediv__(self, o):
        return Num.lift(o).__truediv__(self)

    def __neg__(self):
        return Num(-self.r, self.nan, self.is_int)

    def __pos__(self):
        return self

    # comparisons: IEEE with NaN
    def _cmp(self, o, f, nan_result):
        o = Num.lift(o)
        if self.is_int and o.is_int:
            c = f(self.r, o.r)
        else:
            c = f(self.real(), o.real())
        n = self._nan_or(o)
        if n is False:
            return c
        if nan_result:
            return z3.Or(n, c)
        return z3.And(z3.Not(n), c)

    def __lt__(self, o):
        return self._cmp(o, lambda a, b: a < b, False)

    def __le__(self, o):
        return self._cmp(o, lambda a, b: a <= b, False)

    def __gt__(self, o):
        return self._cmp(o, lambda a, b: a > b, False)

    def __ge__(self, o):
        return self._cmp(o, lambda a, b: a >= b, False)

    def eq(self, o):
        return self._cmp(o, lambda a, b: a == b, False)

    def ne(self, o):
        return self._cmp(o, lambda a, b: a != b, True)

    # NOTE: __eq__ deliberately NOT overloaded (Num objects live in dicts/lists); use eq()/ne()

    def same(self, o):
        """Logical identity of two float values (NaN equals NaN) - used for frames and post-state
        equalities, never for Python's ==."""
        o = Num.lift(o)
        a = self.real() == o.real() if not (self.is_int and o.is_int) else self.r == o.r
        if self.nan is False and o.nan is False:
            return a
        sn = z3.BoolVal(False) if self.nan is False else self.nan
        on = z3.BoolVal(False) if o.nan is False else o.nan
        return z3.And(sn == on, z3.Or(sn, a))

    def __repr__(self):
        return "Num(%s%s)" % (self.r, "" if self.nan is False else ", nan=%s" % self.nan)


# ---------------------------------------------------------------- polymorphic helpers


def _symbolic(*xs):
    return any(isinstance(x, Num) or is_z3(x) for x in xs)


def _b(x):
    """python bool / z3 bool -> z3 bool"""
    if isinstance(x, bool):
        return z3.BoolVal(x)
    return x


def And(*xs):
    xs = [x for x in xs]
    if not _symbolic(*xs):
        return all(xs)
    out = []
    for x in xs:
        if x is True:
            continue
        if x is False:
            return False
        out.append(x)
    if not out:
        return True
    if len(out) == 1:
        return out[0]
    return z3.And(*out)


def Or(*xs):
    if not _symbolic(*xs):
        return any(xs)
    out = []
    for x in xs:
        if x is False:
            continue
        if x is True:
            return True
        out.append(x)
    if not out:
        return False
    if len(out) == 1:
        return out[0]
    return z3.Or(*out)


def Not(x):
    if isinstance(x, bool):
        return not x
    return z3.Not(x)


def Implies(a, b):
    return Or(Not(a), b)


def Iff(a, b):
    if not _symbolic(a, b):
        return bool(a) == bool(b)
    return _b(a) == _b(b)


def ite(c, a, b):
    if isinstance(c, bool):
        return a if c else b
    if isinstance(a, Num) or isinstance(b, Num) or isinstance(a, (int, float)) and not isinstance(a, bool):
        a, b = Num.lift(a), Num.lift(b)
        if a.is_int and b.is_int:
            r = z3.If(c, a.r, b.r)
            isint = True
        else:
            r = z3.If(c, a.real(), b.real())
            isint = False
        if a.nan is False and b.nan is False:
            n = False
        else:
            n = z3.If(c, _b(a.nan), _b(b.nan))
        return Num(r, n, isint)
    if isinstance(a, bool) or isinstance(b, bool):
        return z3.If(c, _b(a), _b(b))
    return z3.If(c, a, b)


def absv(x):
    if isinstance(x, Num):
        return Num(z3.If(x.r >= 0, x.r, -x.r), x.nan, x.is_int)
    return abs(x)


def isnan(x):
    if isinstance(x, Num):
        return x.nan
    if isinstance(x, (int,)):
        return False
    return math.isnan(x)


def eq(a, b):
    """Python == on numbers"""
    if isinstance(a, Num) or isinstance(b, Num):
        return Num.lift(a).eq(b)
    return a == b


def ne(a, b):
    if isinstance(a, Num) or isinstance(b, Num):
        return Num.lift(a).ne(b)
    return a != b


def same(a, b, tol=None):
    """logical identity of two values (post-state equality). In concrete mode compares with tolerance."""
    if isinstance(a, Num) or isinstance(b, Num):
        return Num.lift(a).same(b)
    if is_z3(a) or is_z3(b):
        return _b(a) == _b(b) if (isinstance(a, bool) or isinstance(b, bool)) else a == b
    if isinstance(a, float) or isinstance(b, float):
        try:
            fa, fb = float(a), float(b)
        except TypeError:
            return a == b
        if math.isnan(fa) or math.isnan(fb):
            return math.isnan(fa) and math.isnan(fb)
        t = tol if tol is not None else CONCRETE_TOL
        return abs(fa - fb) <= t[0] + t[1] * max(abs(fa), abs(fb))
    return a == b


CONCRETE_TOL = (1e-7, 1e-9)

TOL = Fraction(1, 10**16)
PAR = 100


def is_zero(x):
    if isinstance(x, Num):
        return absv(x) < Num.lift(TOL)
    return abs(x) < 1e-16


def floor(x):
    if isinstance(x, Num):
        if x.is_int:
            return x
        return Num(z3.ToInt(x.r), x.nan, True)
    return math.floor(x)


def ceil(x):
    if isinstance(x, Num):
        if x.is_int:
            return x
        return Num(-z3.ToInt(-x.r), x.nan, True)
    return math.ceil(x)


def sign(x):
    if isinstance(x, Num):
        return Num(z3.If(x.r > 0, z3.IntVal(1), z3.If(x.r < 0, z3.IntVal(-1), z3.IntVal(0))), x.nan, True)
    return (x > 0) - (x < 0)


def isclose(a, b, rtol=1e-05, atol=1e-08):
    """numpy.isclose(a, b, rtol, atol) with equal_nan=False: |a-b| <= atol + rtol*|b|"""
    if isinstance(a, Num) or isinstance(b, Num) or isinstance(rtol, Num):
        a, b = Num.lift(a), Num.lift(b)
        return absv(a - b) <= Num.lift(atol) + Num.lift(rtol) * absv(b)
    if math.isnan(a) or math.isnan(b):
        return False
    return abs(a - b) <= atol + rtol * abs(b)


def fresh_real(name):
    return Num(z3.Real(fresh_name(name)), False, False)


def fresh_float(name):
    n = fresh_name(name)
    return Num(z3.Real(n), z3.Bool(n + "#nan"), False)


def fresh_int(name):
    return Num(z3.Int(fresh_name(name)), False, True)


def fresh_bool(name):
    return z3.Bool(fresh_name(name))


def fresh_ref(name):
    return z3.Const(fresh_name(name), Ref)


# ---------------------------------------------------------------- optional values (None-able parameters)
def isnone(x):
    from .heap import Opt
    if isinstance(x, Opt):
        return x.isnone
    return x is None or type(x).__name__ == "NoneV"


def optval(x):
    from .heap import Opt
    if isinstance(x, Opt):
        return x.val
    return x
