"""
Discharging obligations:  AND(pc) AND not goal  unsat?   z3 first, cvc5 on unknown.

Verdicts: 'proved' (unsat), 'refuted' (sat, with a model), 'unknown'.
Path conditions are ground (see DESIGN 2.2 lesson 5); a schematic goal `ForallInt` is skolemised
here and the schematic hypotheses recorded with the obligation are instantiated at the skolem.
"""
import time

import z3

from . import dsl
from .dsl import Num, And, Implies
from .contracts import ForallInt


def _zb(f):
    return z3.BoolVal(f) if isinstance(f, bool) else f


class Result(object):
    def __init__(self, oblig, verdict, backend, secs, model=None, reason=""):
        self.oblig = oblig
        self.verdict = verdict
        self.backend = backend
        self.secs = secs
        self.model = model
        self.reason = reason


def model_to_dict(m):
    out = {}
    for d in m.decls():
        if d.arity() == 0:
            try:
                out[d.name()] = str(m[d])
            except Exception:
                pass
    return out


def prepare(oblig):
    """-> (hyps, goal) all ground z3"""
    hyps = [_zb(p) for p in oblig.pc]
    goal = oblig.goal
    if isinstance(goal, ForallInt):
        j = dsl.fresh_int("sk_" + goal.name)
        for sch in getattr(oblig, "schemas", []) or []:
            hyps.append(_zb(sch.inst(j)))
            hyps.append(_zb(sch.inst(j - 1)))
        goal = goal.inst(j)
    return hyps, _zb(goal)


def prove(oblig, timeout_ms=30000, use_cvc5=True):
    hyps, goal = prepare(oblig)
    t0 = time.time()
    s = z3.Solver()
    s.set("timeout", timeout_ms)
    for h in hyps:
        s.add(h)
    s.add(z3.Not(goal))
    r = s.check()
    dt = time.time() - t0
    if r == z3.unsat:
        return Result(oblig, "proved", "z3", dt)
    if r == z3.sat:
        return Result(oblig, "refuted", "z3", dt, model=s.model())
    reason = s.reason_unknown()
    if use_cvc5:
        t1 = time.time()
        v = cvc5_check(s.to_smt2(), timeout_ms)
        dt2 = time.time() - t1
        if v == "unsat":
            return Result(oblig, "proved", "cvc5", dt + dt2)
        if v == "sat":
            return Result(oblig, "refuted", "cvc5", dt + dt2, model=None, reason="cvc5 sat (no model extracted)")
        reason += "; cvc5: " + v
    return Result(oblig, "unknown", "z3+cvc5" if use_cvc5 else "z3", time.time() - t0, reason=reason)


def cvc5_check(smt2, timeout_ms):
    try:
        import cvc5
    except Exception as e:  # pragma: no cover
        return "unavailable(%s)" % e
    try:
        slv = cvc5.Solver()
        slv.setOption("tlimit-per", str(int(timeout_ms)))
        slv.setLogic("ALL")
        parser = cvc5.InputParser(slv)
        parser.setStringInput(cvc5.InputLanguage.SMT_LIB_2_6, smt2, "q")
        sm = parser.getSymbolManager()
        res = None
        while True:
            cmd = parser.nextCommand()
            if cmd.isNull():
                break
            out = cmd.invoke(slv, sm)
            o = str(out).strip()
            if o in ("sat", "unsat", "unknown"):
                res = o
        return res or "unknown"
    except Exception as e:
        return "error(%s)" % (str(e)[:80],)
