"""
Executor extension for bt/algos.py and bt/backtest.py: the date index of the universe, calendar
accessors of timestamps, `target.temp` / `target.perm`, calls of arbitrary (user) algos.

Index model (shared universe index; T: strictly increasing unique labels):
    idxlen            number of rows                     in_index(d)   d is a label
    idx(d)            position of label d                date_at(k)    label at position k
Ground facts are emitted whenever a term is built:  in_index(d) => 0 <= idx(d) < idxlen and date_at(idx(d)) == d,
0 <= k < idxlen => in_index(date_at(k)) and idx(date_at(k)) == k.

Calendar accessors (.year .month .quarter .week .day .date() .isocalendar()) are uninterpreted
functions of the timestamp; their agreement with the independent calendar spec is decided by the
exhaustive partition check (props/C12), not assumed.
"""
import ast

import z3

from . import dsl
from .dsl import Num, And, Or, Not, Implies, ite, is_z3
from .heap import RefV, StrV, TupleV, FrameV, DictV, ListV, OpaqueV, idx_f, cls_f
from .state import Undecided
from .symexec import Executor, BoundFn, NONEV, _Raised, _SliceV, ModV, PyObjV

idxlen_c = z3.Int("idxlen")
inidx_f = z3.Function("in_index", z3.IntSort(), z3.BoolSort())
dateat_f = z3.Function("date_at", z3.IntSort(), z3.IntSort())

CAL = {}
for _n in ("year", "month", "quarter", "week", "day", "date", "isoyear", "isoweek", "isoweekday", "dayofweek", "weekofyear"):
    CAL[_n] = z3.Function("cal_" + _n, z3.IntSort(), z3.IntSort())

# result of calling an opaque algo (user code) on a target in this run, and ghost bookkeeping
algoret_f = z3.Function("algo_returns", dsl.Ref, z3.BoolSort())  # truthiness of what the algo returns in this run
algoisfalse_f = z3.Function("algo_returns_the_False_object", dsl.Ref, z3.BoolSort())
algoistrue_f = z3.Function("algo_returns_the_True_object", dsl.Ref, z3.BoolSort())
inlist_f = z3.Function("in_dates", dsl.Ref, z3.IntSort(), z3.BoolSort())
searchsorted_f = z3.Function("searchsorted", z3.IntSort(), z3.IntSort())


class DateSeqV(object):
    """index[offset:] : the labels of the shared universe index from a position on"""

    def __init__(self, offset):
        self.offset = offset


class TempV(object):
    """target.temp / target.perm: a string-keyed dict owned by a strategy"""

    def __init__(self, owner, which):
        self.owner = owner
        self.which = which


class AlgoExecutor(Executor):
    def __init__(self, *a, **kw):
        Executor.__init__(self, *a, **kw)

    # ---------------------------------------------------------------- index
    def index_facts_pos(self, st, k):
        k = Num.lift(k)
        d = dateat_f(k.r)
        st.assume(Implies(And(k.r >= 0, k.r < idxlen_c), And(inidx_f(d), idx_f(d) == k.r)))
        return Num(d, False, True)

    def index_facts_label(self, st, d):
        d = Num.lift(d)
        st.assume(Implies(inidx_f(d.r), And(idx_f(d.r) >= 0, idx_f(d.r) < idxlen_c, dateat_f(idx_f(d.r)) == d.r)))
        st.assume(idxlen_c >= 0)

    def get_loc(self, st, owner, d):
        # KeyError when absent is a separate exit
        self.index_facts_label(st, d)
        return Num(idx_f(d.r), False, True)

    def ext_in(self, a, b, st):
        if isinstance(b, BoundFn) and b.kind == "index":
            a = self._num(st, a)
            self.index_facts_label(st, a)
            return inidx_f(a.r)
        if isinstance(b, TempV) and isinstance(a, str):
            return self.temp_has(st, b, a)
        if isinstance(b, OpaqueV) and b.field == "dates":
            a = self._num(st, a)
            return inlist_f(b.owner.term, a.r)
        return None

    def ext_builtin(self, st, name, pos, kw):
        if name == "len" and isinstance(pos[0], BoundFn) and pos[0].kind == "index":
            st.assume(idxlen_c >= 0)
            return [(st, Num(idxlen_c, False, True))]
        return None

    def ext_load_subscript(self, st, base, i):
        if isinstance(base, BoundFn) and base.kind == "index":
            k = self._num(st, i)
            # out-of-range positive index raises IndexError; negative wraps around: both are obligations
            st.oblige("%s/index-in-range" % self.cur_func[-1], And(k.r >= 0, k.r < idxlen_c), kind="side", props=("C12", "C10"))
            return [(st, self.index_facts_pos(st, k))]
        if isinstance(base, TupleV) and isinstance(i, _SliceV):
            lo = 0 if i.lo is None else self._const_int(i.lo)
            hi = len(base.items) if i.hi is None else self._const_int(i.hi)
            return [(st, TupleV(base.items[lo:hi]))]
        if isinstance(base, TempV) and isinstance(i, str):
            return self.temp_get(st, base, i)
        if isinstance(base, OpaqueV) and base.field == "dates":
            if isinstance(i, _SliceV) and i.hi is None:
                return [(st, DateSeqV(self._const_int(i.lo) if i.lo is not None else 0))]
            k = self._num(st, i)
            st.oblige("%s/index-in-range" % self.cur_func[-1], And(k.r >= 0, k.r < idxlen_c), kind="side", props=("C10",))
            return [(st, self.index_facts_pos(st, k))]
        return None

    def _const_int(self, v):
        v = Num.lift(v)
        t = z3.simplify(v.r)
        if z3.is_int_value(t):
            return t.as_long()
        raise Undecided("non-constant slice bound")

    # ---------------------------------------------------------------- calendar
    def ext_load_attr(self, st, obj, attr):
        if isinstance(obj, Num) and obj.is_int and attr in ("year", "month", "quarter", "week", "day", "dayofweek", "weekofyear"):
            return [(st, Num(CAL[attr](obj.r), False, True))]
        if isinstance(obj, Num) and obj.is_int and attr in ("date", "isocalendar"):
            return [(st, BoundFn("cal", attr, recv=obj))]
        if isinstance(obj, BoundFn) and obj.kind == "index" and attr == "searchsorted":
            return [(st, BoundFn("searchsorted", attr, recv=obj.recv))]
        if isinstance(obj, RefV) and attr in ("temp", "perm"):
            return [(st, TempV(obj, attr))]
        from .heap import HistSlice
        if isinstance(obj, HistSlice) and attr in ("calc_perf_stats",):
            return [(st, BoundFn("opaque_call", attr, recv=obj))]
        return None

    def ext_call_value(self, st, f, pos, kw):
        if isinstance(f, BoundFn) and f.kind == "searchsorted":
            d = self._num(st, pos[0])
            self.index_facts_label(st, d)
            r = searchsorted_f(d.r)
            # number of labels strictly below d: position of d when present
            st.assume(And(r >= 0, r <= idxlen_c, Implies(inidx_f(d.r), r == idx_f(d.r))))
            return [(st, Num(r, False, True))]
        if isinstance(f, BoundFn) and f.kind == "cal":
            x = f.recv
            if f.name == "date":
                return [(st, Num(CAL["date"](x.r), False, True))]
            if f.name == "isocalendar":
                return [(st, TupleV([Num(CAL[n](x.r), False, True) for n in ("isoyear", "isoweek", "isoweekday")]))]
        if isinstance(f, RefV):
            return self.call_object(st, f, pos, kw)
        if isinstance(f, BoundFn) and f.kind == "opaque_call":
            return [(st, OpaqueV(None, f.name))]
        return None

    def ext_hasattr(self, st, e):
        if isinstance(e.args[1], ast.Constant) and e.args[1].value == "run_always":
            out = []
            for (s, obj) in self.eval(e.args[0], st):
                out.append((s, s.heap.get(obj, "has_run_always")))
            return out
        self._undecided("hasattr(%s)" % ast.dump(e.args[1]))

    def ext_modfn(self, st, name, pos, kw):
        if name in ("pd.Timestamp", "pd.to_datetime"):
            return [(st, pos[0])]
        return None

    def ext_compare(self, op, a, b, st):
        if isinstance(a, TupleV) and isinstance(b, TupleV) and len(a.items) == len(b.items) and isinstance(op, (ast.Eq, ast.NotEq)):
            eqs = And(*[self.compare(ast.Eq(), x, y, st) for x, y in zip(a.items, b.items)])
            return eqs if isinstance(op, ast.Eq) else Not(eqs)
        return None

    # ---------------------------------------------------------------- calling objects (algos)
    def call_object(self, st, obj, pos, kw):
        """obj(...)  ->  obj.__call__(...) ; opaque user algos return an uninterpreted Bool and are logged"""
        cls = obj.cls
        if cls in self.prog.classes:
            fi = self.prog.lookup_method(cls, "__call__")
            opaque = self.schema_opaque_call(cls)
            if fi is not None and not opaque:
                return self.call_function(st, fi, obj, pos, kw)
        # opaque algo: ghost log + uninterpreted result
        r = PyObjV(algoret_f(obj.term), algoisfalse_f(obj.term), algoistrue_f(obj.term))
        st.assume(And(Implies(r.isfalse, Not(r.truthy)), Implies(r.istrue, r.truthy)))
        st.log.append(("<algo>", obj, tuple(pos)))
        # ghost bookkeeping of the invocation: g_calls[a] += 1, g_clock[target] += 1, g_stamp[a] = clock
        if pos and isinstance(pos[0], RefV):
            target = pos[0]
            h = st.heap
            clk = h.get(target, "g_clock") + 1
            h.set(target, "g_clock", clk)
            h.set(obj, "g_calls", h.get(obj, "g_calls") + 1)
            h.set(obj, "g_stamp", clk)
        return [(st, r)]

    def schema_opaque_call(self, cls):
        return cls in ("Algo",)

    # ---------------------------------------------------------------- temp / perm
    def temp_key(self, t, key):
        return "%s:%s" % (t.which, key)

    def temp_has(self, st, t, key):
        m = st.heap.ensure_ghost_bool("tmp#has:" + self.temp_key(t, key))
        return m.select(t.owner.term)

    def temp_get(self, st, t, key):
        h = getattr(self, "temp_value", None)
        has = self.temp_has(st, t, key)
        out = []
        for (s, b) in self.branch(st, has):
            if b:
                out.append((s, h(s, t, key) if h else self._undecided("temp[%s] value model" % key)))
            else:
                out.append((s, _Raised("KeyError")))
        return out
