"""
Replays run the REAL code: a scratch copy of /repo's working-tree bt/*.py (without the stale compiled
extension, so the interpreted source is what runs) made with mkdtemp outside /repo and /verif and
removed afterwards.
"""
import json
import os
import shutil
import subprocess
import sys
import tempfile

from .source import REPO

VERIF = os.path.dirname(os.path.dirname(os.path.abspath(__file__)))


class Scratch(object):
    def __init__(self, compiled=False):
        self.compiled = compiled
        self.dir = None

    def __enter__(self):
        self.dir = tempfile.mkdtemp(prefix="btscratch.")
        os.makedirs(os.path.join(self.dir, "bt"))
        for fn in os.listdir(os.path.join(REPO, "bt")):
            if fn.endswith(".py"):
                shutil.copy(os.path.join(REPO, "bt", fn), os.path.join(self.dir, "bt", fn))
        if self.compiled:
            shutil.copy(os.path.join(REPO, "setup.py"), self.dir)
            for fn in ("pyproject.toml", "README.md"):
                if os.path.exists(os.path.join(REPO, fn)):
                    shutil.copy(os.path.join(REPO, fn), self.dir)
            subprocess.run([sys.executable, "setup.py", "build_ext", "--inplace"], cwd=self.dir, stdout=subprocess.DEVNULL, stderr=subprocess.DEVNULL, timeout=600)
        return self

    def __exit__(self, *a):
        shutil.rmtree(self.dir, ignore_errors=True)

    def run(self, script, timeout=300, env=None):
        """run a python script text with the scratch copy first on sys.path; returns (rc, stdout, stderr)"""
        e = dict(os.environ)
        e["PYTHONPATH"] = self.dir + os.pathsep + VERIF
        e["PYTHONDONTWRITEBYTECODE"] = "1"
        e.setdefault("PYTHONHASHSEED", "0")
        if env:
            e.update(env)
        p = subprocess.run([sys.executable, "-W", "ignore", "-c", script], cwd=self.dir, env=e, capture_output=True, text=True, timeout=timeout)
        return p.returncode, p.stdout, p.stderr

    def run_json(self, script, timeout=300, env=None):
        rc, out, err = self.run(script, timeout, env)
        last = None
        for ln in out.splitlines():
            if ln.startswith("JSON:"):
                last = ln[5:]
        if last is None:
            return dict(error="no JSON line", rc=rc, stdout=out[-2000:], stderr=err[-4000:])
        d = json.loads(last)
        d["rc"] = rc
        return d


def run_replay_file(path):
    """./check --replay <file>: re-run a stored replay against the current working tree"""
    with open(path if os.path.isabs(path) else os.path.join(VERIF, path)) as f:
        body = json.load(f)
    script = body.get("replay_script")
    if not script:
        print("replay file carries no executable replay (obligation %s); solver output only" % body.get("failed_obligation"))
        return 2
    with Scratch() as sc:
        d = sc.run_json(script)
    print(json.dumps(d, indent=1))
    return 1 if d.get("reproduced") else 0
