"""
Label-sequence / Series / window algebra for bt/algos.py (DESIGN 2.2 'Series / DataFrame' row, 4 C14).

A duplicate-free ordered collection of labels (frame columns, an index of tickers, temp['selected'])
is a LabelSet:   mem(x): Bool   membership          ord(x): Int   an order key (relative order only)
both given as Python closures over z3 terms, so every fact stays ground: equalities between two
collections are proved at skolem labels (membership agrees; relative order agrees on members).
A Series over labels (a row of the universe, temp['stat'], a mask) adds val(x): Num (real + NaN flag)
or cond(x): Bool.  Filters compose by conjunction on `mem`; they never renumber, so order
preservation is by construction and needs no fusion lemmas.

Assumed pandas semantics (A-PANDAS, each audited at run time by props/scripts/pandas_axioms.py):
  row.dropna()            keeps exactly the labels whose value is not NaN, in order
  row[row > c] / row[mask] keeps exactly the labels where the (label-aligned) condition is True; NaN > c is False
  frame.loc[t]            the row labelled t (KeyError if absent); frame.loc[t, labels]: that row at `labels`, in their order (KeyError if a label is not a column)
  frame.loc[a:b]          rows with a <= label <= b (label-based, both ends inclusive)
  row.index / list(index) the labels in order
  frame.count()           per column, the number of non-NaN cells of the frame's rows
  sort_values             orders by value (NaN-free input); ties keep their previous relative order
  s[:k]                   the first k entries
Every read of a time-indexed frame records a read-site obligation  label <= now  (property C04).
"""
import ast

import z3

from . import dsl
from .dsl import Num, And, Or, Not, Implies, ite, is_z3
from .heap import RefV, StrV, TupleV, FrameV, OpaqueV
from .state import Undecided
from .symexec import BoundFn, NONEV, _Raised, _SliceV, _SliceAll, ModV
from .ext_algos import AlgoExecutor, TempV, inidx_f

S = dsl.Str
R = z3.RealSort()
B = z3.BoolSort()
I = z3.IntSort()

# universe of a strategy: columns and cells
ucol_mem = z3.Function("ucol_mem", dsl.Ref, S, B)
ucol_ord = z3.Function("ucol_ord", dsl.Ref, S, I)
ucell = z3.Function("ucell", dsl.Ref, I, S, R)  # universe[date, label]
ucell_nan = z3.Function("ucell_nan", dsl.Ref, I, S, B)
# an auxiliary frame held by an algo or passed through get_data (signal, stat, weights ...), identified by a Ref-like token
fcol_mem = z3.Function("fcol_mem", dsl.Ref, S, B)
fcol_ord = z3.Function("fcol_ord", dsl.Ref, S, I)
fcell = z3.Function("fcell", dsl.Ref, I, S, R)
fcell_nan = z3.Function("fcell_nan", dsl.Ref, I, S, B)
fidx_mem = z3.Function("fidx_mem", dsl.Ref, I, B)  # date label present in the frame's index
# window counts: number of non-NaN cells of column x among rows with lo <= label <= hi
ucount = z3.Function("ucount", dsl.Ref, I, I, S, I)
# a list of labels held by an object (self.tickers, temp['selected'] on entry)
lst_mem = z3.Function("lst_mem", dsl.Ref, S, B)
lst_ord = z3.Function("lst_ord", dsl.Ref, S, I)
pos_f = z3.Function("pos_in", I, S, I)
totret_f = z3.Function("total_return", dsl.Ref, I, I, S, R)
totret_nan_f = z3.Function("total_return_nan", dsl.Ref, I, I, S, B)
match_f = z3.Function("regex_matches", dsl.Ref, S, B)  # position of a member in an ordered collection identified by a token


class LabelSet(object):
    def __init__(self, mem, ord_, desc="", n=None):
        self.mem, self.ord, self.desc = mem, ord_, desc
        self.n = n  # cardinality term when known


class RowV(object):
    """Series indexed by labels"""

    def __init__(self, ls, val, desc=""):
        self.ls, self.val, self.desc = ls, val, desc


class MaskV(object):
    def __init__(self, ls, cond):
        self.ls, self.cond = ls, cond


class IndexLV(object):
    def __init__(self, ls):
        self.ls = ls


class ListLV(object):
    """python list of labels"""

    def __init__(self, ls):
        self.ls = ls


class UniverseV(object):
    """target.universe: the strategy's universe windowed to rows <= now"""

    def __init__(self, owner, hi):
        self.owner, self.hi = owner, hi


class WindowV(object):
    """universe.loc[lo:hi(, cols)]"""

    def __init__(self, owner, lo, hi, cols):
        self.owner, self.lo, self.hi, self.cols = owner, lo, hi, cols


class AuxFrameV(object):
    def __init__(self, token):
        self.token = token


def _zbb(f):
    return z3.BoolVal(f) if isinstance(f, bool) else f


def fresh_label(name="x"):
    return z3.Const(dsl.fresh_name(name), S)


class FrameExecutor(AlgoExecutor):
    """AlgoExecutor + the label/Series algebra"""

    def __init__(self, *a, **kw):
        AlgoExecutor.__init__(self, *a, **kw)
        self.read_sites = []

    # ---------------------------------------------------------------- helpers
    def ucols(self, owner):
        t = owner.term
        return LabelSet(lambda x: ucol_mem(t, x), lambda x: ucol_ord(t, x), "universe.columns")

    def read_site(self, st, what, label, now, upper=True):
        """C04: a value of a time-indexed input is read at `label` while the clock is `now`"""
        label = Num.lift(label)
        now = Num.lift(now)
        st.oblige("%s/read-confined:%s" % (self.cur_func[-1], what), label.r <= now.r, kind="read", props=("C04",))
        self.read_sites.append(what)

    def now_of(self, st, owner):
        return st.heap.get(owner, "now")

    # ---------------------------------------------------------------- attribute access
    def ext_load_attr(self, st, obj, attr):
        if isinstance(obj, RefV) and attr == "universe" and obj.cls in self.prog.classes and self.prog.is_subclass(obj.cls, "StrategyBase"):
            # contract of StrategyBase.universe (proved separately): exactly the rows of _universe with label <= now
            return [(st, UniverseV(obj, self.now_of(st, obj)))]
        if isinstance(obj, UniverseV):
            if attr == "columns":
                return [(st, IndexLV(self.ucols(obj.owner)))]
            if attr == "loc":
                return [(st, BoundFn("uloc", "loc", recv=obj))]
        if isinstance(obj, RowV):
            if attr == "index":
                return [(st, IndexLV(obj.ls))]
            if attr in ("dropna", "isnull", "count", "sort_values", "copy", "tolist"):
                return [(st, BoundFn("rowm", attr, recv=obj))]
            if attr == "loc":
                return [(st, BoundFn("rowloc", "loc", recv=obj))]
        if isinstance(obj, WindowV) and attr in ("count", "calc_total_return", "to_returns"):
            return [(st, BoundFn("winm", attr, recv=obj))]
        if isinstance(obj, WindowV) and attr == "index":
            return [(st, BoundFn("winindex", "index", recv=obj))]
        if isinstance(obj, RefV) and attr == "get_data" and obj.cls in self.prog.classes and self.prog.is_subclass(obj.cls, "StrategyBase"):
            return [(st, BoundFn("get_data", "get_data", recv=obj))]
        if isinstance(obj, ListLV) and attr in ("copy",):
            return [(st, BoundFn("idxm", "copy", recv=obj))]
        if isinstance(obj, ModV) and obj.name == "random" and attr == "sample":
            return [(st, BoundFn("random_sample", "sample"))]
        if isinstance(obj, IndexLV) and attr in ("intersection", "tolist"):
            return [(st, BoundFn("idxm", attr, recv=obj))]
        if isinstance(obj, AuxFrameV):
            if attr == "index":
                return [(st, BoundFn("auxindex", "index", recv=obj))]
            if attr == "loc":
                return [(st, BoundFn("auxloc", "loc", recv=obj))]
            if attr == "columns":
                t = obj.token
                return [(st, IndexLV(LabelSet(lambda x: fcol_mem(t, x), lambda x: fcol_ord(t, x), "frame.columns")))]
        if isinstance(obj, TempV) and attr == "get":
            return [(st, BoundFn("tempget", "get", recv=obj))]
        if isinstance(obj, BoundFn) and obj.kind == "builtin" and obj.name == "set" and attr == "union":
            return [(st, BoundFn("set_union", "union"))]
        if isinstance(obj, OpaqueV) and obj.field == "regex" and attr == "search":
            return [(st, BoundFn("regex_search", "search", recv=obj))]
        if isinstance(obj, RefV) and self.schema.type_of(attr) == "labels":
            t = obj.term
            tag = z3.Const("lst_%s" % attr, dsl.Ref)
            key = self._lst_token(obj, attr)
            return [(st, ListLV(LabelSet(lambda x: lst_mem(key, x), lambda x: lst_ord(key, x), "self.%s" % attr)))]
        if isinstance(obj, RefV) and self.schema.type_of(attr) == "auxframe":
            return [(st, AuxFrameV(self._lst_token(obj, attr)))]
        return AlgoExecutor.ext_load_attr(self, st, obj, attr)

    def _lst_token(self, obj, attr):
        f = z3.Function("tok_" + attr, dsl.Ref, dsl.Ref)
        return f(obj.term)

    # ---------------------------------------------------------------- subscripts
    def ext_load_subscript(self, st, base, i):
        if isinstance(base, BoundFn) and base.kind == "uloc":
            return self.universe_loc(st, base.recv, i)
        if isinstance(base, BoundFn) and base.kind == "auxloc":
            return self.aux_loc(st, base.recv, i)
        if isinstance(base, RowV) and isinstance(i, MaskV):
            # boolean-mask indexing aligns on labels: keeps the labels of the row where the mask is True
            m, c = base.ls.mem, i.cond
            mm = i.ls.mem
            return [(st, RowV(LabelSet(lambda x: And(m(x), mm(x), c(x)), base.ls.ord, base.desc + "[mask]"), base.val))]
        if isinstance(base, RowV) and isinstance(i, _SliceV) and i.lo is None:
            return self.row_head(st, base, i.hi)
        if isinstance(base, BoundFn) and base.kind == "rowloc" and isinstance(i, (IndexLV, ListLV)):
            # series.loc[labels]: the entries at `labels`, in the order of `labels` (KeyError if one is missing)
            row, sel = base.recv, i.ls
            ok = dsl.fresh_bool("all_labels_present")
            w = fresh_label("missing")
            s_err = st.fork()
            s_err.assume(And(Not(ok), sel.mem(w), Not(row.ls.mem(w))))
            st.assume(ok)
            st.ghost["label_schemas"] = st.ghost.get("label_schemas", []) + [lambda x, sel=sel, row=row: Implies(sel.mem(x), row.ls.mem(x))]
            return [(s_err, _Raised("KeyError")), (st, RowV(LabelSet(sel.mem, sel.ord, row.desc + ".loc[labels]"), row.val))]
        if isinstance(base, BoundFn) and base.kind == "winindex":
            # first / k-th label of the window's date index (the universe index itself)
            k = self._num(st, i)
            return [(st, self.index_facts_pos(st, k))]
        if isinstance(base, UniverseV) and isinstance(i, (ListLV, IndexLV)):
            # universe[selected]: the same window restricted to some columns
            return [(st, WindowV(base.owner, None, base.hi, i.ls))]
        if isinstance(base, WindowV) and isinstance(i, (ListLV, IndexLV)):
            return [(st, WindowV(base.owner, base.lo, base.hi, i.ls))]
        return AlgoExecutor.ext_load_subscript(self, st, base, i)

    def universe_loc(self, st, u, i):
        owner = u.owner
        t = owner.term
        cols = self.ucols(owner)
        out = []
        if isinstance(i, TupleV) and len(i.items) == 2:
            rowsel, colsel = i.items
        else:
            rowsel, colsel = i, None
        if isinstance(colsel, (ListLV, IndexLV)):
            ls = colsel.ls
            # KeyError when a requested label is not a column
            ok = dsl.fresh_bool("all_labels_are_columns")
            w = fresh_label("missing")
            s_err = st.fork()
            s_err.assume(And(Not(ok), ls.mem(w), Not(cols.mem(w))))
            out.append((s_err, _Raised("KeyError")))
            st.assume(ok)
            st.ghost["label_schemas"] = st.ghost.get("label_schemas", []) + [lambda x, ls=ls, cols=cols: Implies(ls.mem(x), cols.mem(x))]
            sel = ls
        elif colsel is None or isinstance(colsel, _SliceAll):
            sel = cols
        else:
            self._undecided("universe.loc column selector %r" % (colsel,))
        if isinstance(rowsel, _SliceV):
            lo = None if rowsel.lo is None else self._num(st, rowsel.lo)
            hi = u.hi if rowsel.hi is None else self._num(st, rowsel.hi)
            # the window is already cut at `now` by target.universe; an explicit upper bound beyond it reads nothing extra
            hi_eff = ite(hi <= u.hi, hi, u.hi) if rowsel.hi is not None else u.hi
            self.read_site(st, "universe.loc[lo:hi]", hi_eff, self.now_of(st, owner))
            self.window_site(st, owner, lo, hi if rowsel.hi is not None else None)
            out.append((st, WindowV(owner, lo, hi_eff, sel)))
            return out
        d = self._num(st, rowsel)
        # label-based row lookup: KeyError when absent from the windowed index
        self.index_facts_label(st, d)
        present = And(inidx_f(d.r), d <= u.hi)
        for (s, b) in self.branch(st, present):
            if not b:
                out.append((s, _Raised("KeyError")))
                continue
            self.read_site(s, "universe.loc[t]", d, self.now_of(s, owner))
            out.append((s, RowV(LabelSet(sel.mem, sel.ord, "universe.loc[t]"), lambda x, d=d: Num(ucell(t, d.r, x), ucell_nan(t, d.r, x), False))))
        return out

    def window_site(self, st, owner, lo, hi):
        """a data window target.universe.loc[lo:hi] was taken: when a window specification is installed (C15: windows of the
        risk-based weighters), oblige its bounds to be the documented ones"""
        spec = getattr(self, "window_spec", None)
        if spec is None:
            return
        want_lo, want_hi = spec(st, owner)
        fn = self.cur_func[-1].replace("bt.algos.", "")
        self.window_sites = getattr(self, "window_sites", 0) + 1
        st.oblige("%s/window-starts-at-now-minus-lag-minus-lookback" % fn, lo is not None and lo.eq(want_lo), kind="window", props=("C15",))
        st.oblige("%s/window-ends-at-now-minus-lag" % fn, hi is not None and hi.eq(want_hi), kind="window", props=("C15",))

    def aux_loc(self, st, fr, i):
        tok = fr.token
        if isinstance(i, TupleV):
            self._undecided("aux frame .loc with column selector")
        d = self._num(st, i)
        out = []
        for (s, b) in self.branch(st, fidx_mem(tok, d.r)):
            if not b:
                out.append((s, _Raised("KeyError")))
                continue
            target = getattr(self, "clock_target", None) or s.locals.get("target")
            if isinstance(target, RefV):
                self.read_site(s, "frame.loc[t]", d, self.now_of(s, target))
            else:
                s.oblige("%s/unclassified-read-of-unwindowed-data" % self.cur_func[-1], False, kind="read", props=("C04",), info=dict(expr="no clock in scope"))
            out.append((s, RowV(LabelSet(lambda x: fcol_mem(tok, x), lambda x: fcol_ord(tok, x), "frame.loc[t]"), lambda x, d=d: Num(fcell(tok, d.r, x), fcell_nan(tok, d.r, x), False))))
        return out

    def row_head(self, st, row, k):
        """s[:k] on an ordered Series: the first k entries.  Positions are an injective, order-monotone
        numbering 0..n-1 of the members (ghost pos function per collection)."""
        k = self._num(st, k)
        tok = dsl.fresh_int("coll")
        ls = row.ls
        pos = lambda x: pos_f(tok.r, x)
        n = ls.n if ls.n is not None else Num(z3.Int(dsl.fresh_name("card")), False, True)
        ls.n = n
        st.assume(n.r >= 0)
        # schematic facts about positions (instantiated at goal skolems)
        st.ghost["label_schemas"] = st.ghost.get("label_schemas", []) + [lambda x: Implies(ls.mem(x), And(pos(x) >= 0, pos(x) < n.r))]
        st.ghost["label_schemas2"] = st.ghost.get("label_schemas2", []) + [lambda x, y: Implies(And(ls.mem(x), ls.mem(y)), And((ls.ord(x) < ls.ord(y)) == (pos(x) < pos(y)), (pos(x) == pos(y)) == (x == y)))]
        kk = ite(k < 0, ite(n + k < 0, 0, n + k), k)
        st.ghost["last_head_card"] = n
        new = LabelSet(lambda x: And(ls.mem(x), pos(x) < kk.r), ls.ord, row.desc + "[:k]", n=ite(kk < n, kk, n))
        new.pos = pos
        return [(st, RowV(new, row.val))]

    def ext_in(self, a, b, st):
        if isinstance(b, BoundFn) and b.kind == "auxindex":
            d = self._num(st, a)
            return fidx_mem(b.recv.token, d.r)
        if isinstance(b, (ListLV, IndexLV)) and isinstance(a, StrV):
            return b.ls.mem(a.term)
        return AlgoExecutor.ext_in(self, a, b, st)

    # value-producing comprehension that filters a label list:  [s for s in xs if cond(s)]
    def expr_ListComp(self, e, st):
        g = e.generators[0] if len(e.generators) == 1 else None
        if (g is not None and isinstance(g.target, ast.Tuple) and len(g.target.elts) == 2 and all(isinstance(t, ast.Name) for t in g.target.elts)
                and isinstance(e.elt, ast.Name) and e.elt.id == g.target.elts[0].id):
            out = []
            for (s, xs) in self.eval(g.iter, st):
                if isinstance(xs, _Raised):
                    out.append((s, xs))
                    continue
                if not isinstance(xs, ChildItemsV):
                    return AlgoExecutor.expr_ListComp(self, e, st)
                xv = fresh_label("elt")
                conds = []
                for c in g.ifs:
                    s2 = s.fork()
                    s2.locals[g.target.elts[0].id] = StrV(xv)
                    s2.locals[g.target.elts[1].id] = s2.heap.dict_at(xs.owner, "children", StrV(xv), "Node")
                    conds.append(self.pure_cond(c, s2))
                cf = And(*conds) if conds else True
                ls = xs.ls

                def mem(x, cf=cf, xv=xv, ls=ls):
                    c = cf if isinstance(cf, bool) else z3.substitute(cf, (xv, x))
                    return And(ls.mem(x), c)

                out.append((s, ListLV(LabelSet(mem, ls.ord, "filtered children"))))
            return out
        if g is not None and isinstance(g.target, ast.Name) and isinstance(e.elt, ast.Name) and e.elt.id == g.target.id:
            out = []
            for (s, xs) in self.eval(g.iter, st):
                if isinstance(xs, _Raised):
                    out.append((s, xs))
                    continue
                if not isinstance(xs, (ListLV, IndexLV)):
                    return AlgoExecutor.expr_ListComp(self, e, st)
                xv = fresh_label("elt")
                conds = []
                ok = True
                for c in g.ifs:
                    s2 = s.fork()
                    s2.locals[g.target.id] = StrV(xv)
                    conds.append(self.pure_cond(c, s2))
                if not ok:
                    self._undecided("comprehension filter with branching condition")
                cf = And(*conds) if conds else True
                ls = xs.ls

                def mem(x, cf=cf, xv=xv, ls=ls):
                    c = cf if isinstance(cf, bool) else z3.substitute(cf, (xv, x))
                    return And(ls.mem(x), c)

                out.append((s, ListLV(LabelSet(mem, ls.ord, "filtered"))))
            return out
        return AlgoExecutor.expr_ListComp(self, e, st)

    def pure_cond(self, c, s2):
        """a side-effect-free filter condition as one formula (and/or/not are not short-circuit-forked)"""
        if isinstance(c, ast.BoolOp):
            parts = [self.pure_cond(v, s2) for v in c.values]
            return And(*parts) if isinstance(c.op, ast.And) else Or(*parts)
        if isinstance(c, ast.UnaryOp) and isinstance(c.op, ast.Not):
            return Not(self.pure_cond(c.operand, s2))
        rs = self.eval(c, s2)
        if len(rs) != 1 or isinstance(rs[0][1], _Raised):
            self._undecided("comprehension filter with branching condition")
        return _zbb(self.truth(s2, rs[0][1]))

    def call_special(self, st, f, e):
        if f.name == "isinstance" and len(e.args) == 2 and isinstance(e.args[1], ast.Attribute) and isinstance(e.args[1].value, ast.Name) and e.args[1].value.id == "self" and e.args[1].attr not in self.prog.classes:
            from .heap import cls_f

            out = []
            me = st.locals["self"]
            for (s, obj) in self.eval(e.args[0], st):
                if not isinstance(obj, RefV):
                    self._undecided("isinstance(<non-node>, self.%s)" % e.args[1].attr)
                out.append((s, types_sel(me.term, e.args[1].attr, cls_f(obj.term))))
            return out
        return AlgoExecutor.call_special(self, st, f, e)

    def expr_List(self, e, st):
        if not e.elts:
            return [(st, ListLV(LabelSet(lambda x: False, lambda x: z3.IntVal(0), "[]", n=Num.lift(0))))]
        self._undecided("list literal")

    # ---------------------------------------------------------------- comparisons producing masks
    def ext_compare(self, op, a, b, st):
        if isinstance(a, RowV) and not isinstance(b, RowV):
            try:
                c = self._num(st, b) if not isinstance(b, bool) else b
            except Undecided:
                return None
            if isinstance(b, bool):
                # sig == True on a boolean frame: truthy cell (stored as 1.0)
                return MaskV(a.ls, lambda x: And(Not(dsl.isnan(a.val(x))) if dsl.isnan(a.val(x)) is not False else True, a.val(x).ne(0)) if b else a.val(x).eq(0))
            f = {ast.Gt: lambda v: v > c, ast.GtE: lambda v: v >= c, ast.Lt: lambda v: v < c, ast.LtE: lambda v: v <= c, ast.Eq: lambda v: v.eq(c), ast.NotEq: lambda v: v.ne(c)}.get(type(op))
            if f is None:
                return None
            return MaskV(a.ls, lambda x: f(a.val(x)))
        return AlgoExecutor.ext_compare(self, op, a, b, st)

    def get_data_value(self, st, strat, key):
        """strategy.get_data(key): the additional-data frame bound to `key` at Backtest creation (identified by (strategy, key))"""
        from .heap import Opt as _Opt

        if isinstance(key, _Opt):
            st.oblige("%s/get_data-key-not-none" % self.cur_func[-1], Not(key.isnone), kind="side")
            key = key.val
        if isinstance(key, StrV):
            tokf = z3.Function("data_by_name", dsl.Ref, S, dsl.Ref)
            return AuxFrameV(tokf(strat.term, key.term))
        if isinstance(key, str):
            tokf = z3.Function("data_" + key, dsl.Ref, dsl.Ref)
            return AuxFrameV(tokf(strat.term))
        # a key the model does not track (held in an opaque attribute of the algo): some frame bound at Backtest creation
        return AuxFrameV(dsl.fresh_ref("data_frame"))

    def ext_invert(self, st, v):
        if isinstance(v, MaskV):
            c = v.cond
            return MaskV(v.ls, lambda x: Not(c(x)))
        return None

    # ---------------------------------------------------------------- method calls
    def ext_call_value(self, st, f, pos, kw):
        if isinstance(f, BoundFn) and f.kind == "rowm":
            row = f.recv
            if f.name == "dropna":
                return [(st, RowV(LabelSet(lambda x: And(row.ls.mem(x), Not(dsl.isnan(row.val(x)))), row.ls.ord, row.desc + ".dropna()"), row.val))]
            if f.name == "isnull":
                return [(st, MaskV(row.ls, lambda x: dsl.isnan(row.val(x)) if dsl.isnan(row.val(x)) is not False else z3.BoolVal(False)))]
            if f.name == "copy":
                return [(st, row)]
            if f.name == "sort_values":
                asc = kw.get("ascending", True)
                inplace = kw.get("inplace", False)
                tok = dsl.fresh_int("sorted")
                so = lambda x: pos_f(tok.r + 1000000, x)
                asc_b = asc if not isinstance(asc, bool) else z3.BoolVal(asc)
                # order by value; ties keep their previous relative order (stable sort: A-PANDAS)
                st.ghost["label_schemas2"] = st.ghost.get("label_schemas2", []) + [
                    lambda x, y: Implies(And(row.ls.mem(x), row.ls.mem(y)), And(
                        Implies(row.val(x) < row.val(y), (so(x) < so(y)) == asc_b), Implies(row.val(x) > row.val(y), (so(x) > so(y)) == asc_b),
                        Implies(row.val(x).eq(row.val(y)), (so(x) < so(y)) == (row.ls.ord(x) < row.ls.ord(y))), (so(x) == so(y)) == (x == y)))]
                new = RowV(LabelSet(row.ls.mem, so, row.desc + ".sorted", n=row.ls.n), row.val)
                if inplace is True:
                    row.ls, row.desc = new.ls, new.desc
                    return [(st, NONEV)]
                return [(st, new)]
        if isinstance(f, BoundFn) and f.kind == "winm" and f.name == "count":
            w = f.recv
            t = w.owner.term
            lo = w.lo if w.lo is not None else Num.lift(-(10 ** 9))
            return [(st, RowV(LabelSet(w.cols.mem, w.cols.ord, "window.count()"), lambda x: Num(ucount(t, lo.r, w.hi.r, x), False, True)))]
        if isinstance(f, BoundFn) and f.kind == "idxm" and f.name == "intersection":
            a = f.recv.ls
            o = pos[0]
            if not isinstance(o, (ListLV, IndexLV)):
                self._undecided("index.intersection with %r" % (o,))
            b = o.ls
            return [(st, IndexLV(LabelSet(lambda x: And(a.mem(x), b.mem(x)), a.ord, "intersection")))]
        if isinstance(f, BoundFn) and f.kind == "winm" and f.name == "calc_total_return":
            # ffn.calc_total_return over the window (A-EXT): last/first - 1 per column; identified by the window bounds
            w = f.recv
            t = w.owner.term
            lo = w.lo if w.lo is not None else Num.lift(-(10 ** 9))
            return [(st, RowV(LabelSet(w.cols.mem, w.cols.ord, "window.calc_total_return()"), lambda x: Num(totret_f(t, lo.r, w.hi.r, x), totret_nan_f(t, lo.r, w.hi.r, x), False)))]
        if isinstance(f, BoundFn) and f.kind == "tempget":
            t, key = f.recv, pos[0]
            if not isinstance(key, str):
                self._undecided("temp.get with non-constant key")
            has = self.temp_has(st, t, key)
            tok = self._lst_token(t.owner, "%s_%s" % (t.which, key))
            dflt = pos[1] if len(pos) > 1 else None
            from .heap import TupleV as _TupleV

            if isinstance(dflt, _TupleV) and len(dflt.items) == 0:
                dflt = ListLV(LabelSet(lambda x: False, lambda x: z3.IntVal(0), "()", n=Num.lift(0)))
            if isinstance(dflt, ListLV):
                d = dflt.ls
                return [(st, ListLV(LabelSet(lambda x: z3.If(has, lst_mem(tok, x), _zbb(d.mem(x))), lambda x: lst_ord(tok, x), "%s.get(%r)" % (t.which, key))))]
            # no default (None) or a scalar default: the stored value when the key is present, the default otherwise
            if dflt is None or dflt is NONEV or isinstance(dflt, (bool, int, float, Num)):
                out = []
                for (s, b) in self.branch(st, has):
                    out.append((s, self.temp_value(s, t, key)) if b else (s, NONEV if dflt is None else dflt))
                return out
            self._undecided("temp.get default")
        if isinstance(f, BoundFn) and f.kind == "set_union":
            a, b = pos[0].ls, pos[1].ls
            return [(st, ListLV(LabelSet(lambda x: Or(a.mem(x), b.mem(x)), a.ord, "union")))]
        if isinstance(f, BoundFn) and f.kind == "regex_search":
            x = pos[0]
            if isinstance(x, StrV):
                return [(st, match_f(f.recv.owner.term, x.term))]
            self._undecided("regex.search argument")
        if isinstance(f, BoundFn) and f.kind == "get_data":
            return [(st, self.get_data_value(st, f.recv, pos[0]))]
        if False:
            key = pos[0]
            from .heap import Opt as _Opt
            if isinstance(key, _Opt):
                st.oblige("%s/get_data-key-not-none" % self.cur_func[-1], Not(key.isnone), kind="side")
                key = key.val
            kt = key.term if isinstance(key, StrV) else z3.StringVal(key) if False else None
            if isinstance(key, StrV):
                tokf = z3.Function("data_by_name", dsl.Ref, S, dsl.Ref)
                return [(st, AuxFrameV(tokf(f.recv.term, key.term)))]
            if isinstance(key, str):
                tokf = z3.Function("data_" + key, dsl.Ref, dsl.Ref)
                return [(st, AuxFrameV(tokf(f.recv.term)))]
            self._undecided("get_data key")
        if isinstance(f, BoundFn) and f.kind == "random_sample":
            # random.sample(population, k): some k distinct members of the population (A-EXT)
            popu, k = pos[0], self._num(st, pos[1])
            if not isinstance(popu, (ListLV, IndexLV)):
                self._undecided("random.sample population")
            tok = dsl.fresh_ref("sample")
            ls = popu.ls
            return [(st, ListLV(LabelSet(lambda x: And(ls.mem(x), lst_mem(tok, x)), lambda x: lst_ord(tok, x), "random.sample", n=k)))]
        return AlgoExecutor.ext_call_value(self, st, f, pos, kw)

    def call_modfn(self, st, name, pos, kw):
        if name == "random.sample":
            return self.ext_call_value(st, BoundFn("random_sample", "sample"), pos, kw)
        return AlgoExecutor.call_modfn(self, st, name, pos, kw)

    def ext_builtin(self, st, name, pos, kw):
        if name == "set" and len(pos) == 0:
            return [(st, ListLV(LabelSet(lambda x: False, lambda x: z3.IntVal(0), "set()", n=Num.lift(0))))]
        if name in ("list", "set", "tuple") and len(pos) == 1:
            v = pos[0]
            if isinstance(v, (IndexLV, ListLV)):
                return [(st, ListLV(v.ls))]
        if name == "len" and len(pos) == 1 and type(pos[0]).__name__ == "DictObjV":
            n = Num(dlen_f(pos[0].ref), False, True)       # number of keys (enumeration facts: dict_enum_facts)
            st.assume(n.r >= 0)
            return [(st, n)]
        if name == "len" and len(pos) == 1 and isinstance(pos[0], (RowV, ListLV, IndexLV)):
            ls = pos[0].ls
            if ls.n is None:
                ls.n = Num(z3.Int(dsl.fresh_name("card")), False, True)
                st.assume(ls.n.r >= 0)
            # cardinality: no members iff it is zero (the only facts about it the proofs use)
            st.ghost["label_schemas"] = st.ghost.get("label_schemas", []) + [lambda x, ls=ls: Implies(ls.mem(x), ls.n.r >= 1)]
            return [(st, ls.n)]
        if name == "int" and len(pos) == 1:
            v = self._num(st, pos[0])
            # int() truncates toward zero
            if v.is_int:
                return [(st, v)]
            return [(st, Num(z3.If(v.r >= 0, z3.ToInt(v.r), -z3.ToInt(-v.r)), v.nan, True))]
        return AlgoExecutor.ext_builtin(self, st, name, pos, kw)

    # ---------------------------------------------------------------- temp store / load with Python-level values
    def ext_store_subscript(self, st, base, i, v):
        if isinstance(base, TempV) and isinstance(i, str):
            st.ghost["temp:%s:%s" % (base.which, i)] = v
            m = st.heap.ensure_ghost_bool("tmp#has:" + self.temp_key(base, i))
            st.heap.maps["tmp#has:" + self.temp_key(base, i)] = m.store(base.owner.term, z3.BoolVal(True))
            return [st]
        return None

    def temp_value(self, st, t, key):
        k = "temp:%s:%s" % (t.which, key)
        if k in st.ghost:
            return st.ghost[k]
        # entry value: an arbitrary list of labels / Series held in temp
        tok = self._lst_token(t.owner, "temp_" + key)
        if key in ("selected",):
            v = ListLV(LabelSet(lambda x: lst_mem(tok, x), lambda x: lst_ord(tok, x), "temp['selected']@entry"))
        elif key in ("stat",):
            v = RowV(LabelSet(lambda x: lst_mem(tok, x), lambda x: lst_ord(tok, x), "temp['stat']@entry"), lambda x: Num(fcell(tok, 0, x), fcell_nan(tok, 0, x), False))
        else:
            self._undecided("temp[%r] value model" % key)
        st.ghost[k] = v
        return v


# =====================================================================================================
# Mutable string-keyed dicts of floats (temp['weights'], tgt, limit dicts): a heap object with
#   dct#has : Ref -> (Str -> Bool)      dct#val / dct#valnan : Ref -> (Str -> Real / Bool)
# and, for iteration, a positional enumeration of the keys:  key_at(d, j)  with  0 <= j < len(d),
# pos(d, key_at(d, j)) == j   (a bijection between positions and members; A-PANDAS for Series).
# =====================================================================================================
dkey_at = z3.Function("key_at", dsl.Ref, I, S)
dkey_pos = z3.Function("key_pos", dsl.Ref, S, I)
dlen_f = z3.Function("dict_len", dsl.Ref, I)


class DictObjV(object):
    def __init__(self, ref, desc=""):
        self.ref, self.desc = ref, desc


class DictKeysV(object):
    """iteration view over a dict / Series: keys (kind='keys') or (key, value) pairs (kind='items')"""

    def __init__(self, d, kind, snap=None):
        self.d, self.kind, self.snap = d, kind, snap


from .heap import EXTRA_KEYS as _XK

_XK["dct#has"] = z3.ArraySort(S, B)
_XK["dct#val"] = z3.ArraySort(S, R)
_XK["dct#valnan"] = z3.ArraySort(S, B)


def _dmaps(heap):
    return heap.ensure("dct#has"), heap.ensure("dct#val"), heap.ensure("dct#valnan")


def dict_has(heap, d, k):
    has, _, _ = _dmaps(heap)
    return z3.Select(has.select(d), k)


def dict_get(heap, d, k):
    _, val, vn = _dmaps(heap)
    return Num(z3.Select(val.select(d), k), z3.Select(vn.select(d), k), False)


def dict_set(heap, d, k, v):
    has, val, vn = _dmaps(heap)
    v = Num.lift(v)
    heap.maps["dct#has"] = has.store(d, z3.Store(has.select(d), k, z3.BoolVal(True)))
    heap.maps["dct#val"] = val.store(d, z3.Store(val.select(d), k, v.real()))
    heap.maps["dct#valnan"] = vn.store(d, z3.Store(vn.select(d), k, _zbb(v.nan)))


def dict_del(heap, d, k):
    has, _, _ = _dmaps(heap)
    heap.maps["dct#has"] = has.store(d, z3.Store(has.select(d), k, z3.BoolVal(False)))


def dict_new(heap, name="dict"):
    d = dsl.fresh_ref(name)
    has, val, vn = _dmaps(heap)
    heap.maps["dct#has"] = has.store(d, z3.K(S, z3.BoolVal(False)))
    return d


def dict_enum_facts(heap, d, j):
    """positional enumeration at index j of the keys of d *as of this heap*"""
    j = Num.lift(j)
    k = dkey_at(d, j.r)
    return Implies(And(j.r >= 0, j.r < dlen_f(d)), And(dict_has(heap, d, k), dkey_pos(d, k) == j.r))


def _dict_methods():
    return ("items", "keys", "values", "copy", "get")


_old_load_attr = FrameExecutor.ext_load_attr


def _d_load_attr(self, st, obj, attr):
    from .heap import Opt as _Opt

    if isinstance(obj, _Opt) and isinstance(obj.val, tuple) and obj.val[0] == "dictref":
        # attribute / method on an optional dict: it must not be None
        st.oblige("%s/not-none" % self.cur_func[-1], Not(obj.isnone), kind="side")
        st.assume(_zbb(Not(obj.isnone)))
        return _d_load_attr(self, st, DictObjV(obj.val[1], "optional dict"), attr)
    if isinstance(obj, DictObjV) and attr in _dict_methods():
        return [(st, BoundFn("dictm", attr, recv=obj))]
    return _old_load_attr(self, st, obj, attr)


FrameExecutor.ext_load_attr = _d_load_attr

_old_call_value = FrameExecutor.ext_call_value


def _d_call_value(self, st, f, pos, kw):
    if isinstance(f, BoundFn) and f.kind == "dictm":
        d = f.recv
        if f.name in ("items", "keys"):
            return [(st, DictKeysV(d, f.name, st.heap.copy()))]
        if f.name == "copy":
            n = dsl.fresh_ref("dictcopy")
            st.assume(n != d.ref)  # dict.copy() allocates: the result is a different object than the original
            has, val, vn = _dmaps(st.heap)
            st.heap.maps["dct#has"] = has.store(n, has.select(d.ref))
            st.heap.maps["dct#val"] = val.store(n, val.select(d.ref))
            st.heap.maps["dct#valnan"] = vn.store(n, vn.select(d.ref))
            return [(st, DictObjV(n, d.desc + ".copy()"))]
        if f.name == "get" and len(pos) in (1, 2) and isinstance(pos[0], StrV):
            # d.get(key[, default]) on a name -> float dict: the stored value, the default (None -> undecided) when absent
            if len(pos) == 1:
                self._undecided("dict.get without default on a float dict")
            dv = self._num(st, pos[1])
            hasv = dict_has(st.heap, d.ref, pos[0].term)
            cur = dict_get(st.heap, d.ref, pos[0].term)
            return [(st, dsl.ite(hasv, cur, dv))]
    return _old_call_value(self, st, f, pos, kw)


FrameExecutor.ext_call_value = _d_call_value

_old_load_sub = FrameExecutor.ext_load_subscript


def _d_load_sub(self, st, base, i):
    from .heap import Opt as _Opt

    if isinstance(base, _Opt) and isinstance(base.val, tuple) and base.val[0] == "dictref":
        st.oblige("%s/not-none" % self.cur_func[-1], Not(base.isnone), kind="side")
        st.assume(_zbb(Not(base.isnone)))
        base = DictObjV(base.val[1], "optional dict")
    if isinstance(base, DictObjV) and isinstance(i, StrV):
        out = []
        for (s, b) in self.branch(st, dict_has(st.heap, base.ref, i.term)):
            out.append((s, dict_get(s.heap, base.ref, i.term)) if b else (s, _Raised("KeyError")))
        return out
    return _old_load_sub(self, st, base, i)


FrameExecutor.ext_load_subscript = _d_load_sub

_old_store_sub = FrameExecutor.ext_store_subscript


def _d_store_sub(self, st, base, i, v):
    if isinstance(base, DictObjV) and isinstance(i, StrV):
        dict_set(st.heap, base.ref, i.term, self._num(st, v))
        return [st]
    return _old_store_sub(self, st, base, i, v)


FrameExecutor.ext_store_subscript = _d_store_sub

_old_in = FrameExecutor.ext_in


def _d_in(self, a, b, st):
    if isinstance(b, DictObjV) and isinstance(a, StrV):
        return dict_has(st.heap, b.ref, a.term)
    from .heap import DictV as _DictV

    return _old_in(self, a, b, st)


FrameExecutor.ext_in = _d_in

_old_temp_value = FrameExecutor.temp_value


def _d_temp_value(self, st, t, key):
    k = "temp:%s:%s" % (t.which, key)
    if k not in st.ghost and key in ("weights",):
        tokf = z3.Function("tok_temp_" + key, dsl.Ref, dsl.Ref)
        v = DictObjV(tokf(t.owner.term), "temp['%s']@entry" % key)
        st.ghost[k] = v
        return v
    if k not in st.ghost and key in ("cash", "notional_value"):
        f = z3.Function("temp_" + key, dsl.Ref, R)
        v = Num(f(t.owner.term), False, False)
        st.ghost[k] = v
        return v
    return _old_temp_value(self, st, t, key)


FrameExecutor.temp_value = _d_temp_value


def _d_expr_dict(self, e, st):
    if not e.keys:
        return [(st, DictObjV(dict_new(st.heap), "{}"))]
    self._undecided("dict literal")


FrameExecutor.ext_dict_literal = _d_expr_dict


def _iter_adapter(self, it, st):
    """iteration sources beyond plain lists: dict keys/items views and a node's children dict (by name)"""
    from .heap import DictV as _DictV

    if isinstance(it, DictKeysV) or isinstance(it, DictObjV):
        d = it.d if isinstance(it, DictKeysV) else it
        kind = it.kind if isinstance(it, DictKeysV) else "keys"
        n = Num(dlen_f(d.ref), False, True)

        def elem(s, i, d=d, kind=kind):
            k = dkey_at(d.ref, Num.lift(i).r)
            s.assume(_zbb(dict_enum_facts(s.heap, d.ref, i)))
            if kind == "items":
                return TupleV([StrV(k), dict_get(s.heap, d.ref, k)])
            return StrV(k)

        return n, elem, None
    if isinstance(it, _DictV) and it.field == "children":
        owner = it.owner
        n = st.heap.list_len(owner, "_childrenv")

        def elem(s, i, owner=owner):
            c = s.heap.list_at(owner, "_childrenv", i)
            nm = s.heap.get(c, "name")
            # T: the dict of children and the list of children agree
            s.assume(And(s.heap.dict_has(owner, "children", nm), s.heap.dict_at(owner, "children", nm).term == c.term))
            return nm

        return n, elem, owner
    return None


FrameExecutor.iter_adapter = _iter_adapter


# ---------------------------------------------------------------------------------------------
# the cached universe window of a strategy:  _funiverse = _universe.loc[: hi]   (only its bound is modelled)
class FrameWinV(object):
    def __init__(self, owner, hi):
        self.owner, self.hi = owner, hi


_old_load_attr2 = FrameExecutor.ext_load_attr


def _w_load_attr(self, st, obj, attr):
    if isinstance(obj, RefV) and attr == "_funiverse":
        return [(st, FrameWinV(obj, st.heap.get(obj, "_funiverse_hi")))]
    return _old_load_attr2(self, st, obj, attr)


FrameExecutor.ext_load_attr = _w_load_attr

_old_load_sub2 = FrameExecutor.ext_load_subscript


def _w_load_sub(self, st, base, i):
    if isinstance(base, BoundFn) and base.kind == "loc" and isinstance(base.recv, FrameV) and base.recv.field == "_universe" and isinstance(i, _SliceV) and i.lo is None and i.hi is not None:
        return [(st, FrameWinV(base.recv.owner, self._num(st, i.hi)))]
    return _old_load_sub2(self, st, base, i)


FrameExecutor.ext_load_subscript = _w_load_sub


# ---------------------------------------------------------------------------------------------
# dict comprehensions over label collections / dict items:  {k: f(k, v) for k[, v] in xs[.items()]}
def _expr_DictComp(self, e, st):
    if len(e.generators) != 1:
        self._undecided("nested dict comprehension")
    g = e.generators[0]
    out = []
    for (s, xs) in self.eval(g.iter, st):
        if isinstance(xs, _Raised):
            out.append((s, xs))
            continue
        xv = fresh_label("key")
        s2 = s.fork()
        if isinstance(xs, (ListLV, IndexLV)) and isinstance(g.target, ast.Name):
            mem = xs.ls.mem
            s2.locals[g.target.id] = StrV(xv)
        elif isinstance(xs, DictKeysV) and xs.kind == "items" and isinstance(g.target, ast.Tuple) and len(g.target.elts) == 2:
            d0 = xs.d
            mem = lambda x, d0=d0, s=s: dict_has(s.heap, d0.ref, x)
            s2.locals[g.target.elts[0].id] = StrV(xv)
            s2.locals[g.target.elts[1].id] = dict_get(s.heap, d0.ref, xv)
        elif isinstance(xs, (DictObjV, DictKeysV)) and isinstance(g.target, ast.Name):
            d0 = xs.d if isinstance(xs, DictKeysV) else xs
            mem = lambda x, d0=d0, s=s: dict_has(s.heap, d0.ref, x)
            s2.locals[g.target.id] = StrV(xv)
        else:
            self._undecided("dict comprehension over %r" % (xs,))
        if not (isinstance(e.key, ast.Name) and isinstance(s2.locals.get(e.key.id), StrV) and z3.eq(s2.locals[e.key.id].term, xv)):
            self._undecided("dict comprehension key is not the loop variable")
        conds = []
        for c in g.ifs:
            rs = self.eval(c, s2)
            if len(rs) != 1 or isinstance(rs[0][1], _Raised):
                self._undecided("branching comprehension filter")
            conds.append(self.truth(s2, rs[0][1]))
        vs = self.eval(e.value, s2)
        if len(vs) != 1 or isinstance(vs[0][1], _Raised):
            self._undecided("branching comprehension value")
        val = self._num(s2, vs[0][1])
        cf = And(*conds) if conds else True
        d = dsl.fresh_ref("dictcomp")  # contents defined by the schematic fact below (no initial store)
        _dmaps(s.heap)
        for other in list(s.ghost.values()) + list(s.locals.values()):
            if isinstance(other, DictObjV):
                s.assume(d != other.ref)
        # definition of the new dict, as schematic facts instantiated at the labels of interest
        def fact(x, d=d, mem=mem, cf=cf, val=val, xv=xv, s=s):
            sub = lambda t: t if isinstance(t, bool) else z3.substitute(t, (xv, x))
            has = And(mem(x), sub(cf) if not isinstance(cf, bool) else cf)
            v = Num(sub(val.r) if True else val.r, sub(val.nan) if not isinstance(val.nan, bool) else val.nan, val.is_int)
            return And(dict_has(s.heap, d, x) == _zbb(has), Implies(has, dsl.same(dict_get(s.heap, d, x), v)))
        s.ghost["label_schemas"] = s.ghost.get("label_schemas", []) + [fact]
        out.append((s, DictObjV(d, "{k: ... for k in ...}")))
    return out


FrameExecutor.expr_DictComp = _expr_DictComp


# ---------------------------------------------------------------------------------------------
# label lists built from dict keys, concatenation, set(), and iteration over a label collection
class LimitV(object):
    """LimitDeltas.limit: a global float or a per-ticker dict, selected by global_limit"""

    def __init__(self, num, dref):
        self.num, self.dref = num, dref


_old_load_attr3 = FrameExecutor.ext_load_attr
child_name_order = z3.Function("child_name_order", dsl.Ref, S, I)
def types_sel(me, attr, cls):
    """isinstance(obj, self.<attr>) as an uninterpreted predicate of (self, obj's class)"""
    return z3.Function("types_sel_" + attr, dsl.Ref, cls.sort(), z3.BoolSort())(me, cls)


class ChildItemsV(object):
    """node.children.items(): (name, child) pairs in insertion order"""

    def __init__(self, owner, ls):
        self.owner, self.ls = owner, ls



def _k_load_attr(self, st, obj, attr):
    from .heap import DictV as _DictV

    if isinstance(obj, _DictV) and obj.field == "children" and attr == "keys":
        return [(st, BoundFn("childkeys", "keys", recv=obj))]
    if isinstance(obj, _DictV) and obj.field == "children" and attr == "items":
        return [(st, BoundFn("childitems", "items", recv=obj))]
    if isinstance(obj, RefV) and attr == "limit" and obj.cls != "LimitDeltas":
        return [(st, st.heap.get(obj, "limit_f"))]
    if isinstance(obj, RefV) and obj.cls == "LimitDeltas" and attr == "limit":
        f = z3.Function("limit_dict", dsl.Ref, dsl.Ref)
        return [(st, LimitV(st.heap.get(obj, "limit_f"), f(obj.term)))]
    if isinstance(obj, RefV) and obj.cls == "WeighSpecified" and attr == "weights":
        f = z3.Function("specified_weights", dsl.Ref, dsl.Ref)
        return [(st, DictObjV(f(obj.term), "self.weights"))]
    return _old_load_attr3(self, st, obj, attr)


FrameExecutor.ext_load_attr = _k_load_attr

_old_call_value3 = FrameExecutor.ext_call_value


def _k_call_value(self, st, f, pos, kw):
    if isinstance(f, BoundFn) and f.kind in ("childkeys", "childitems"):
        owner = f.recv.owner
        h = st.heap
        ls = LabelSet(lambda x, h=h: h.dict_has(owner, "children", StrV(x)), lambda x: child_name_order(owner.term, x), "children.keys()")
        if f.kind == "childitems":
            return [(st, ChildItemsV(owner, ls))]
        return [(st, ListLV(ls))]
    return _old_call_value3(self, st, f, pos, kw)


FrameExecutor.ext_call_value = _k_call_value

_old_builtin3 = FrameExecutor.ext_builtin


def _k_builtin(self, st, name, pos, kw):
    if name in ("list", "set") and len(pos) == 1:
        v = pos[0]
        if isinstance(v, DictKeysV) and v.kind == "keys":
            h = st.heap.copy()
            d = v.d
            return [(st, ListLV(LabelSet(lambda x: dict_has(h, d.ref, x), lambda x: dkey_pos(d.ref, x), "list(dict.keys())")))]
        if isinstance(v, DictObjV):
            h = st.heap.copy()
            return [(st, ListLV(LabelSet(lambda x: dict_has(h, v.ref, x), lambda x: dkey_pos(v.ref, x), "list(dict)")))]
        if name == "set" and isinstance(v, (ListLV, IndexLV)):
            return [(st, ListLV(LabelSet(v.ls.mem, v.ls.ord, "set(%s)" % v.ls.desc)))]
    return _old_builtin3(self, st, name, pos, kw)


FrameExecutor.ext_builtin = _k_builtin


def _k_binop(self, op, a, b, st):
    if isinstance(op, ast.Add) and isinstance(a, ListLV) and isinstance(b, ListLV):
        return [(st, ListLV(LabelSet(lambda x: Or(a.ls.mem(x), b.ls.mem(x)), a.ls.ord, "concat")))]
    return None


FrameExecutor.ext_binop = _k_binop

_old_iter_adapter = FrameExecutor.iter_adapter


def _k_iter_adapter(self, it, st):
    if isinstance(it, (ListLV, IndexLV)):
        tok = getattr(it.ls, "tok", None)
        if tok is None:
            tok = dsl.fresh_ref("coll")
            it.ls.tok = tok
        ls = it.ls
        n = Num(dlen_f(tok), False, True)
        from .contracts import ForallInt as _FA

        # enumeration of the collection: positions 0..n-1 are exactly its members, each once
        st.ghost["schemas"] = st.ghost.get("schemas", []) + [_FA(0, n, lambda j, ls=ls, tok=tok: And(_zbb(ls.mem(dkey_at(tok, Num.lift(j).r))), dkey_pos(tok, dkey_at(tok, Num.lift(j).r)) == Num.lift(j).r), name="je")]

        def elem(s, i, ls=ls, tok=tok):
            k = dkey_at(tok, Num.lift(i).r)
            i_ = Num.lift(i)
            s.assume(Implies(And(i_.r >= 0, i_.r < dlen_f(tok)), And(_zbb(ls.mem(k)), dkey_pos(tok, k) == i_.r)))
            return StrV(k)

        return n, elem, None
    return _old_iter_adapter(self, it, st)


FrameExecutor.iter_adapter = _k_iter_adapter

_old_load_sub3 = FrameExecutor.ext_load_subscript


def _k_load_sub(self, st, base, i):
    if isinstance(base, LimitV) and isinstance(i, StrV):
        out = []
        for (s, b) in self.branch(st, dict_has(st.heap, base.dref, i.term)):
            out.append((s, dict_get(s.heap, base.dref, i.term)) if b else (s, _Raised("KeyError")))
        return out
    return _old_load_sub3(self, st, base, i)


FrameExecutor.ext_load_subscript = _k_load_sub

_old_in3 = FrameExecutor.ext_in


def _k_in(self, a, b, st):
    if isinstance(b, LimitV) and isinstance(a, StrV):
        return dict_has(st.heap, b.dref, a.term)
    return _old_in3(self, a, b, st)


FrameExecutor.ext_in = _k_in

_old_num = FrameExecutor._num


def _k_num(self, st, v):
    if isinstance(v, LimitV):
        return v.num
    return _old_num(self, st, v)


FrameExecutor._num = _k_num
