"""C07 - Every node's cash ledger reconciles"""
from pyvc.runner import func

UPDATE_ALL = [func("bt.core.StrategyBase.update", variant=v) for v in ("flat", "paper", "nested", "nested-paper")]

ID = "C07"
META = {
    "assumptions": ['A-REAL', 'A-COMM', 'A-T', 'A-IND', 'A-CYTHON', 'A-SOLVER', 'A-ENGINE'],
    "explanation": "transact/outlay/adjust under functional contracts (every field of the post-state); lemmas: a trade moves exactly q*p*mult + half-spread (or custom-price difference) as outlay and comm(q, p*mult) as fee, once, to the security's own parent, never as a flow, nobody else is charged; update writes cash/fees/flows rows on every call and resets the accumulators only on a date change; security update flushes the pending outlay into the row of the current index; allocate's sizing probes book nothing (loop invariant 'nothing booked'); set_commissions sets the function on the receiver and makes exactly one recursive call per strategy child (propagation contract: it reaches every descendant strategy).",
}
MANIFEST_ENTRY = {
    "level_text": 'Deductive proof of the per-trade and per-update ledger clauses for all inputs; the per-date reconciliation is their sum over the operations of the date.',
    "level_note": "Reals not floats; commission uninterpreted (A-COMM); the per-date sum is an induction over operations stated in DESIGN.md.",
    "technique": "contract-based deductive verification: VCs from the real AST (pyvc) discharged by z3/cvc5; loop invariants with ghost sums; lemmas over contract clauses",
}


def tasks(tier, seed):
    return [
        func("bt.core.SecurityBase.transact"),
        func("bt.core.SecurityBase.outlay"),
        func("bt.core.StrategyBase.adjust"),
        func("bt.core.StrategyBase.allocate"),      # capital moved between a parent and a sub-strategy: the parent is debited exactly what the child is credited, whatever their kinds
        func("bt.core.StrategyBase.set_commissions"),      # the fee schedule a security is charged by is its parent's: inherited by every sub-strategy, at any depth
        func("bt.core.SecurityBase.allocate"),
        *UPDATE_ALL,
        func("bt.core.SecurityBase.update"),
        func("bt.core.FixedIncomeSecurity.update"),
        func("bt.core.CouponPayingSecurity.update"),
        func("bt.core.HedgeSecurity.update"),
        func("bt.core.CouponPayingHedgeSecurity.update"),
        dict(kind="custom", module="props.lemmas", fn="c07_trade_lemmas"),
        dict(kind="custom", module="props.bounded", fn="run_script", script="c07_ledger", seed=seed, n=30 if tier == "quick" else 800, props=["C07"]),
    ]


def post(results, tier, seed):
    b = [r["bounded"] for r in results if r.get("bounded")]
    return None, dict(bounded_stand_ins=b, bounded_note="real operation histories: every trade audited on the accumulators, every node's cash row reconciled date by date; never counted in obligations/discharged")


def replay(o):
    if o.get("replay_inline"):
        return o["replay_inline"]
    from pyvc.concrete import replay_scenario

    return replay_scenario(o)
