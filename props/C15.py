"""C15 - Weighting algos produce the documented weights"""
from pyvc.runner import func

ID = "C15"
WINDOWED = ["WeighInvVol", "WeighERC", "WeighMeanVar", "TargetVol", "PTE_Rebalance"]
META = {
    "assumptions": ["A-PANDAS", "A-EXT", "A-TIME", "A-T", "A-SOLVER", "A-ENGINE"],
    "explanation": "The real __call__ bodies of WeighEqually (1/n on exactly the selection, {} when empty), WeighSpecified (a fresh copy of the specified dict: later in-place edits of temp['weights'] cannot reach the stored targets), ScaleWeights (same keys, each scale*w), WeighTarget (the non-missing targets of the row dated now, False "
    "off-date) and LimitDeltas (for stacks of any size: every key's change capped at its limit towards the target, keys within their limit untouched, loop cut at an invariant over the set iteration) are executed over a "
    "string-keyed dict / Series model and proved at skolem labels; lemmas: equal weights sum to one, a capped change moves towards the target by exactly the limit, TargetVol's scaling reaches the target volatility "
    "(two-asset quadratic form), a cap below 1/n is infeasible. The estimation window of every risk-based weigher (WeighInvVol, WeighERC, WeighMeanVar, TargetVol, PTE_Rebalance) is proved to be exactly universe.loc[now-lag-lookback : now-lag] on the real body (tolerant symbolic execution, numerics abstracted); that it never reaches past now is C04. The numerical relations delivered by ffn/sklearn (inverse-vol, ERC, "
    "mean-variance, random weights, limit_weights) and the TargetVol / PTE_Rebalance glue are exercised only by a bounded stand-in on the real algos against numpy recomputations.",
}
MANIFEST_ENTRY = {
    "level_text": "Deductive proof for the direct weighters and LimitDeltas for all selections, dicts and limits; algebraic lemmas for the scaling algos; optimiser-backed weighters bounded only.",
    "level_note": "ffn.calc_inv_vol_weights / calc_erc_weights / calc_mean_var_weights / limit_weights / random_weights and sklearn's Ledoit-Wolf are assumed contracts (A-EXT), audited numerically by the bounded stand-in, never proved; "
    "LimitWeights, TargetVol, PTE_Rebalance bodies are not under contract (numpy/pandas glue) - bounded only.",
    "technique": "contract-based deductive verification over a dict/Series model (pyvc VCs + z3, loop invariant for LimitDeltas) + algebraic lemmas; bounded numeric stand-in for third-party optimisers",
}


def tasks(tier, seed):
    return [
        func("bt.algos.WeighEqually.__call__"), func("bt.algos.ScaleWeights.__call__"), func("bt.algos.WeighTarget.__call__"), func("bt.algos.WeighSpecified.__call__"), func("bt.algos.LimitDeltas.__call__"),
        *[dict(kind="custom", module="props.c04_tasks", fn="confinement_task", cls=c, windows=True) for c in WINDOWED],
        dict(kind="custom", module="props.lemmas", fn="c15_weight_lemmas"),
        dict(kind="custom", module="props.bounded", fn="run_script", script="c15_weights", seed=seed, n=6 if tier == "quick" else 120, props=["C15"]),
    ]


def post(results, tier, seed):
    b = [r["bounded"] for r in results if r.get("bounded")]
    return None, dict(bounded_stand_ins=b, bounded_note="real algos on generated data; never counted in obligations/discharged")


def replay(o):
    return o.get("replay_inline")
