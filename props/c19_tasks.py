"""C19: universe scoping of StrategyBase.setup - symbolic execution of the real body over a column-set model
(pandas construction of the node's own history frame abstracted by the tolerant executor)."""
import ast
import time
import traceback

import z3

from pyvc import dsl
from pyvc.dsl import Num, And, Or, Not, Implies
from pyvc.heap import Heap, RefV, StrV
from pyvc.state import State, Oblig, Undecided
from pyvc.prover import prove, model_to_dict


class ColFrameV(object):
    """a DataFrame known by its columns (membership + order key); rows are not modelled"""

    def __init__(self, cols, desc):
        self.cols, self.desc = cols, desc


def universe_scope_task(task):
    from pyvc.source import Program
    from pyvc.tolerant import TolerantExecutor, Tainted
    from pyvc.ext_frames import FrameExecutor, LabelSet, ListLV, IndexLV, fresh_label, S
    from pyvc.symexec import BoundFn, NONEV, _Raised, ModV
    from contracts.schema import core_schema
    from contracts import registry

    q = "bt.core.StrategyBase.setup"
    out = dict(results=[], samples=[], qualname=q)
    t0 = time.time()
    I = z3.IntSort()
    pcol_mem = z3.Function("param_universe_has_column", S, z3.BoolSort())
    pcol_ord = z3.Function("param_universe_column_pos", S, I)
    lst_mem = z3.Function("node_list_has", dsl.Ref, S, S, z3.BoolSort()) if False else None
    tick_mem = z3.Function("universe_tickers_has", dsl.Ref, S, z3.BoolSort())
    tick_ord = z3.Function("universe_tickers_pos", dsl.Ref, S, I)
    strat_mem = z3.Function("strat_children_has", dsl.Ref, S, z3.BoolSort())
    strat_ord = z3.Function("strat_children_pos", dsl.Ref, S, I)
    present_f = z3.Function("original_children_are_present", dsl.Ref, z3.BoolSort())

    class ScopeExecutor(TolerantExecutor):
        def load_attr(self, st, obj, attr):
            if isinstance(obj, RefV) and attr == "_universe_tickers":
                t = obj.term
                return [(st, ListLV(LabelSet(lambda x: tick_mem(t, x), lambda x: tick_ord(t, x), "self._universe_tickers")))]
            if isinstance(obj, RefV) and attr == "_strat_children":
                t = obj.term
                return [(st, ListLV(LabelSet(lambda x: strat_mem(t, x), lambda x: strat_ord(t, x), "self._strat_children")))]
            if isinstance(obj, RefV) and attr == "_original_children_are_present":
                return [(st, present_f(obj.term))]
            if isinstance(obj, ColFrameV):
                if attr == "columns":
                    return [(st, IndexLV(obj.cols))]
                if attr == "copy":
                    return [(st, BoundFn("colframe_copy", "copy", recv=obj))]
                if attr == "index":
                    return [(st, Tainted("frame index", False))]
            if isinstance(obj, ModV) and obj.name in ("pd", "pandas") and attr == "DataFrame":
                return [(st, BoundFn("pd_DataFrame", "DataFrame"))]
            return TolerantExecutor.load_attr(self, st, obj, attr)

        def ext_call_value(self, st, f, pos, kw):
            if isinstance(f, BoundFn) and f.kind == "colframe_copy":
                return [(st, ColFrameV(f.recv.cols, f.recv.desc + ".copy()"))]
            if isinstance(f, BoundFn) and f.kind == "pd_DataFrame" and len(pos) == 1 and not kw and isinstance(pos[0], ColFrameV):
                return [(st, ColFrameV(pos[0].cols, "DataFrame(%s)" % pos[0].desc))]
            return TolerantExecutor.ext_call_value(self, st, f, pos, kw)

        def ext_load_subscript(self, st, base, i):
            if isinstance(base, ColFrameV) and isinstance(i, (ListLV, IndexLV)):
                sel, cols = i.ls, base.cols
                # frame[list]: KeyError unless every requested label is a column; result columns in list order
                w = fresh_label("missing")
                ok = dsl.fresh_bool("all_labels_are_columns")
                s_err = st.fork()
                s_err.assume(And(Not(ok), sel.mem(w), Not(cols.mem(w))))
                st.assume(ok)
                st.ghost["label_schemas"] = st.ghost.get("label_schemas", []) + [lambda x, sel=sel, cols=cols: Implies(sel.mem(x), cols.mem(x))]
                return [(s_err, _Raised("KeyError")), (st, ColFrameV(LabelSet(sel.mem, sel.ord, "frame[list]"), base.desc + "[list]"))]
            return TolerantExecutor.ext_load_subscript(self, st, base, i)

        def expr_ListComp(self, e, st):
            g = e.generators[0] if len(e.generators) == 1 else None
            if g is not None and isinstance(g.target, ast.Name) and isinstance(e.elt, ast.Name) and e.elt.id == g.target.id:
                try:
                    return FrameExecutor.expr_ListComp(self, e, st)
                except Undecided:
                    pass
            return TolerantExecutor.expr_ListComp(self, e, st)

        def stmt_For(self, node, st):
            # `for c in <label list>: frame[c] = value`: every label of the list becomes a column (appended in list order when new)
            if (len(node.body) == 1 and isinstance(node.body[0], ast.Assign) and len(node.body[0].targets) == 1 and isinstance(node.body[0].targets[0], ast.Subscript)
                    and isinstance(node.target, ast.Name) and isinstance(node.body[0].targets[0].slice, ast.Name) and node.body[0].targets[0].slice.id == node.target.id
                    and isinstance(node.body[0].targets[0].value, ast.Name) and isinstance(st.locals.get(node.body[0].targets[0].value.id), ColFrameV) and not node.orelse):
                its = self.eval(node.iter, st)
                if len(its) == 1 and isinstance(its[0][1], ListLV):
                    s, L = its[0]
                    fname = node.body[0].targets[0].value.id
                    old = s.locals[fname].cols
                    K = z3.Int(dsl.fresh_name("ncols"))
                    s.ghost["label_schemas"] = s.ghost.get("label_schemas", []) + [lambda x, old=old, K=K, L=L.ls: And(Implies(old.mem(x), And(old.ord(x) >= 0, old.ord(x) < K)), Implies(L.mem(x), L.ord(x) >= 0))]
                    new = LabelSet(lambda x, old=old, L=L.ls: Or(old.mem(x), L.mem(x)), lambda x, old=old, L=L.ls, K=K: z3.If(old.mem(x), old.ord(x), K + L.ord(x)), "columns + loop-added")
                    s.locals[fname] = ColFrameV(new, s.locals[fname].desc + " + added columns")
                    self.bulk_adds = getattr(self, "bulk_adds", 0) + 1
                    from pyvc.state import Outcome

                    return [(s, Outcome("normal"))]
            return TolerantExecutor.stmt_For(self, node, st)

        def stmt_Assign(self, node, st):
            # self._universe = <frame>: remember the column model
            if len(node.targets) == 1 and isinstance(node.targets[0], ast.Attribute) and isinstance(node.targets[0].value, ast.Name) and node.targets[0].value.id == "self" and node.targets[0].attr in ("_universe", "_funiverse"):
                rs = self.eval(node.value, st)
                if len(rs) == 1 and isinstance(rs[0][1], ColFrameV):
                    s, v = rs[0]
                    s.ghost["attr:" + node.targets[0].attr] = v
                    from pyvc.state import Outcome

                    return [(s, Outcome("normal"))]
            return TolerantExecutor.stmt_Assign(self, node, st)

    try:
        prog = Program()
        R = registry.build()
        sch = core_schema()
        C = dict(R["contracts"])
        C.pop(q, None)
        ex = ScopeExecutor(prog, sch, C, inline=R["inline"])
        fi = prog.func(q)
        out["source_hash"] = fi.source_hash()
        st = State(Heap(sch))
        self = RefV(dsl.fresh_ref("self"), "StrategyBase")
        st.assume(And(self.term != dsl.NONE, st.heap.get(self, "parent").term != dsl.NONE))
        U = LabelSet(lambda x: pcol_mem(x), lambda x: pcol_ord(x), "universe.columns")
        uni = ColFrameV(U, "universe")
        exits = ex.run_function(fi, st, self, [uni])
        out["paths"] = len(exits)
        t = self.term
        present = present_f(t)
        has_strat = st.heap.get(self, "_has_strat_children")
        n_norm = 0
        for (s, oc) in exits:
            if oc.kind == "raise":
                continue
            n_norm += 1
            F = s.ghost.get("attr:_universe")
            x, y = fresh_label("x"), fresh_label("y")
            hyps = []
            for f in s.ghost.get("label_schemas", []):
                for lab in (x, y):
                    hyps.append(f(lab))
            # duplicate-free ordered inputs: distinct labels have distinct positions
            for (m, o) in ((pcol_mem, pcol_ord),):
                hyps.append(Implies(And(m(x), m(y), x != y), o(x) != o(y)))
            hyps.append(Implies(And(strat_mem(t, x), strat_mem(t, y), x != y), strat_ord(t, x) != strat_ord(t, y)))
            # T (established by _add_children): the flag is set whenever a strategy child is registered
            hyps.append(Implies(strat_mem(t, x), has_strat))
            hyps.append(Implies(strat_mem(t, y), has_strat))
            pc = list(s.pc) + [h if not isinstance(h, bool) else z3.BoolVal(h) for h in hyps]

            def ob(cid, goal):
                o = Oblig("StrategyBase.setup/%s" % cid, pc, goal, "post", ("C19",))
                r = prove(o, timeout_ms=20000)
                d = dict(id=o.id, kind="post", props=["C19"], verdict=r.verdict, backend=r.backend + " (tolerant execution, column-set model)", secs=round(r.secs, 4), func=q)
                if r.verdict == "refuted":
                    d["model"] = model_to_dict(r.model) if r.model is not None else None
                if r.verdict == "unknown":
                    d["reason"] = r.reason
                out["results"].append(d)

            if not isinstance(F, ColFrameV):
                out["results"].append(dict(id="StrategyBase.setup/universe-is-built-from-the-input-columns", kind="post", props=["C19"], verdict="unknown", backend="tolerant", secs=0.0, func=q, reason="self._universe is not assigned a frame the column model follows"))
                continue
            tickp = lambda z: And(pcol_mem(z), tick_mem(t, z))
            stratp = lambda z: And(has_strat, strat_mem(t, z), Not(tickp(z)))
            want = lambda z: z3.If(present, Or(tickp(z), stratp(z)), pcol_mem(z))
            ob("universe-columns-are-declared-tickers-plus-strategy-children-or-everything", F.cols.mem(x) == want(x))
            both = And(F.cols.mem(x), F.cols.mem(y), x != y)
            ob("undeclared:data-column-order-kept", Implies(And(Not(present), both), (F.cols.ord(x) < F.cols.ord(y)) == (pcol_ord(x) < pcol_ord(y))))
            ob("declared:tickers-in-data-column-order", Implies(And(present, both, tickp(x), tickp(y)), (F.cols.ord(x) < F.cols.ord(y)) == (pcol_ord(x) < pcol_ord(y))))
            ob("declared:strategy-columns-follow-the-tickers", Implies(And(present, both, tickp(x), stratp(y)), F.cols.ord(x) < F.cols.ord(y)))
            ob("declared:strategy-columns-in-registration-order", Implies(And(present, both, stratp(x), stratp(y)), (F.cols.ord(x) < F.cols.ord(y)) == (strat_ord(t, x) < strat_ord(t, y))))
        if n_norm == 0:
            out["results"].append(dict(id="StrategyBase.setup/has-a-normal-exit", kind="post", props=["C19"], verdict="unknown", backend="tolerant", secs=0.0, func=q, reason="no normal exit explored"))
        # children are set up on the caller's unfiltered universe: AST obligation on the call
        src = ast.unparse(fi.node)
        ok = "c.setup(universe, **kwargs)" in src
        out["results"].append(dict(id="StrategyBase.setup/children-are-set-up-on-the-unfiltered-universe", kind="post", props=["C19"], verdict="proved" if ok else "refuted", backend="ast-scan", secs=0.0, func=q))
        out["abstracted_statements"] = len(ex.abstracted)
        out["samples"].append(dict(function=q, normal_exits=n_norm, abstracted=len(ex.abstracted), loop_column_adds=getattr(ex, "bulk_adds", 0)))
    except Exception as e:
        out["error"] = "%s\n%s" % (e, traceback.format_exc())
    out["symexec_s"] = round(time.time() - t0, 3)
    return out
