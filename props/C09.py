"""C09 - A sub-strategy's index equals its stand-alone index, whatever it is allocated"""
from pyvc.runner import func

UPDATE_ALL = [func("bt.core.StrategyBase.update", variant=v) for v in ("flat", "paper", "nested", "nested-paper")]

ID = "C09"
META = {
    "assumptions": ["A-REAL", "A-T", "A-IND", "A-DEEPCOPY", "A-DET", "A-SOLVER", "A-ENGINE"],
    "explanation": "The mechanism clauses of StrategyBase.update are proved on the real body for every node: a paper-traded sub-strategy's index is its paper copy's index (and the row records it); "
    "the paper copy - a separate tree whose root it is - is stepped exactly update(date); run(); update(date) on a new date and not at all otherwise; a root is never paper-stepped; nothing the "
    "parent does writes into the paper tree (frame); each strategy child's index is published in the parent's universe column at the current row. Shadow-copy wiring, decided by tolerant symbolic execution of the real setup / Backtest.__init__ bodies with copy.deepcopy modelled as a fresh, disjoint object (A-DEEPCOPY) - no source spelling involved: a non-root strategy makes exactly one deep copy of itself (a root none), stores it as _paper, makes it its own parent and the root of its whole subtree (_set_root), switches its own paper flag off, sets it up on the same universe and kwargs and then funds it once with exactly 1000000 - which is Backtest's default initial capital (read from the real signature); Backtest.__init__ keeps one deep copy of the template, installs integer mode and (iff given) the commission function on that copy before run() calls setup, never calls or writes the template; Backtest.run changes no setting after setup. The equality with a stand-alone Backtest run is then "
    "the trace argument of DESIGN.md 4 (C09): same deterministic steps from an equal initial state.",
}
MANIFEST_ENTRY = {
    "level_text": "Deductive proof of the paper-copy clauses of update (trace, frame, index hand-over, universe publication) for all trees and inputs; AST-evaluated wiring/constant obligations on setup; "
    "the whole-run equality is a lemma over these clauses, not mechanised.",
    "level_note": "deepcopy and determinism are assumptions (A-DEEPCOPY, A-DET); Backtest.run's own trace for the stand-alone run is read from source; a bankrupt stand-alone run (stops calling run) is outside the statement.",
    "technique": "contract-based deductive verification: VCs from the real AST (pyvc) + z3; ghost call trace on the paper copy; AST-level constant obligations",
}


def tasks(tier, seed):
    return [*UPDATE_ALL, func("bt.backtest.Backtest.run"), dict(kind="custom", module="props.misc_tasks", fn="c09_constants"), dict(kind="custom", module="props.misc_tasks", fn="backtest_init_task"), dict(kind="custom", module="props.c04_tasks", fn="setup_clauses"),
            dict(kind="custom", module="props.bounded", fn="run_script", script="c09_substrategy", seed=seed, n=12 if tier == "quick" else 400, props=["C09"])]


def post(results, tier, seed):
    b = [r["bounded"] for r in results if r.get("bounded")]
    return None, dict(bounded_stand_ins=b, bounded_note="pairs of real backtests (the sub-strategy alone / inside a parent); never counted in obligations/discharged")


def replay(o):
    from pyvc.concrete import replay_scenario

    return replay_scenario(o)
