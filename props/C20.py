"""C20 - Risk sums over the tree, hedges neutralise it, matured positions close and roll"""
from pyvc.runner import func

ID = "C20"
META = {
    "assumptions": ["A-REAL", "A-T", "A-IND", "A-EXT", "A-PANDAS", "A-SOLVER", "A-ENGINE"],
    "explanation": "UpdateRisk under contract on the real bodies: for a security, _set_risk_recursive leaves risk[measure] = unit risk at the row of the root's date x position x multiplier (0 when the position is "
    "zero; a security missing from the table counts as 0 through the assumed contract of _get_unit_risk); for a strategy, every child receives exactly one recursive call one level deeper with the same table and "
    "risk[measure] is the sum of the children's values (loop invariant over a NaN-propagating ghost sum, frame obligation for the disjoint subtrees); in both cases the risk dict exists afterwards, a history row "
    "(node date, risk) is written iff depth < history, and nothing outside the subtree is written. UpdateRisk.__call__ starts exactly one recursion at depth 0 with the table of its measure. SelectActive is proved "
    "(C14 contract) to drop everything recorded as closed or rolled, so a closed security is never re-selected through it. Lemmas over these clauses: hedge notionals from the inverse Jacobian of unit risk x "
    "multiplier neutralise every hedged measure (1x1, 2x2), parent risk moves with the hedge instrument (sum clause), a roll moves factor x position once. HedgeRisks (numpy linear algebra), "
    "ClosePositionsAfterDates and RollPositionsAfterDates (pandas Series glue) are not under contract: they are exercised by the bounded stand-in c20_risk on the real code, which is also what audits the assumed "
    "_get_unit_risk contract.",
}
MANIFEST_ENTRY = {
    "level_text": "Deductive proof of the risk aggregation clauses of UpdateRisk for all trees, positions, multipliers, tables and history depths, of ClosePositionsAfterDates' and RollPositionsAfterDates' bookkeeping for all children, schedules, factors and prior records, of StrategyBase.close / transact, and of SelectActive; algebraic lemmas for hedging and rolling; "
    "the HedgeRisks body is covered only by a bounded stand-in, labelled bounded.",
    "level_note": "_get_unit_risk (try/except around pandas indexing) is an assumed callee contract; StrategyBase.close's own body is verified separately (position zero afterwards up to is_zero, fresh tree); inside the algo it is used through its call-site contract; the close-date and roll tables are name-keyed Series / frame models with uninterpreted columns; target[name] is typed as a security (the names come from the isinstance-filtered children) (A-PANDAS: label loc, <= comparison, boolean-mask indexing); the history frame's rows are a ghost log (its pandas construction is not modelled); reach over the whole tree is by "
    "induction on the recursive call's contract (A-IND); numpy.linalg.inv/pinv are third-party (A-EXT); floats are reals.",
    "technique": "contract-based deductive verification (pyvc VCs + z3; recursive-call contract, ghost sum loop invariant) + algebraic lemmas; bounded real-code stand-in for numpy/pandas glue",
}


def tasks(tier, seed):
    return [
        func("bt.algos.UpdateRisk._set_risk_recursive", variant="security"), func("bt.algos.UpdateRisk._set_risk_recursive", variant="strategy"), func("bt.algos.UpdateRisk.__call__"),
        func("bt.algos.SelectActive.__call__"),
        func("bt.algos.ClosePositionsAfterDates.__call__"),
        func("bt.core.StrategyBase.close"),
        func("bt.algos.RollPositionsAfterDates.__call__"),
        func("bt.core.StrategyBase.transact"),
        dict(kind="custom", module="props.lemmas", fn="c20_risk_lemmas"),
        dict(kind="custom", module="props.bounded", fn="run_script", script="c20_risk", seed=seed, n=40 if tier == "quick" else 800, props=["C20"]),
    ]


def post(results, tier, seed):
    b = [r["bounded"] for r in results if r.get("bounded")]
    return None, dict(bounded_stand_ins=b, bounded_note="real runs on the interpreted scratch copy; never counted in obligations/discharged")


def replay(o):
    if o.get("replay_inline"):
        return o["replay_inline"]
    return None
