"""C05 - Allocating cash to a security respects the budget, costs included."""
from pyvc.runner import func

ID = "C05"
META = dict(
    assumptions=["A-REAL", "A-COMM", "A-T", "A-CYTHON", "A-SOLVER", "A-ENGINE"],
    explanation="SecurityBase.allocate verified against: allocate == [catch-up update]; transact(q*) with q* characterised by the budget clauses "
    "(cost equals amount within np.isclose's own tolerance, or whole-unit q is the largest that fits), close-out, zero amount, refusal on bad price; "
    "sizing-search loop cut at the invariant full_outlay == full(q) and (integer => q integral) and nothing booked; outlay and transact under functional contracts.",
)


def tasks(tier, seed):
    return [
        func("bt.core.SecurityBase.allocate"),
        func("bt.core.SecurityBase.outlay"),
        func("bt.core.SecurityBase.transact"),
        func("bt.core.StrategyBase.adjust"),
        dict(kind="custom", module="props.bounded", fn="run_script", script="c07_ledger", seed=seed, n=15 if tier == "quick" else 300, props=["C05"]),      # the total cost of a trade, audited trade by trade
        dict(kind="custom", module="props.bounded", fn="run_script", script="c05_sizing", seed=seed, n=1500 if tier == "quick" else 40000, props=["C05"]),
    ]


def post(results, tier, seed):
    b = [r["bounded"] for r in results if r.get("bounded")]
    return None, dict(bounded_stand_ins=b, bounded_note="real allocations on the interpreted scratch copy; never counted in obligations/discharged")

MANIFEST_ENTRY = {
    "level_text": "Deductive proof, for all real-valued prices/positions/amounts/spreads, any commission function and both position modes, that every exit of the real "
    "SecurityBase.allocate body satisfies the C05 clauses (budget within the code's own isclose tolerance or largest whole unit, close-out, zero amount, refusal on bad price) "
    "and books exactly one transact(q) and nothing else; the sizing search is cut at an inductive invariant, so the proof is unbounded in the number of iterations.",
    "level_note": "Reals instead of floats (A-REAL); commission uninterpreted; termination of the search and absence of its three guard exceptions are not proved (bounded stand-in c05_sizing on the real code only); "
    "the clause 'nothing is traded only when no unit fits' is proved for the exits before the search and refuted only inside the recorded region of known finding C05-sub-unit-negative-amount-raises-nothing; a search that ends at q == 0 is covered by the bounded stand-in only.",
    "technique": "contract-based deductive verification: VCs from the real AST (pyvc) + z3/cvc5; loop invariant on the sizing search",
}


def replay(o):
    if o.get("replay_inline"):
        return o["replay_inline"]
    from pyvc.concrete import replay_scenario

    return replay_scenario(o)


KNOWN_WITNESS_SRC = """
import json, warnings
import numpy as np, pandas as pd
warnings.filterwarnings("ignore")
import bt
from bt.core import Security, Strategy
idx = pd.date_range("2021-01-04", periods=2)
data = pd.DataFrame({"a": [294.1, 294.1]}, index=idx)
s = Strategy("s", [], children=[Security("a")]); s.setup(data); s.adjust(1e6); s.update(idx[0])
a = s["a"]; c0 = s.capital
a.allocate(-1.0243); s.update(idx[0])
print("JSON:" + json.dumps(dict(still=(a.position == 0 and s.capital == c0), position=float(a.position))))
"""


def known_witness(f):
    if f["id"] != "C05-sub-unit-negative-amount-raises-nothing":
        return None
    from pyvc.replay import Scratch

    with Scratch() as sc:
        d = sc.run_json(KNOWN_WITNESS_SRC, timeout=120)
    return bool(d.get("still"))
