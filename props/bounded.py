"""
Bounded stand-ins: the executable form of the contracts checked at run time on the REAL code
(scratch copy of the working tree, interpreted), on generated inputs.  Labelled bounded in every
evidence file and never counted in obligations/discharged; their violations are real executions.
"""
import json

from pyvc.replay import Scratch


def run_script(task):
    """generic: run props/scripts/<name>.py on the scratch copy with (seed, n); it prints one JSON line"""
    import os

    here = os.path.dirname(os.path.abspath(__file__))
    with open(os.path.join(here, "scripts", task["script"] + ".py")) as f:
        src = f.read()
    src = "SEED=%d\nN=%d\nPARAMS=%r\n" % (task.get("seed", 0), task.get("n", 100), task.get("params", {})) + src
    with Scratch(compiled=bool(task.get("compiled"))) as sc:
        d = sc.run_json(src, timeout=task.get("timeout", 900), env=task.get("env"))
    out = dict(results=[], samples=d.get("samples", [])[:3], violations=[], bounded=dict(name=task["script"], evaluations=d.get("evaluations", 0), distinct_nontrivial=d.get("distinct", 0), rule=d.get("rule", ""), bound=d.get("bound", "")))
    if d.get("error") or d.get("rc", 0) not in (0,) and not d.get("failures"):
        err = str(d.get("stderr") or "")
        frames = [l for l in err.split("\n") if l.strip().startswith("File ")]
        if frames and "/bt/" in frames[-1] and "btscratch" in frames[-1]:
            # the exception was raised inside the library under test on a generated, well-formed input: a real execution that fails
            fl = dict(clause="library-raised-on-a-generated-input", where=frames[-1].strip()[:160], error=err.strip().split("\n")[-1][:200])
            out["violations"].append(dict(id="bounded/%s/library-raised-on-a-generated-input" % task["script"], kind="bounded", props=list(task.get("props", [])), verdict="refuted", backend="real-execution",
                                          secs=0.0, func=task["script"], model=fl, replay_inline=dict(reproduced=True, witness=fl, script=task["script"], seed=task.get("seed", 0))))
            return out
        out["error"] = "bounded script %s failed: %s" % (task["script"], json.dumps(d)[:1500])
        return out
    from pyvc.report import load_known

    open_ids = {f["id"] for f in load_known() if f.get("status", "known") == "known"}
    seen_known = set()
    for fl in d.get("failures", [])[:5]:
        kid = fl.get("finding") if fl.get("finding") in open_ids else None
        if kid:
            if kid in seen_known:
                continue
            seen_known.add(kid)
        out["violations"].append(dict(id="bounded/%s/%s" % (task["script"], fl.get("clause", "clause")), kind="bounded", props=list(task.get("props", [])), verdict="refuted", backend="real-execution",
                                      secs=0.0, func=task["script"], model=fl, replay_inline=dict(reproduced=True, witness=fl, script=task["script"], seed=task.get("seed", 0)), **(dict(known=kid) if kid else {})))
    return out
