"""C04: read confinement of every stock algo (tolerant symbolic execution, see pyvc/tolerant.py)."""
import ast
import time
import traceback

import z3

from pyvc import dsl
from pyvc.dsl import Num, And, Or, Not, Implies
from pyvc.heap import Heap, RefV
from pyvc.state import State, Oblig, Undecided
from pyvc.prover import prove, model_to_dict

ALGOS = [
    "SelectAll", "SelectThese", "SelectHasData", "SelectN", "SelectWhere", "SelectRandomly", "SelectRegex", "ResolveOnTheRun", "SetStat", "StatTotalReturn",
    "WeighEqually", "WeighSpecified", "ScaleWeights", "WeighTarget", "WeighInvVol", "WeighERC", "WeighMeanVar", "WeighRandomly", "LimitDeltas", "LimitWeights",
    "TargetVol", "PTE_Rebalance", "CapitalFlow", "CloseDead", "SetNotional", "Rebalance", "RebalanceOverTime", "SelectTypes", "ClosePositionsAfterDates",
    "RollPositionsAfterDates", "SelectActive", "ReplayTransactions", "SimulateRFQTransactions", "UpdateRisk", "HedgeRisks", "RunIfOutOfBounds",
    "RunPeriod", "RunOnDate", "RunAfterDate", "RunEveryNPeriods",
]


def confinement_task(task):
    from pyvc.source import Program
    from pyvc.tolerant import TolerantExecutor
    from contracts.schema import core_schema
    from contracts import registry
    from contracts.tree import self_facts

    cls = task["cls"]
    meth = task.get("method", "__call__")
    q = "bt.algos.%s.%s" % (cls, meth)
    out = dict(results=[], samples=[], qualname=q)
    t0 = time.time()
    try:
        prog = Program()
        R = registry.build()
        sch = core_schema()
        ex = TolerantExecutor(prog, sch, R["contracts"], inline=R["inline"])
        ex.loop_specs.update({})  # no invariants needed: loop bodies are explored once
        ex.attr_alias = {("SelectN", "n"): "sel_n", ("RebalanceOverTime", "n"): "rot_n", ("SelectRandomly", "n"): "sel_n"}
        fi = prog.func(q)
        out["source_hash"] = fi.source_hash()
        st = State(Heap(sch))
        self = RefV(dsl.fresh_ref("self"), cls)
        target = RefV(dsl.fresh_ref("target"), "Strategy" if meth == "__call__" else "Node")
        ex.clock_target = target
        E = st.heap
        for f in ("lag", "lookback"):
            st.assume(E.get(self, f).r >= 0)  # the property's quantifier: windows look backwards
        st.assume(And(target.term != dsl.NONE, self.term != target.term))
        # W: a strategy that is being run is on its root's date (the global clock)
        st.assume(E.get(target, "now").eq(E.get(E.get(target, "root"), "now")))
        if meth != "__call__":
            # recursion over the tree: the clock is the root's date (non-traded securities may lag behind it)
            ex.clock_target = E.get(target, "root")
            st.assume(ex.clock_target.term != dsl.NONE)
        argnames = [a.arg for a in fi.node.args.args][1:]
        from pyvc.ext_frames import AuxFrameV

        special = {"unit_risk_frame": AuxFrameV(dsl.fresh_ref("unit_risk_frame"))}
        args = [target] + [special.get(a, dsl.fresh_int(a)) for a in argnames[1:]]
        ex.inline.add("bt.algos._get_unit_risk")
        want_kind = "read"
        if task.get("windows"):
            # C15: the estimation window of a risk-based weigher is exactly [now - lag - lookback, now - lag]
            want_kind = "window"
            ex.window_spec = lambda s, owner: (s.heap.get(owner, "now") - E.get(self, "lag") - E.get(self, "lookback"), s.heap.get(owner, "now") - E.get(self, "lag"))
        exits = ex.run_function(fi, st, self, args)
        obligs = []
        seen = set()
        for (s, oc) in exits:
            for o in s.obligs:
                if id(o) not in seen and (o.kind == want_kind):
                    seen.add(id(o))
                    obligs.append(o)
        out["paths"] = len(exits)
        out["read_sites_visited"] = sorted(set(ex.read_sites))
        out["abstracted_statements"] = len(ex.abstracted)
        # every obligation: label <= now
        n_ok = 0
        for o in obligs:
            r = prove(o, timeout_ms=20000)
            d = dict(id=o.id.replace("bt.algos.", ""), kind=want_kind, props=["C15"] if task.get("windows") else ["C04"], verdict=r.verdict, backend=r.backend, secs=round(r.secs, 4), func=q)
            if r.verdict == "refuted":
                d["model"] = model_to_dict(r.model) if r.model is not None else None
                d["info"] = {k: str(v) for k, v in (o.info or {}).items()}
            out["results"].append(d)
        # syntactic cross-check: every label/position indexing site of the method was visited by the executor
        sites = []
        for n in ast.walk(fi.node):
            if isinstance(n, ast.Attribute) and n.attr in ("loc", "iloc", "at", "iat", "ix"):
                sites.append(n.lineno)
        missed = sorted(set(l for l in sites if l not in ex.visited_lines))
        if task.get("windows"):
            out["results"].append(dict(id="%s.%s/takes-a-data-window" % (cls, meth), kind="window", props=["C15"], verdict="proved" if getattr(ex, "window_sites", 0) > 0 else "unknown", backend="ast-scan", secs=0.0, func=q,
                                       reason=None if getattr(ex, "window_sites", 0) > 0 else "no universe.loc[lo:hi] window reached"))
        out["results"].append(dict(id="%s.%s/every-indexing-site-visited" % (cls, meth), kind="read", props=["C15"] if task.get("windows") else ["C04"], verdict="proved" if not missed else "unknown", backend="ast-scan", secs=0.0, func=q,
                                   reason=("unvisited indexing sites at lines %s" % missed) if missed else None))
        out["samples"].append(dict(algo=cls, read_sites=sorted(set(ex.read_sites)), confinement_obligations=len(obligs), abstracted_statements=len(ex.abstracted)))
    except Exception as e:
        out["error"] = "%s\n%s" % (e, traceback.format_exc())
    out["symexec_s"] = round(time.time() - t0, 3)
    return out


def closure_scan(task):
    """no algo reaches the unwindowed data behind the accessors: attribute paths to _universe, _original_data,
    _setup_kwargs, _prices/_values/... of nodes, or node.data (other than its index) are unclassified reads"""
    from pyvc.source import Program

    prog = Program()
    tree = prog.trees["algos"]
    bad = []
    FORBID = {"_universe", "_original_data", "_setup_kwargs", "_funiverse", "_prices", "_values", "_positions", "_notl_values", "_cash", "_fees", "_all_flows", "_outlays", "_bidoffers", "_coupons"}
    for n in ast.walk(tree):
        if isinstance(n, ast.Attribute) and n.attr in FORBID:
            bad.append("%s at line %d" % (ast.unparse(n)[:60], n.lineno))
        if isinstance(n, ast.Attribute) and n.attr == "data" and not (isinstance(getattr(n, "_parent", None), ast.Attribute)):
            pass
    # target.data may only be used for its index (labels, not values)
    for n in ast.walk(tree):
        for ch in ast.iter_child_nodes(n):
            ch._parent = n
    for n in ast.walk(tree):
        if isinstance(n, ast.Attribute) and n.attr == "data" and isinstance(n.value, ast.Name) and n.value.id == "target":
            p = getattr(n, "_parent", None)
            if not (isinstance(p, ast.Attribute) and p.attr == "index"):
                bad.append("target.data used beyond its index at line %d" % n.lineno)
    return dict(results=[dict(id="C04/algos-reach-data-only-through-windowed-accessors", kind="read", props=["C04"], verdict="proved" if not bad else "refuted", backend="ast-scan", secs=0.0, func="bt.algos", model=dict(sites=bad) if bad else None)], samples=[dict(forbidden_paths=sorted(FORBID))])


def setup_clauses(task):
    """StrategyBase.setup, explored with the tolerant executor (pandas construction abstracted): on every normal exit the
    bankrupt flag is reset (C16), a fixed-income strategy under a market-value parent never completes setup (C10), and the
    paper flag is raised exactly for non-root strategies (C09)."""
    from pyvc.source import Program
    from pyvc.tolerant import TolerantExecutor
    from contracts.schema import core_schema
    from contracts import registry

    q = "bt.core.StrategyBase.setup"
    out = dict(results=[], samples=[], qualname=q)
    prog = Program()
    R = registry.build()
    sch = core_schema()
    C = dict(R["contracts"])   # the recursive call paper.setup(...) uses setup's own call-site contract
    ex = TolerantExecutor(prog, sch, C, inline=R["inline"])
    fi = prog.func(q)
    out["source_hash"] = fi.source_hash()
    st = State(Heap(sch))
    self = RefV(dsl.fresh_ref("self"), "StrategyBase")
    E = st.heap
    parent = E.get(self, "parent")
    st.assume(And(self.term != dsl.NONE, parent.term != dsl.NONE))
    E0 = st.heap.copy()
    from pyvc.tolerant import Tainted

    uni = Tainted("universe")
    exits = ex.run_function(fi, st, self, [uni, ])
    out["paths"] = len(exits)
    n_normal = 0
    for (s, oc) in exits:
        if oc.kind == "raise":
            continue
        n_normal += 1
        F = s.heap
        bad_nesting = And(E0.get(self, "_fixed_income"), Not(E0.get(parent, "_fixed_income")))
        isroot = self.term == parent.term
        copies = [x for x in s.log if x[0] == "deepcopy" and x[1].term is self.term or (x[0] == "deepcopy" and z3.is_true(z3.simplify(x[1].term == self.term)))]
        oblist = [
            ("StrategyBase.setup/resets-bankrupt-flag", Not(F.get(self, "bankrupt")), ["C16"]),
            ("StrategyBase.setup/fixed-income-child-of-market-value-parent-never-completes", Not(bad_nesting), ["C10", "C17"]),
            ("StrategyBase.setup/paper-flag-iff-not-root", Implies(self.term != parent.term, F.get(self, "_paper_trade")), ["C09"]),
            # the shadow copy (C09, C19): exactly one deep copy of self is made for a non-root strategy, none for a root
            ("StrategyBase.setup/shadow:one-deep-copy-of-self-iff-not-root", (len(copies) == 1) if False else Implies(Not(isroot), len(copies) == 1) if len(copies) <= 1 else False, ["C09", "C19"]),
            ("StrategyBase.setup/shadow:none-for-a-root", Implies(isroot, len(copies) == 0), ["C09", "C19"]),
        ]
        if len(copies) == 1:
            P = copies[0][2][0]
            calls = [x for x in s.log if len(x) == 4 and x[0] != "deepcopy" and isinstance(x[1], RefV) and z3.is_true(z3.simplify(x[1].term == P.term))]
            names = [x[0].rsplit(".", 1)[1] for x in calls]
            amount = None
            for x in calls:
                if x[0].endswith(".adjust"):
                    amount = x[2][0]
            setup_args = [x for x in calls if x[0].endswith(".setup")]
            kw_same = bool(setup_args) and isinstance(setup_args[0][2][-1], dict) and set(setup_args[0][2][-1].keys()) == {"**"}
            oblist += [
                ("StrategyBase.setup/shadow:is-what-self._paper-holds", F.get(self, "_paper").term == P.term, ["C09"]),
                ("StrategyBase.setup/shadow:is-its-own-parent-and-the-root-of-its-subtree", And(F.get(P, "parent").term == P.term, F.get(P, "root").term == P.term, "_set_root" in names), ["C09", "C19"]),
                ("StrategyBase.setup/shadow:is-not-itself-paper-traded", Not(F.get(P, "_paper_trade")), ["C09"]),
                ("StrategyBase.setup/shadow:set-up-then-funded-once-each-in-this-order", [n for n in names if n in ("setup", "adjust")] == ["setup", "adjust"], ["C09"]),
                ("StrategyBase.setup/shadow:set-up-on-the-same-universe-and-kwargs", bool(setup_args) and (setup_args[0][2][0] is uni or getattr(setup_args[0][2][0], "field", None) == "_original_data") and kw_same, ["C09", "C04"]),
                ("StrategyBase.setup/shadow:funded-with-the-fixed-notional-one-million", amount is not None and And(value_same_num(amount, F.get(self, "_paper_amount")), F.get(self, "_paper_amount").eq(1000000)), ["C09"]),
            ]
        for oid, goal, props in oblist:
            o = Oblig(oid, s.pc, goal, "post", tuple(props))
            r = prove(o, timeout_ms=20000)
            d = dict(id=oid, kind="post", props=props, verdict=r.verdict, backend=r.backend + " (tolerant execution)", secs=round(r.secs, 4), func=q)
            if r.verdict == "refuted":
                d["model"] = model_to_dict(r.model) if r.model is not None else None
            out["results"].append(d)
    if n_normal == 0:
        out["results"].append(dict(id="StrategyBase.setup/has-a-normal-exit", kind="post", props=["C16"], verdict="unknown", backend="tolerant", secs=0.0, func=q, reason="no normal exit explored"))
    out["abstracted_statements"] = len(ex.abstracted)
    out["samples"].append(dict(function=q, normal_exits=n_normal, abstracted=len(ex.abstracted)))
    return out


TIME_MOVERS = {"shift", "tshift", "reindex", "reindex_like", "ffill", "bfill", "pad", "backfill", "fillna", "interpolate", "resample", "asfreq", "align", "rolling", "expanding", "ewm",
               "diff", "pct_change", "cumsum", "cumprod", "cummax", "cummin", "combine_first", "merge", "merge_asof", "join", "update", "where", "mask", "replace", "sort_index", "sort_values",
               "truncate", "last", "first", "tail", "head", "searchsorted", "asof", "set_index", "reset_index", "iloc", "loc", "at", "iat", "mean", "sum", "max", "min"}
DATE_AXIS_REDUCERS = {"any", "all", "count", "nunique", "notna", "isna", "isnull", "notnull", "dropna", "idxmax", "idxmin", "first_valid_index", "last_valid_index", "std", "var", "median", "describe", "prod"}
INSTALLER_OK = {"DataFrame", "Series", "concat", "copy", "equals", "DateOffset", "any", "duplicated", "tolist", "setup", "adjust", "_process_data", "set_commissions", "use_integer_positions", "_set_root", "pop", "get", "items", "keys", "values", "append", "format"}
INSTALLERS = ("bt.core.StrategyBase.setup", "bt.core.SecurityBase.setup", "bt.core.CouponPayingSecurity.setup", "bt.backtest.Backtest._process_data", "bt.backtest.Backtest.__init__")


def value_same_num(a, b):
    from pyvc.contracts import value_same

    return value_same(Num.lift(a) if not isinstance(a, Num) else a, b)


def installer_scan(task):
    """the functions that install the caller's frames into the tree (prices, bid/offer, coupons, holding costs, extra data)
    store them date-for-date: no method that moves, fills or aggregates values along the date axis is applied, label/position
    indexers are not used, and frames whose index differs from the price index are refused (raise) rather than aligned.
    AST obligation, decided on the real source on every run; a method outside both lists leaves the obligation undecided."""
    from pyvc.source import Program

    prog = Program()
    res = []
    for q in INSTALLERS:
        fn = prog.func(q).node
        movers, unknown = [], []
        def on_labels(x):
            """is the receiver chain rooted in the labels of a frame (.columns / .index) rather than in its values?"""
            while isinstance(x, (ast.Attribute, ast.Call, ast.Subscript)):
                if isinstance(x, ast.Attribute) and x.attr in ("columns", "index"):
                    return True
                x = x.func if isinstance(x, ast.Call) else x.value
            return False

        for n in ast.walk(fn):
            if isinstance(n, ast.Attribute) and n.attr in TIME_MOVERS:
                movers.append("%s at line %d" % (ast.unparse(n)[:70], n.lineno))
            elif isinstance(n, ast.Call) and isinstance(n.func, ast.Attribute) and n.func.attr in DATE_AXIS_REDUCERS and not on_labels(n.func.value):
                # a reduction over a frame's values runs along the date axis: whatever it decides at setup depends on every date, later ones included
                movers.append("%s at line %d (reduces over all dates)" % (ast.unparse(n.func)[:70], n.lineno))
            elif isinstance(n, ast.Call) and isinstance(n.func, ast.Attribute) and n.func.attr not in INSTALLER_OK and n.func.attr not in TIME_MOVERS and n.func.attr not in DATE_AXIS_REDUCERS:
                unknown.append("%s at line %d" % (ast.unparse(n.func)[:70], n.lineno))
        name = q.split(".", 2)[-1]
        verdict = "refuted" if movers else ("unknown" if unknown else "proved")
        res.append(dict(id="%s/installs-input-frames-date-for-date" % name, kind="read", props=["C04"], verdict=verdict, backend="ast-scan", secs=0.0, func=q,
                        model=dict(sites=movers) if movers else None, reason=("unclassified method(s): %s" % unknown) if (unknown and not movers) else None))
    # guards: a bid/offer or coupon frame on a different index is refused (raise), never aligned
    for q, fr in (("bt.core.SecurityBase.setup", "bidoffers"), ("bt.core.CouponPayingSecurity.setup", "coupons"),
                  ("bt.core.CouponPayingSecurity.setup", "cost_long"), ("bt.core.CouponPayingSecurity.setup", "cost_short")):    # the cost tables: after fix F20
        fn = prog.func(q).node
        name = q.split(".", 2)[-1]
        ok = False
        uni = fn.args.args[1].arg                                   # the price frame parameter
        field = "self._%s" % fr
        # locals that hold the frame under test: assigned into self._<frame> (or it is that attribute itself); no spelling of a local is assumed
        holders = {field} | {ast.unparse(a.value) for a in ast.walk(fn) if isinstance(a, ast.Assign) and isinstance(a.value, ast.Name) and any(ast.unparse(t) == field for t in a.targets)}
        # ... or a loop variable running over a literal tuple / list that contains the attribute
        holders |= {a.target.id for a in ast.walk(fn) if isinstance(a, ast.For) and isinstance(a.target, ast.Name) and isinstance(a.iter, (ast.Tuple, ast.List)) and any(ast.unparse(e) == field for e in a.iter.elts)}

        def is_present_test(t):
            return isinstance(t, ast.Compare) and len(t.ops) == 1 and isinstance(t.ops[0], ast.IsNot) and isinstance(t.comparators[0], ast.Constant) and t.comparators[0].value is None and ast.unparse(t.left) in holders
        for n in ast.walk(fn):
            if isinstance(n, ast.If):
                def is_guard(t):
                    return (isinstance(t, ast.Call) and isinstance(t.func, ast.Attribute) and t.func.attr == "equals" and isinstance(t.func.value, ast.Attribute)
                            and t.func.value.attr == "index" and ast.unparse(t.func.value.value) in holders and len(t.args) == 1 and ast.unparse(t.args[0]) == uni + ".index")

                def polarity(t):
                    """'neg': a mismatch makes the test true (body runs); 'pos': a mismatch makes it false (orelse runs); None: no guard"""
                    if is_guard(t):
                        return "pos"
                    if isinstance(t, ast.UnaryOp) and isinstance(t.op, ast.Not):
                        p = polarity(t.operand)
                        return {"pos": "neg", "neg": "pos"}.get(p)
                    if isinstance(t, ast.BoolOp):
                        want = "neg" if isinstance(t.op, ast.Or) else "pos"    # one true disjunct decides an `or`, one false conjunct an `and`
                        if any(polarity(v) == want for v in t.values):
                            return want
                        # `table is not None and not table.index.equals(...)`: a PRESENT table on another index makes the test true
                        if isinstance(t.op, ast.And) and any(polarity(v) == "neg" for v in t.values) and all(polarity(v) == "neg" or is_present_test(v) for v in t.values):
                            return "neg"
                        return None
                    return None

                pol = polarity(n.test)
                neg = pol == "neg"
                if pol is not None:
                    mismatch = n.body if neg else n.orelse
                    if any(isinstance(x, ast.Raise) for b in mismatch for x in ast.walk(b)):
                        ok = True
        res.append(dict(id="%s/%s-on-a-different-index-is-refused" % (name, fr), kind="read", props=["C04", "C10"], verdict="proved" if ok else "refuted", backend="ast-scan", secs=0.0, func=q,
                        model=None if ok else dict(reason="no 'index.equals(universe.index)' guard that raises on mismatch")))
    # the synthetic pre-start row glued in front of a frame is built from THAT frame's own columns and first date (a row with other columns would add
    # all-NaN columns for tickers the frame does not cover, which then count as "quoted": NaN spreads / costs instead of none)
    fn = prog.func("bt.backtest.Backtest._process_data").node
    once = {}
    for n in ast.walk(fn):
        if isinstance(n, ast.Assign) and len(n.targets) == 1 and isinstance(n.targets[0], ast.Name):
            once.setdefault(n.targets[0].id, []).append(n.value)
    glued, wrong = 0, []
    for n in ast.walk(fn):
        if isinstance(n, ast.Call) and isinstance(n.func, ast.Attribute) and n.func.attr == "concat" and n.args and isinstance(n.args[0], (ast.List, ast.Tuple)) and len(n.args[0].elts) == 2:
            row, frame = n.args[0].elts
            if isinstance(row, ast.Name) and len(once.get(row.id, [])) >= 1:
                cands = once[row.id]
                # the assignment that precedes this concat in the source
                row = max([c for c in cands if c.lineno <= n.lineno], key=lambda c: c.lineno, default=cands[0])
            if not (isinstance(frame, ast.Name) and isinstance(row, ast.Call) and isinstance(row.func, ast.Attribute) and row.func.attr in ("DataFrame", "Series")):
                continue
            glued += 1
            kws = {k.arg: k.value for k in row.keywords}
            cols, ind = kws.get("columns"), kws.get("index")
            if cols is not None and ast.unparse(cols) != frame.id + ".columns":
                wrong.append("row of columns %s in front of %s (line %d)" % (ast.unparse(cols), frame.id, n.lineno))
            names_in_index = {x.id for x in ast.walk(ind) if isinstance(x, ast.Name)} if ind is not None else set()
            if ind is not None and (frame.id not in names_in_index or (names_in_index - {frame.id, "pd", "np"})):
                wrong.append("row dated from %s in front of %s (line %d)" % (ast.unparse(ind)[:60], frame.id, n.lineno))
    res.append(dict(id="Backtest._process_data/pre-start-row-has-the-columns-and-first-date-of-the-frame-it-is-glued-to", kind="read", props=["C10", "C04", "C11"], verdict=("refuted" if wrong else ("proved" if glued else "unknown")),
                    backend="ast-scan", secs=0.0, func="bt.backtest.Backtest._process_data", model=dict(sites=wrong) if wrong else None, reason=None if glued else "no pd.concat([row, frame]) found"))
    # stores into a history series go through `.array[i]` (F1): under the installed pandas (3.x, copy-on-write) `Series.values` is a read-only view and
    # `X.values[i] = v` raises "assignment destination is read-only" - on whatever path it sits, also one the generated runs do not reach
    ro = []
    for q2, fi2 in sorted(prog.functions.items()):
        for a in ast.walk(fi2.node):
            tgts = a.targets if isinstance(a, ast.Assign) else ([a.target] if isinstance(a, ast.AugAssign) else [])
            for tg in tgts:
                if isinstance(tg, ast.Subscript) and isinstance(tg.value, ast.Attribute) and tg.value.attr == "values":
                    ro.append("%s line %d: %s = ..." % (q2.split(".", 2)[-1], a.lineno, ast.unparse(tg)[:60]))
    res.append(dict(id="no-store-through-the-read-only-values-view-of-a-series", kind="read", props=["C10"], verdict="refuted" if ro else "proved", backend="ast-scan", secs=0.0, func="bt.core",
                    model=dict(sites=ro) if ro else None))
    # the universe handed to the algos is the window up to now, cached per date (`_funiverse` under the key `_last_chk`): every function of the tree
    # that stores a frame into the cache either stores the window cut at self.now under the key self.now, or drops the key (None) so that the next
    # read cuts it again - a full frame left under a live key is served to the algos with every later row in it
    sites, stores = [], 0
    for q2, fi2 in sorted(prog.functions.items()):
        if not q2.startswith("bt.core."):
            continue
        fn2 = fi2.node
        asg = [a for a in ast.walk(fn2) if isinstance(a, ast.Assign) and any(ast.unparse(t) == "self._funiverse" for t in a.targets)]
        if not asg:
            continue
        keys = [ast.unparse(a.value) for a in ast.walk(fn2) if isinstance(a, ast.Assign) and any(ast.unparse(t) == "self._last_chk" for t in a.targets)]
        for a in asg:
            stores += 1
            v = a.value
            window = (isinstance(v, ast.Subscript) and isinstance(v.value, ast.Attribute) and v.value.attr == "loc" and isinstance(v.slice, ast.Slice) and v.slice.lower is None
                      and v.slice.upper is not None and ast.unparse(v.slice.upper) == "self.now" and v.slice.step is None)
            if window and "self.now" in keys and len(set(keys)) == 1:
                continue
            if (not window) and keys and set(keys) == {"None"}:
                continue
            sites.append("%s line %d: self._funiverse = %s with cache key %s" % (q2.split(".", 2)[-1], a.lineno, ast.unparse(v)[:60], keys or "left as it was"))
    res.append(dict(id="StrategyBase/universe-cache-holds-the-window-up-to-now-or-no-key", kind="read", props=["C04"], verdict=("refuted" if sites else ("proved" if stores else "unknown")), backend="ast-scan", secs=0.0,
                    func="bt.core.StrategyBase.universe", model=dict(sites=sites) if sites else None, reason=None if stores else "no store into self._funiverse found"))
    return dict(results=res, samples=[dict(installers=list(INSTALLERS))])
