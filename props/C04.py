"""C04 - No look-ahead: results up to a date ignore all later data"""
from pyvc.runner import func
from props.c04_tasks import ALGOS
from contracts.core_getters import GETTERS

ID = "C04"
META = {
    "assumptions": ["A-DET", "A-TIME", "A-PANDAS", "A-T", "A-IND", "A-SOLVER", "A-ENGINE"],
    "explanation": "Reduction to read confinement (DESIGN 4 C04): if during the step at `now` every read of supplied time-indexed data is at a label <= now and the step is a deterministic function of what it reads, "
    "then by induction over the date loop everything recorded up to t is a function of data dated <= t. Proved here: (1) StrategyBase.universe hands out exactly the rows <= now (real getter body, cache consistency included); "
    "(2) every history accessor returns the node's own series cut at its date; (3) every security update depends only on the current row of prices / spreads / coupons / holding costs (non-interference lemma over the functional specs "
    "the bodies are proved against); (4) for EVERY stock algo, tolerant symbolic execution of the real __call__ (unmodelled statements abstracted, values derived from unwindowed frames tainted) generates one obligation label <= now per read "
    "of an unwindowed frame (signal/stat/target-weight/notional frames, unit-risk tables, transaction blotters) under lag >= 0, lookback >= 0 - all discharged - and flags any indexing the model cannot classify; (5) no algo reaches the raw "
    "data behind the accessors (AST closure scan); (6) Backtest.run feeds the dates one at a time in index order. Bounded stand-in: later data perturbed on real runs, earlier records compared byte for byte.",
}
MANIFEST_ENTRY = {
    "level_text": "Deductive proof of read confinement at every read site of every stock algo and of the accessors/updates they read through, for all dates, lags, lookbacks and data; the step from confinement to bit-for-bit "
    "non-interference is the induction of DESIGN 4 (C04) over the proved Backtest.run loop, resting on determinism of the algos (A-DET).",
    "level_note": "DateOffsets are non-negative integers (A-TIME): month arithmetic is not modelled, only that windows look backwards; statements the Series algebra does not model are abstracted (sound for locating reads, see pyvc/tolerant.py), "
    "frames indexed by security name (close dates, roll data) are selected by name, not by date; reads of the calendar itself (next label in end-of-period mode) read labels, not values; determinism of user callables/ffn is assumed.",
    "technique": "contract-based deductive verification: read-site obligations (label <= now) from tolerant symbolic execution of the real algos + proved accessor/update contracts + z3; AST closure scan; bounded perturbation stand-in",
}


def _tasks_core(tier, seed):
    ts = [dict(kind="custom", module="props.c04_tasks", fn="confinement_task", cls=c) for c in ALGOS]
    ts.append(dict(kind="custom", module="props.c04_tasks", fn="confinement_task", cls="UpdateRisk", method="_set_risk_recursive"))
    ts.append(dict(kind="custom", module="props.c04_tasks", fn="closure_scan"))
    ts.append(dict(kind="custom", module="props.c04_tasks", fn="installer_scan"))
    ts.append(dict(kind="custom", module="props.lemmas", fn="c04_security_reads_current_row"))
    ts.append(func("bt.core.StrategyBase.universe"))
    ts.append(func("bt.backtest.Backtest.run"))
    for (cls, g), (kind, field, series) in GETTERS.items():
        if series and not (cls, g) == ("StrategyBase", "cash"):
            ts.append(func("bt.core.%s.%s" % (cls, g)))
    ts.append(dict(kind="custom", module="props.bounded", fn="run_script", script="c04_lookahead", seed=seed, n=8 if tier == "quick" else 120, props=["C04"]))
    return ts


def post(results, tier, seed):
    b = [r["bounded"] for r in results if r.get("bounded")]
    sites = {}
    for r in results:
        if r.get("read_sites_visited") is not None:
            sites[r["qualname"]] = dict(read_sites=r["read_sites_visited"], abstracted_statements=r.get("abstracted_statements"))
    return dict(read_sites_by_algo=sites), dict(bounded_stand_ins=b, bounded_note="real runs on the interpreted scratch copy; never counted in obligations/discharged")


def replay(o):
    return o.get("replay_inline")


# functions under contract elsewhere whose obligations carry this property's tag as well (found by tools/tagaudit.py): run here too, so that a change
# which breaks one of them is reported by this check and not only by a neighbour
def tasks(tier, seed):
    return _tasks_core(tier, seed) + [
        func("bt.core.SecurityBase.update"),
        func("bt.core.FixedIncomeSecurity.update"),
        func("bt.core.CouponPayingSecurity.update"),
        func("bt.algos.SelectAll.__call__"),
        func("bt.algos.SelectHasData.__call__"),
        func("bt.algos.SelectThese.__call__"),
        func("bt.algos.SelectWhere.__call__"),
        func("bt.algos.SelectRandomly.__call__", variant="no-n"),
        func("bt.algos.SelectRandomly.__call__", variant="with-n"),
        func("bt.algos.SetNotional.__call__"),
        func("bt.algos.SetStat.__call__"),
        func("bt.algos.StatTotalReturn.__call__"),
        func("bt.algos.WeighTarget.__call__"),
        func("bt.core.StrategyBase.cash"),
    ]
