"""C01 - Balance-sheet identity holds at every node of the tree"""
from pyvc.runner import func

UPDATE_ALL = [func("bt.core.StrategyBase.update", variant=v) for v in ("flat", "paper", "nested", "nested-paper")]

from contracts.core_getters import getter_tasks

GETTER_TASKS = getter_tasks()

ID = "C01"
META = {
    "assumptions": ['A-REAL', 'A-COMM', 'A-T', 'A-IND', 'A-CYTHON', 'A-SOLVER', 'A-ENGINE'],
    "explanation": "StrategyBase.update proved to establish, at the node it is called on: value == cash + sum of active children's values (exact on a new date, within the code's own is_zero otherwise), notional == sum |child notional|, every active child's weight == value/parent value (notional analogue; 0 on a zero base), rows at the current index equal the scalars; children loop cut at invariants over ghost sums (unbounded width); each security update override proved against a functional spec giving value == position*price*multiplier (0 with NaN price and flat position) and the row writes. Depth by modular recursion (A-IND).",
}
MANIFEST_ENTRY = {
    "level_text": "Deductive proof for all tree widths, prices, positions, capital, commission functions and spreads that update() establishes the three identities of the statement and the row/scalar agreement at the node it runs on, that every security class's update establishes value = position x price x multiplier, and that transact/adjust change exactly the fields their specs name.",
    "level_note": "Reals not floats (A-REAL); inactive flat securities (skipped by the needupdate shortcut) are excluded from the sum, their |position| < 1e-16 is invariant W; whole-tree statement rests on modular recursion (A-IND) and tree invariant T (A-T).",
    "technique": "contract-based deductive verification: VCs from the real AST (pyvc) discharged by z3/cvc5; loop invariants with ghost sums; lemmas over contract clauses",
}


def tasks(tier, seed):
    return [
        *[func(q) for q in GETTER_TASKS],
        func("bt.core.StrategyBase.flatten"),
        # "whenever a tree is observed": an observation refreshes a tree only if the mutation before it left root.stale set (or updated) - for every amount, zero included
        func("bt.core.StrategyBase.adjust"),
        func("bt.core.SecurityBase.transact"),
        *UPDATE_ALL,
        func("bt.core.SecurityBase.update"),
        func("bt.core.FixedIncomeSecurity.update"),
        func("bt.core.CouponPayingSecurity.update"),
        func("bt.core.HedgeSecurity.update"),
        func("bt.core.CouponPayingHedgeSecurity.update"),
        dict(kind="custom", module="props.bounded", fn="run_script", script="c01_identity", seed=seed, n=40 if tier == "quick" else 1500, props=["C01"]),
    ]


def post(results, tier, seed):
    b = [r["bounded"] for r in results if r.get("bounded")]
    return None, dict(bounded_stand_ins=b, bounded_note="random operation histories on real trees (direct API), observed at random points; never counted in obligations/discharged")


def replay(o):
    from pyvc.concrete import replay_scenario

    return replay_scenario(o)


KNOWN_WITNESS_SRC = """
import json, warnings
import numpy as np, pandas as pd
warnings.filterwarnings("ignore")
import bt
from bt.core import Strategy
idx = pd.date_range("2021-01-04", periods=3)
data = pd.DataFrame({"a": [100.0, 100.0, 100.0]}, index=idx)
s = Strategy("s", [], children=["a"]); s.setup(data)
s.adjust(1000.0); s.update(idx[0])
s.update(idx[1])
s.adjust(500.0)          # a change made after the last update of the date, never read ...
s.update(idx[2])         # ... and the clock moves on
v = [float(x) for x in s.values.values]; f = [float(x) for x in s.flows.values]
# end-of-date state of idx[1] was: cash 1500 (capital), hence value 1500 with a flow of 500 recorded that date
print("JSON:" + json.dumps(dict(still=(v[1] != 1500.0 or f[1] != 500.0), values=v, flows=f, prices=[float(x) for x in s.prices.values])))
"""


KNOWN_WITNESS_ATTACH_SRC = """
import json, warnings
import numpy as np, pandas as pd
warnings.filterwarnings("ignore")
import bt
from bt.core import StrategyBase
idx = pd.date_range("2021-01-04", periods=3)
data = pd.DataFrame({"a": [100.0, 100.0, 100.0]}, index=idx)
s = StrategyBase("s"); s.setup(data); s.update(idx[0])
s.adjust(1000.0)                      # pending: the tree is marked stale
StrategyBase("n", parent=s)           # a node attached to the live tree (the dynamic-strategy pattern) ...
flag = bool(s.root.stale)
v, c = float(s.value), float(s.capital)      # ... and the next read is served from the cache: value 0 with 1000 of cash
print("JSON:" + json.dumps(dict(still=(not flag and v != c), stale=flag, value=v, cash=c)))
"""

KNOWN_WITNESSES = {"C01-pending-change-lost-when-the-date-moves": KNOWN_WITNESS_SRC, "C01-attaching-a-node-clears-the-pending-flag": KNOWN_WITNESS_ATTACH_SRC}


def known_witness(f):
    """replays the recorded failing history of a known finding on the current tree (real code)"""
    if f["id"] not in KNOWN_WITNESSES:
        return None
    from pyvc.replay import Scratch

    with Scratch() as sc:
        d = sc.run_json(KNOWN_WITNESSES[f["id"]], timeout=120)
    return bool(d.get("still"))
