"""C16 - Bankruptcy is detected, clean and terminal"""
from pyvc.runner import func

UPDATE_ALL = [func("bt.core.StrategyBase.update", variant=v) for v in ("flat", "paper", "nested", "nested-paper")]

ID = "C16"
META = {
    "assumptions": ['A-REAL', 'A-COMM', 'A-T', 'A-IND', 'A-DATA-NONE', 'A-CYTHON', 'A-SOLVER', 'A-ENGINE'],
    "explanation": 'update proved to flag bankruptcy only at a market-value root whose recomputed value is strictly negative (beyond is_zero) and not already flagged, and never otherwise: every non-flattening exit leaves the flag unchanged and has no negative market-value root value.',
}
MANIFEST_ENTRY = {
    "level_text": 'Deductive proof of the flag condition (both directions) on all exits of update.',
    "level_note": "Reals not floats; liquidation (flatten/close/allocate(-value)) and the terminal behaviour of Backtest.run are not yet under contract.",
    "technique": "contract-based deductive verification: VCs from the real AST (pyvc) discharged by z3/cvc5; loop invariants with ghost sums; lemmas over contract clauses",
}


def tasks(tier, seed):
    return [
        func("bt.backtest.Backtest.run"),
        func("bt.core.StrategyBase.flatten"),
        *UPDATE_ALL,
    ]


def replay(o):
    from pyvc.concrete import replay_scenario

    return replay_scenario(o)
