"""C16 - Bankruptcy is detected, clean and terminal"""
from pyvc.runner import func

UPDATE_ALL = [func("bt.core.StrategyBase.update", variant=v) for v in ("flat", "paper", "nested", "nested-paper")]

ID = "C16"
META = {
    "assumptions": ['A-REAL', 'A-COMM', 'A-T', 'A-IND', 'A-CYTHON', 'A-SOLVER', 'A-ENGINE'],
    "explanation": 'update proved to flag bankruptcy only at a market-value root whose recomputed value is strictly negative (beyond is_zero) and not already flagged, and never otherwise: every non-flattening exit leaves the flag unchanged and has no negative market-value root value; after a liquidation no change stays pending once a child is read (the rows of the date are re-recorded); flatten proved to close every priced security child (close-out clause of allocate) and to mark the root stale; setup proved to reset the flag; Backtest.run proved not to run the algos once the flag is set.',
}
MANIFEST_ENTRY = {
    "level_text": 'Deductive proof of the flag condition (both directions) on all exits of update.',
    "level_note": "Reals not floats; flatten's close-out loops are proved for one level of liquidation (sub-strategies without grandchildren); for deeper trees the pre-loop is proved to hand every sub-strategy that has children to its own flatten() exactly once whatever its value (the recursive call through flatten's own contract, A-IND) and the bounded nested stand-in runs real nested trees; float-level behaviour (TOL = 1e-16) only in the bounded stand-in.",
    "technique": "contract-based deductive verification: VCs from the real AST (pyvc) discharged by z3/cvc5; loop invariants with ghost sums; lemmas over contract clauses",
}


def tasks(tier, seed):
    nb = 120 if tier == "quick" else 1500
    return [
        dict(kind="custom", module="props.bounded", fn="run_script", script="c16_bankruptcy", seed=seed, n=nb, props=["C16"], params={"nested": False}),
        dict(kind="custom", module="props.bounded", fn="run_script", script="c16_bankruptcy", seed=seed, n=nb, props=["C16"], params={"nested": True}),
        dict(kind="custom", module="props.c04_tasks", fn="setup_clauses"),
        func("bt.backtest.Backtest.run"),
        func("bt.core.StrategyBase.flatten"),
        func("bt.core.StrategyBase.flatten", variant="subs"),     # nested trees: every sub-strategy that has children is handed to its own flatten(), whatever its value
        func("bt.core.StrategyBase.close"),
        *UPDATE_ALL,
    ]


def replay(o):
    if o.get("replay_inline"):
        return o["replay_inline"]
    from pyvc.concrete import replay_scenario

    return replay_scenario(o)


def post(results, tier, seed):
    b = [r["bounded"] for r in results if r.get("bounded")]
    return None, dict(bounded_stand_ins=b, bounded_note="real runs on the interpreted scratch copy; never counted in obligations/discharged")
