"""C03 - Price index is a flow-neutral return index starting at 100"""
from pyvc.runner import func

UPDATE_ALL = [func("bt.core.StrategyBase.update", variant=v) for v in ("flat", "paper", "nested", "nested-paper")]

ID = "C03"
META = {
    "assumptions": ['A-REAL', 'A-COMM', 'A-T', 'A-IND', 'A-CYTHON', 'A-SOLVER', 'A-ENGINE'],
    "explanation": "update proved to reset net flows / last value / last price exactly on a date change and to set price' = last_price*(1 + value/(last_value+net_flows) - 1) whenever the value, the notional value or the date's flows moved since the last update of the date (clause taken from the property, refuted by the code before fix c60ffe2), to leave the price unchanged otherwise, and to raise ZeroDivisionError exactly on a zero base with non-zero value; adjust proved to add to net flows iff flow; trades proved never to touch net flows; algebraic lemmas (pure flow leaves the index, fees and P&L move it, scale invariance, first row 100) from the recurrence clause.",
}
MANIFEST_ENTRY = {
    "level_text": 'Deductive proof of the recurrence, the resets and the flow accounting for all inputs; flow-neutrality and scale-invariance as lemmas over the proved recurrence.',
    "level_note": "Reals not floats; Backtest.run's opening call order (setup; adjust(initial capital) as a flow; update(dates[0])) is proved on its body; scale invariance through SecurityBase.allocate's isclose exit (absolute 1e-8) is not homogeneous and not claimed; the bounded stand-in c03_index replays random histories (flows, non-flow adjustments, an inflow with an equal loss, allocations, redundant updates, capital multiples) on real objects.",
    "technique": "contract-based deductive verification: VCs from the real AST (pyvc) discharged by z3/cvc5; loop invariants with ghost sums; lemmas over contract clauses",
}


def _tasks_core(tier, seed):
    return [
        func("bt.backtest.Backtest.run"),
        *UPDATE_ALL,
        func("bt.core.StrategyBase.adjust"),
        func("bt.core.StrategyBase.rebalance"),     # scale invariance: a non-zero target always trades weight x base minus the holding, whatever the size (no currency threshold)
        dict(kind="custom", module="props.lemmas", fn="c03_index_lemmas"),
        dict(kind="custom", module="props.lemmas", fn="c07_trade_lemmas"),
        dict(kind="custom", module="props.bounded", fn="run_script", script="c03_index", seed=seed, n=40 if tier == "quick" else 1500, props=["C03"]),
    ]


def post(results, tier, seed):
    b = [r["bounded"] for r in results if r.get("bounded")]
    return None, dict(bounded_stand_ins=b, bounded_note="real operation histories on the interpreted scratch copy (float level, scale invariance, placement of redundant updates); never counted in obligations/discharged")


def replay(o):
    from pyvc.concrete import replay_scenario

    return replay_scenario(o)


# functions under contract elsewhere whose obligations carry this property's tag as well (found by tools/tagaudit.py): run here too, so that a change
# which breaks one of them is reported by this check and not only by a neighbour
def tasks(tier, seed):
    return _tasks_core(tier, seed) + [
        func("bt.core.StrategyBase.allocate"),
        func("bt.core.SecurityBase.transact"),       # what a trade costs - spread, custom-price slippage, commission - is never booked as a flow
    ]
