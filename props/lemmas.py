"""
Lemma VCs: statements of the properties that follow from contract clauses alone (no code).  Each
lemma names the clause(s) it rests on; the clauses themselves are proved against the real bodies by
the function tasks of the same check.
"""
import z3

from pyvc import dsl
from pyvc.dsl import Num, And, Or, Not, Implies, ite, absv, is_zero, isnan, eq, ne
from pyvc.heap import Heap, RefV, Opt, map_same, map_equal
from pyvc.state import SpecState, Oblig
from pyvc.prover import prove, model_to_dict
from contracts.schema import core_schema
from contracts import core_sec as cs

TOL = Num.lift(dsl.TOL)


def _res(out, oid, props, hyps, goal, kind="lemma", rests_on=None):
    o = Oblig(oid, hyps, goal, kind, props)
    r = prove(o)
    d = dict(id=oid, kind=kind, props=list(props), verdict=r.verdict, backend=r.backend, secs=round(r.secs, 4), func="lemma")
    if r.verdict == "refuted":
        d["model"] = model_to_dict(r.model) if r.model is not None else None
    if r.verdict == "unknown":
        d["reason"] = r.reason
    if rests_on:
        d["info"] = dict(rests_on=rests_on)
    out["results"].append(d)


def R(n):
    return z3.Real(n)


# ------------------------------------------------------------------------------------------- C03
def c03_index_lemmas(task):
    """from the recurrence clause  price' = last_price * (1 + (V/(L+F) - 1))  of StrategyBase.update"""
    out = dict(results=[], samples=[])
    lp, V, L, F, a, fee, k = R("last_price"), R("V"), R("last_value"), R("net_flows"), R("a"), R("fee"), R("k")
    price = lambda V_, L_, F_: lp * (1 + (V_ / (L_ + F_) - 1))
    base = [L + F != 0]
    on = "StrategyBase.update/index:recurrence"
    # the recurrence is the stated formula  price[t] = price[t-1] * value[t] / (value[t-1] + flows[t])
    _res(out, "C03/lemma/recurrence-is-value-over-base", ("C03",), base, price(V, L, F) == lp * V / (L + F), rests_on=on)
    # a flow (any amount, any sign) on a date with no other value change leaves the index where it was
    _res(out, "C03/lemma/pure-flow-does-not-move-index", ("C03",), base + [V == L + F], price(V, L, F) == lp, rests_on=on)
    # injecting a as a flow raises value and base together: the period return is computed on the enlarged base
    _res(out, "C03/lemma/flow-enters-numerator-and-base", ("C03",), base + [L + F + a != 0], price(V + a, L, F + a) == lp * (V + a) / (L + F + a), rests_on=on)
    # a fee (or any non-flow adjustment) with nothing else moves the index
    _res(out, "C03/lemma/fee-moves-index", ("C03",), base + [V == L + F - fee, fee != 0, lp != 0], price(V, L, F) != lp, rests_on=on)
    # P&L moves the index
    _res(out, "C03/lemma/pnl-moves-index", ("C03",), base + [V != L + F, lp != 0], price(V, L, F) != lp, rests_on=on)
    # scale invariance: all money quantities multiplied by k > 0 give the same index
    _res(out, "C03/lemma/scale-invariance-of-recurrence", ("C03",), base + [k > 0], price(k * V, k * L, k * F) == price(V, L, F), rests_on=on)
    # index starts at PAR: __init__ sets _price = _last_price = PAR; first update (now == 0) has L = 0, F = initial capital, V = F
    _res(out, "C03/lemma/first-row-is-par", ("C03",), [F != 0, L == 0, V == F, lp == 100], price(V, L, F) == 100, rests_on=on + " + StrategyBase.__init__/price-is-PAR")
    out["samples"].append(dict(lemma="pure flow: V == L+F  =>  price' == last_price", rests_on=on))
    return out


def _sec_state():
    sch = core_schema()
    h = Heap(sch)
    sec = RefV(dsl.fresh_ref("sec"), "SecurityBase")
    return sch, h, sec


# ------------------------------------------------------------------------------------------- C02 / C07: one trade
def c07_trade_lemmas(task):
    """per-trade sentences of C07/C02 from the functional specs of transact/outlay/adjust"""
    out = dict(results=[], samples=[])
    sch, h, sec = _sec_state()
    S0 = SpecState(h.copy())
    parent = S0.get(sec, "parent")
    root = S0.get(parent, "root")
    q = dsl.fresh_real("q")
    price = Opt(dsl.fresh_bool("price_none"), dsl.fresh_real("p"))
    upd = dsl.fresh_bool("update")
    # T / W instance
    hyps = [
        parent.term != sec.term, root.term != sec.term, Not(is_zero(q)),
        Not(S0.get(sec, "_needupdate")), S0.get(sec, "now").eq(S0.get(parent, "now")) if False else True,
    ]
    hyps = [z3.BoolVal(x) if isinstance(x, bool) else x for x in hyps]
    for f in ("_price", "multiplier", "_bidoffer", "_position", "_outlay", "_bidoffer_paid"):
        hyps.append(Not(isnan(S0.get(sec, f))))
    for f in ("_capital", "_last_fee", "_net_flows"):
        hyps.append(Not(isnan(S0.get(parent, f))))
    S1 = SpecState(h.copy())
    S1.call(cs.spec_transact, sec, q, upd, False, price)
    ok = Not(S1.raised)
    p0, m, bo = S0.get(sec, "_price"), S0.get(sec, "multiplier"), S0.get(sec, "_bidoffer")
    pe = ite(price.isnone, p0, price.val)
    fee = S0.comm(parent, q, pe * m)
    spread_cost = ite(price.isnone, absv(q) * 0.5 * bo * m, q * (price.val - p0) * m)
    outlay = q * p0 * m + spread_cost
    on = "SecurityBase.transact/post/* (functional spec), SecurityBase.outlay/post/result, StrategyBase.adjust/post/*"
    P = ("C07", "C02")
    g = lambda f: Implies(ok, f)
    _res(out, "C07/lemma/trade-moves-position-by-q", P + ("C18",), hyps, g(dsl.same(S1.get(sec, "_position"), S0.get(sec, "_position") + q)), rests_on=on)
    _res(out, "C07/lemma/outlay-is-qpm-plus-halfspread-or-custom-difference", P + ("C18",), hyps, g(dsl.same(S1.get(sec, "_outlay"), S0.get(sec, "_outlay") + outlay)), rests_on=on)
    _res(out, "C07/lemma/fee-is-commission(q, p*multiplier)-charged-once-to-own-parent", P, hyps, g(dsl.same(S1.get(parent, "_last_fee"), S0.get(parent, "_last_fee") + fee)), rests_on=on)
    _res(out, "C07/lemma/parent-cash-falls-by-outlay-plus-fee", P, hyps, g(dsl.same(S1.get(parent, "_capital"), S0.get(parent, "_capital") - (outlay + fee))), rests_on=on)
    _res(out, "C07/lemma/trade-is-never-a-flow", ("C07", "C03"), hyps, dsl.same(S1.get(parent, "_net_flows"), S0.get(parent, "_net_flows")), rests_on=on)
    _res(out, "C07/lemma/bidoffer-paid-accumulates-spread-cost", ("C07", "C18"), hyps, g(dsl.same(S1.get(sec, "_bidoffer_paid"), S0.get(sec, "_bidoffer_paid") + spread_cost)), rests_on=on)
    # nobody else is charged: any other strategy's cash/fees/flows are untouched
    other = RefV(dsl.fresh_ref("other"), "StrategyBase")
    for f in ("_capital", "_last_fee", "_net_flows"):
        _res(out, "C07/lemma/no-other-node-charged:%s" % f, P, hyps + [other.term != parent.term, other.term != sec.term], dsl.same(S1.get(other, f), S0.get(other, f)), rests_on=on)
    # C02: at the current price a trade changes (parent cash + position value) only by explicit costs
    bv0 = S0.get(parent, "_capital") + S0.get(sec, "_position") * p0 * m
    bv1 = S1.get(parent, "_capital") + S1.get(sec, "_position") * p0 * m
    _res(out, "C02/lemma/trade-conserves-value-except-costs", ("C02",), hyps, g(dsl.same(bv1, bv0 - (fee + spread_cost))), rests_on=on)
    # a refused custom-price trade (no bid/offer data) changes nothing
    _res(out, "C10/lemma/custom-price-without-bidoffer-raises", ("C10", "C07"), hyps, S1.raised == And(Not(price.isnone), Not(S0.get(sec, "_bidoffer_set"))), rests_on=on)
    out["samples"].append(dict(lemma="parent._capital' == parent._capital - (q*price*mult + spread + comm(q, p*mult))", rests_on=on))
    return out


# ------------------------------------------------------------------------------------------- C08: idempotence of the security update
def c08_security_update_idempotent(task):
    """spec(spec(s)) == spec(s) for every security class: re-running update on the same date changes nothing"""
    out = dict(results=[], samples=[])
    sch, h, sec = _sec_state()
    date = dsl.fresh_int("date")
    specs = dict(SecurityBase=cs.spec_secbase_update, FixedIncomeSecurity=cs.spec_fi_update, CouponPayingSecurity=cs.spec_coupon_update,
                 HedgeSecurity=cs.spec_hedge_update, CouponPayingHedgeSecurity=cs.spec_cphedge_update)
    for cls, fn in specs.items():
        S1 = SpecState(h.copy())
        S1.call(fn, sec, date, None, None)
        S2 = SpecState(S1.heap.copy())
        S2.call(fn, sec, date, None, None)
        hyps = [Not(S1.raised), Not(isnan(S1.heap.get(sec, "_position")))]
        hyps = [z3.BoolVal(x) if isinstance(x, bool) else x for x in hyps]
        keys = sorted(set(S1.heap.maps) | set(S2.heap.maps))
        n = 0
        for k in keys:
            a, b = S1.heap.ensure(k), S2.heap.ensure(k)
            if map_same(a, b):
                continue
            n += 1
            _res(out, "C08/lemma/%s.update-twice-equals-once:%s" % (cls, k), ("C08",), hyps, And(Not(S2.raised), map_equal(b, a)), rests_on="%s.update/post/* (functional spec)" % cls)
    out["samples"].append(dict(lemma="update(d); update(d) == update(d) on every heap map, all five security classes"))
    return out


# ------------------------------------------------------------------------------------------- C06
def c06_rebalance_lemmas(task):
    """C06's sentence about the resulting weight, from: the amount clause of StrategyBase.rebalance, the
    exact-cost clause of SecurityBase.allocate (fractional positions, no costs), I (weight == value / parent
    value) and Rebalance's base = value * (1 - cash)."""
    from contracts.core_ops import rebalance_amount_mv, rebalance_amount_fi

    out = dict(results=[], samples=[])
    V, v, w, cash, N, nv, B = R("V"), R("v_child"), R("w"), R("cash"), R("N"), R("n_child"), R("notional_base")
    hyps = [V > 0, cash >= 0, cash < 1]
    wc = v / V  # I: child weight is child value over parent value (StrategyBase.update/weights clause)
    base = V * (1 - cash)  # algos.Rebalance: base = target.value; base = base * (1 - cash)
    amt = rebalance_amount_mv(Num.lift(w), Num.lift(wc), Num.lift(base), Num.lift(V)).real()
    on = "StrategyBase.rebalance/amount:market-value-strategy + SecurityBase.allocate/fractional-exact + StrategyBase.update/weights"
    # exact allocate (fractional, zero commission and spread): child value grows by exactly the amount; parent value unchanged
    _res(out, "C06/lemma/targeted-child-reaches-(1-cash)*w", ("C06",), hyps, (v + amt) / V == (1 - cash) * w, rests_on=on)
    _res(out, "C06/lemma/no-cash-reserve:child-reaches-w", ("C06",), hyps + [cash == 0], (v + amt) / V == w, rests_on=on)
    # fixed income: notional weight is child notional over strategy notional; base is the notional set by SetNotional
    hf = [N > 0, B > 0]
    amtf = rebalance_amount_fi(Num.lift(w), Num.lift(nv / N), Num.lift(B), Num.lift(N)).real()
    _res(out, "C06/lemma/fixed-income-child-reaches-w*notional-base", ("C06", "C17"), hf, nv + amtf == w * B, rests_on="StrategyBase.rebalance/amount:fixed-income-strategy")
    out["samples"].append(dict(lemma="(v + amount(w, v/V, V(1-cash), V)) / V == (1-cash) w", rests_on=on))
    return out


# ------------------------------------------------------------------------------------------- C04: securities read the current row only
def c04_security_reads_current_row(task):
    """non-interference lemma over the functional specs of the five security updates: two states that agree everywhere
    except on the supplied series (prices, bid/offer, coupons, holding costs) at rows other than the current one
    produce the same post-state (every scalar, every recorded row)"""
    from pyvc.heap import ZMap

    out = dict(results=[], samples=[])
    sch, h1, sec = _sec_state()
    date = dsl.fresh_int("date")
    specs = dict(SecurityBase=cs.spec_secbase_update, FixedIncomeSecurity=cs.spec_fi_update, CouponPayingSecurity=cs.spec_coupon_update,
                 HedgeSecurity=cs.spec_hedge_update, CouponPayingHedgeSecurity=cs.spec_cphedge_update)
    inputs = ["_prices", "_bidoffers", "_coupons", "_cost_long", "_cost_short"]
    from pyvc.heap import idx_f

    i = idx_f(date.r)
    for cls, fn in specs.items():
        H1 = h1.copy()
        for f in inputs:
            H1.arr(f), H1.nanarr(f)
        H2 = H1.copy()
        hyps = []
        for f in inputs:
            for key in (f, f + "#nan"):
                a1 = H1.maps[key]
                fresh = z3.Const(dsl.fresh_name(key + "@alt"), a1.arr.sort())
                H2.maps[key] = ZMap(fresh)
                hyps.append(z3.Select(z3.Select(fresh, sec.term), i) == z3.Select(a1.select(sec.term), i))
                # the `is None` status of optional series is part of the configuration, not of the data
        hyps.append(date.r != 0)
        S1, S2 = SpecState(H1), SpecState(H2)
        S1.call(fn, sec, date, None, None)
        S2.call(fn, sec, date, None, None)
        keys = sorted(set(S1.heap.maps) | set(S2.heap.maps))
        for k in keys:
            if k.split("#")[0] in inputs:
                continue
            a, b = S1.heap.ensure(k), S2.heap.ensure(k)
            if map_same(a, b):
                continue
            _res(out, "C04/lemma/%s.update-depends-only-on-the-current-row:%s" % (cls, k), ("C04",), hyps, And(S1.raised == S2.raised, map_equal(a, b)), rests_on="%s.update/post/* (functional spec)" % cls)
    out["samples"].append(dict(lemma="inputs differing at rows != idx(date) => identical post-state", classes=list(specs)))
    return out


# ------------------------------------------------------------------------------------------- C15
def c15_weight_lemmas(task):
    out = dict(results=[], samples=[])
    # TargetVol: scaling every weight by target/vol makes the ex-ante volatility equal to the target (two assets, general by
    # degree-2 homogeneity of the quadratic form): vol(w) = sqrt(w' S w * ann), w' = w * tv / vol(w)
    w1, w2, s11, s12, s22, ann, tv, v, v2 = (R(n) for n in ("w1", "w2", "s11", "s12", "s22", "ann", "tv", "vol", "vol_scaled"))
    q = lambda a, b: a * a * s11 + 2 * a * b * s12 + b * b * s22
    c = tv / v
    hyps = [v > 0, tv >= 0, ann > 0, v * v == q(w1, w2) * ann, v2 >= 0, v2 * v2 == q(c * w1, c * w2) * ann]
    _res(out, "C15/lemma/TargetVol-scaled-weights-have-the-target-volatility(2 assets)", ("C15",), hyps, v2 == tv, rests_on="TargetVol per-key scaling w_k * tv / vol (bounded stand-in) + homogeneity of the quadratic form")
    # equal weights sum to one
    n = z3.Int("n")
    _res(out, "C15/lemma/equal-weights-sum-to-one", ("C15",), [n >= 1], z3.ToReal(n) * (1 / z3.ToReal(n)) == 1, rests_on="WeighEqually.__call__/each-weight-is-one-over-n")
    # LimitDeltas: a capped key moves by exactly the limit towards the target (never past it)
    cur, tgt, lim = R("cur"), R("tgt"), R("lim")
    sgn = z3.If(tgt - cur > 0, 1, z3.If(tgt - cur < 0, -1, 0))
    new = cur + lim * sgn
    _res(out, "C15/lemma/capped-change-moves-towards-the-target-by-the-limit", ("C15",), [lim >= 0, z3.If(tgt - cur >= 0, tgt - cur, cur - tgt) > lim],
         z3.And(z3.If(new - cur >= 0, new - cur, cur - new) == lim, z3.If(tgt >= cur, z3.And(new >= cur, new <= tgt), z3.And(new <= cur, new >= tgt))), rests_on="LimitDeltas.__call__/every-key clause")
    # LimitWeights: a cap below 1/n cannot hold weights that sum to one
    k = z3.Int("k")
    cap, tot = R("cap"), R("total")
    _res(out, "C15/lemma/cap-below-one-over-n-is-infeasible", ("C15",), [k >= 1, cap < 1 / z3.ToReal(k), tot <= z3.ToReal(k) * cap], tot < 1, rests_on="LimitWeights infeasibility test limit < 1/len(weights)")
    out["samples"].append(dict(lemma="vol(w * tv / vol(w)) == tv"))
    return out


def c20_risk_lemmas(task):
    """algebra behind C20 over the contract clauses: hedge notionals from the inverse Jacobian of (unit risk x multiplier)
    neutralise every hedged measure (1 and 2 instruments); without the multiplier factor the residual is R(1-m) (why 93f2fba was needed);
    a roll at factor f moves f*q into the target and leaves the source flat"""
    out = dict(results=[], samples=[])
    P = ("C20",)
    R0, u, m, q = R("risk"), R("unit"), R("mult"), R("q")
    # one measure, one instrument: q = -R / (u*m); risk afterwards R + u*q*m (UpdateRisk's security clause) == 0
    _res(out, "C20/lemma/hedge-1x1-neutralises", P, [u * m != 0, q == -R0 / (u * m)], R0 + u * q * m == 0, rests_on="UpdateRisk._set_risk_recursive[security] clause + HedgeRisks Jacobian unit risk x multiplier (bounded audit)")
    # two measures, two instruments: rows = instruments, columns = measures; notionals = (J^-1)^T (-R)
    a, b, c, d, r1, r2, q1, q2 = (R(n) for n in ("j11", "j12", "j21", "j22", "r1", "r2", "q1", "q2"))
    det = a * d - b * c
    hyps = [det != 0, q1 == -(d * r1 - c * r2) / det, q2 == -(-b * r1 + a * r2) / det]
    _res(out, "C20/lemma/hedge-2x2-neutralises", P, hyps, z3.And(r1 + a * q1 + c * q2 == 0, r2 + b * q1 + d * q2 == 0), rests_on="same, two instruments: J^T q = -R with J rows scaled by the multipliers")
    # strategy risk is additive over children: hedging a child instrument changes the parent's risk by the same amount (sum clause)
    s_rest, s_h, dq = R("rest"), R("hedge_child_risk"), R("delta")
    _res(out, "C20/lemma/parent-risk-moves-with-the-hedge-instrument", P, [], (s_rest + (s_h + dq)) - (s_rest + s_h) == dq, rests_on="UpdateRisk._set_risk_recursive[strategy]/risk-is-the-sum-of-the-children's-risk")
    # roll bookkeeping: closing the source and transacting f*q into the target
    p_src, p_tgt, f = R("p_src"), R("p_tgt"), R("factor")
    _res(out, "C20/lemma/roll-moves-factor-times-position-once", P, [], z3.And(p_src - p_src == 0, (p_tgt + f * p_src) - p_tgt == f * p_src), rests_on="StrategyBase.close (position to 0) and transact (position += q) clauses")
    out["samples"].append(dict(lemma="J^T q = -R"))
    return out


def c18_report_lemmas(task):
    """algebra behind C18: cumulative trade quantities telescope to positions (get_transactions takes diff with the first row patched);
    weights plus cash fractions sum to one (from update's value identity); a trade replayed at the reported per-unit price pays the original outlay"""
    out = dict(results=[], samples=[])
    P = ("C18",)
    k = z3.Int("k")
    pos = z3.Function("pos", z3.IntSort(), z3.RealSort())
    trd = z3.Function("trade", z3.IntSort(), z3.RealSort())
    cum = z3.Function("cum", z3.IntSort(), z3.RealSort())
    # base and inductive step of  cum(k) == pos(k)  with trade(0)=pos(0), trade(k)=pos(k)-pos(k-1), cum(k)=cum(k-1)+trade(k)
    _res(out, "C18/lemma/cumulative-quantities-equal-positions:base", P, [trd(0) == pos(0), cum(0) == trd(0)], cum(0) == pos(0), rests_on="get_transactions: trades = positions.diff(); trades.iloc[0] = positions.iloc[0]")
    _res(out, "C18/lemma/cumulative-quantities-equal-positions:step", P, [k >= 1, trd(k) == pos(k) - pos(k - 1), cum(k) == cum(k - 1) + trd(k), cum(k - 1) == pos(k - 1)], cum(k) == pos(k), rests_on="same (induction over dates)")
    # weights: root value = sum of security values + sum of strategies' cash (update's identity, summed over the tree); divided by a non-zero root value
    V, S, C = R("root_value"), R("sum_security_values"), R("sum_strategy_cash")
    _res(out, "C18/lemma/security-weights-plus-cash-fractions-sum-to-one", P, [V != 0, V == S + C], S / V + C / V == 1, rests_on="StrategyBase.update/identity:value=cash+children at every strategy of the tree (C01)")
    # replay round trip: reported price p + bo/(q*m) (bo in currency); ReplayTransactions trades q at that price: outlay q*price*m
    p, q, m, bo = R("price"), R("q"), R("mult"), R("bidoffer_paid")
    _res(out, "C18/lemma/replayed-trade-pays-the-original-outlay", P, [q != 0, m != 0], q * (p + bo / (q * m)) * m == q * p * m + bo, rests_on="SecurityBase.outlay clause (custom price) + get_transactions price = price + bidoffer_paid/multiplier/quantity (fix 89debc7)")
    out["samples"].append(dict(lemma="cum(k) == pos(k)"))
    return out


def c18_static(task):
    """AST obligations on the real source: the Result's price frame is built from each backtest's strategy.prices under the backtest's name, and
    Result.get_transactions returns the strategy's own list"""
    import ast
    from pyvc.source import Program

    prog = Program()
    out = dict(results=[], samples=[])

    def ob(oid, ok, info=None):
        out["results"].append(dict(id=oid, kind="post", props=["C18"], verdict="proved" if ok else "refuted", backend="ast-scan", secs=0.0, func="bt.backtest.Result", model=None if ok else (info or {})))

    # matched on the AST shape, independent of local names
    def is_attr_chain(n, *attrs):
        for a in reversed(attrs):
            if not (isinstance(n, ast.Attribute) and n.attr == a):
                return None
            n = n.value
        return n

    def returned(fn):
        """the expressions a function returns, seen through locals that are assigned exactly once (`t = e; return t` returns e)"""
        once = {}
        for n in ast.walk(fn):
            if isinstance(n, ast.Assign) and len(n.targets) == 1 and isinstance(n.targets[0], ast.Name):
                once.setdefault(n.targets[0].id, []).append(n.value)
        vals = []
        for n in ast.walk(fn):
            if isinstance(n, ast.Return) and n.value is not None:
                v = n.value
                for _ in range(4):
                    if isinstance(v, ast.Name) and len(once.get(v.id, [])) == 1:
                        v = once[v.id][0]
                vals.append(v)
        return vals

    init = prog.func("bt.backtest.Result.__init__").node
    ok = False
    for n in ast.walk(init):
        if isinstance(n, ast.Dict) and len(n.keys) == 1:
            kb = is_attr_chain(n.keys[0], "name")
            vb = is_attr_chain(n.values[0], "strategy", "prices")
            if isinstance(kb, ast.Name) and isinstance(vb, ast.Name) and kb.id == vb.id:
                ok = True
    ob("C18/Result.__init__/price-frame-is-strategy.prices-by-backtest-name", ok, dict(source=ast.unparse(init)[:300]))
    gt = prog.func("bt.backtest.Result.get_transactions").node
    ok = any(isinstance(v, ast.Call) and isinstance(v.func, ast.Attribute) and v.func.attr == "get_transactions"
             and isinstance(v.func.value, ast.Attribute) and v.func.value.attr == "strategy" for v in returned(gt))
    ob("C18/Result.get_transactions/returns-the-strategy's-list", ok, dict(source=ast.unparse(gt)[-200:]))
    pos = prog.func("bt.backtest.Backtest.positions").node
    ok = any(is_attr_chain(v, "strategy", "positions") is not None for v in returned(pos))
    ob("C18/Backtest.positions/is-the-strategy's", ok, dict(source=ast.unparse(pos)[-120:]))
    return out
