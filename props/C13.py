"""C13 - Algo stacks short-circuit, run_always runs, temp resets, perm persists"""
from pyvc.runner import func

ID = "C13"
META = {
    "assumptions": ["A-T", "A-DET", "A-IND", "A-SOLVER", "A-ENGINE"],
    "explanation": "AlgoStack.__call__ (both execution modes), Or.__call__, Not.__call__ and Strategy.run verified for stacks/branch lists/child lists of ANY length: user algos are "
    "opaque (uninterpreted Bool result per algo and run), every invocation is recorded in ghost heap state (call count, clock stamp), and the loops are cut at inductive invariants "
    "with ghost witnesses (index of the first failing algo, index of a succeeding Or branch). Proved: result == conjunction of results; the algos invoked are exactly the prefix up to "
    "the first failure plus the run_always ones after it, each exactly once (in stack order in the mode without run_always); Or invokes every branch exactly once in order and returns "
    "their disjunction; Not inverts after one invocation; Require returns the predicate's own result on the temp entry, applied exactly when the entry is present and not None, and if_none otherwise, writing nothing; RunIfOutOfBounds returns True exactly when some child named in temp['weights'] deviates from its target by more than the tolerance in relative terms (loop invariant: no child so far deviates; early exit justified by the current child), True without target weights; Strategy.run clears temp before its stack starts, keeps perm, invokes its own stack exactly once on itself and then runs every child exactly once.",
}
MANIFEST_ENTRY = {
    "level_text": "Deductive proof for stacks of any length, any pattern of returns and any placement of run_always algos (loop invariants over ghost call counts and stamps), "
    "nested stacks by modularity; Strategy.run proved against its ghost call log.",
    "level_note": "Algos are opaque deterministic functions of the run (A-DET) and pairwise distinct objects within one stack; invocation order inside the run_always mode is proved only as exact call counts; "
    "RunIfOutOfBounds is verified on fresh and stale trees (the first weight read must refresh a stale tree; deviations are measured on the refreshed weights) for non-zero targets of held children; its cash branch is a recorded defect (known finding: targets.value on a dict/Series).",
    "technique": "contract-based deductive verification: VCs from the real AST (pyvc) + z3; loop invariants with ghost call log and existential witnesses",
}


def tasks(tier, seed):
    return [
        func("bt.core.AlgoStack.__call__"),
        func("bt.algos.Or.__call__"),
        func("bt.algos.Not.__call__"),
        func("bt.algos.Require.__call__"),
        func("bt.algos.RunIfOutOfBounds.__call__"),
        func("bt.core.Strategy.run"),
        dict(kind="custom", module="props.bounded", fn="run_script", script="c13_stacks", seed=seed, n=300 if tier == "quick" else 5000, props=["C13"]),
    ]


def post(results, tier, seed):
    b = [r["bounded"] for r in results if r.get("bounded")]
    return None, dict(bounded_stand_ins=b, bounded_note="executable form of the same contracts run on the real interpreted code; never counted in obligations/discharged")


def replay(o):
    return o.get("replay_inline")


KNOWN_WITNESS_SRC = """
import json, warnings
import numpy as np, pandas as pd
warnings.filterwarnings("ignore")
import bt
from bt import algos as A
idx = pd.bdate_range("2020-01-01", periods=8)
data = pd.DataFrame({"a": np.linspace(100, 110, 8), "b": np.linspace(50, 49, 8)}, index=idx)
class SetCash(A.Algo):
    def __call__(self, target):
        target.temp["cash"] = 0.2
        return True
s = bt.Strategy("s", [A.SelectAll(), A.WeighEqually(), SetCash(), A.Or([A.RunOnce(), A.RunIfOutOfBounds(0.5)]), A.Rebalance()])
try:
    bt.Backtest(s, data, progress_bar=False).run()
    print("JSON:" + json.dumps(dict(still=False)))
except AttributeError as e:
    print("JSON:" + json.dumps(dict(still="has no attribute 'value'" in repr(e), error=repr(e)[:200])))
"""


def known_witness(f):
    if f["id"] != "C13-out-of-bounds-cash-branch-reads-targets.value":
        return None
    from pyvc.replay import Scratch

    with Scratch() as sc:
        d = sc.run_json(KNOWN_WITNESS_SRC, timeout=120)
    return bool(d.get("still"))
