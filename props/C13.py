"""C13 - Algo stacks short-circuit, run_always runs, temp resets, perm persists"""
from pyvc.runner import func

ID = "C13"
META = {
    "assumptions": ["A-T", "A-DET", "A-IND", "A-SOLVER", "A-ENGINE"],
    "explanation": "AlgoStack.__call__ (both execution modes), Or.__call__, Not.__call__ and Strategy.run verified for stacks/branch lists/child lists of ANY length: user algos are "
    "opaque (uninterpreted Bool result per algo and run), every invocation is recorded in ghost heap state (call count, clock stamp), and the loops are cut at inductive invariants "
    "with ghost witnesses (index of the first failing algo, index of a succeeding Or branch). Proved: result == conjunction of results; the algos invoked are exactly the prefix up to "
    "the first failure plus the run_always ones after it, each exactly once (in stack order in the mode without run_always); Or invokes every branch exactly once in order and returns "
    "their disjunction; Not inverts after one invocation; Strategy.run clears temp before its stack starts, keeps perm, invokes its own stack exactly once on itself and then runs every child exactly once.",
}
MANIFEST_ENTRY = {
    "level_text": "Deductive proof for stacks of any length, any pattern of returns and any placement of run_always algos (loop invariants over ghost call counts and stamps), "
    "nested stacks by modularity; Strategy.run proved against its ghost call log.",
    "level_note": "Algos are opaque deterministic functions of the run (A-DET) and pairwise distinct objects within one stack; invocation order inside the run_always mode is proved only as exact call counts; "
    "Require and RunIfOutOfBounds are not yet under contract (RunIfOutOfBounds' cash branch is a recorded defect: targets.value on a dict).",
    "technique": "contract-based deductive verification: VCs from the real AST (pyvc) + z3; loop invariants with ghost call log and existential witnesses",
}


def tasks(tier, seed):
    return [
        func("bt.core.AlgoStack.__call__"),
        func("bt.algos.Or.__call__"),
        func("bt.algos.Not.__call__"),
        func("bt.core.Strategy.run"),
        dict(kind="custom", module="props.bounded", fn="run_script", script="c13_stacks", seed=seed, n=300 if tier == "quick" else 5000, props=["C13"]),
    ]


def post(results, tier, seed):
    b = [r["bounded"] for r in results if r.get("bounded")]
    return None, dict(bounded_stand_ins=b, bounded_note="executable form of the same contracts run on the real interpreted code; never counted in obligations/discharged")


def replay(o):
    return o.get("replay_inline")
