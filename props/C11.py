"""C11 - Backtests are isolated, repeatable and never mutate their inputs"""
from pyvc.runner import func

ID = "C11"
META = {
    "assumptions": ["A-DEEPCOPY", "A-DET", "A-T", "A-SOLVER", "A-ENGINE"],
    "explanation": "Backtest.run verified on the real body: a finished backtest asked to run again makes no call and writes nothing (has_run), otherwise it sets the flag and drives only its own "
    "strategy copy (every call of the date loop is on self.strategy); write-frame and determinism obligations decided on the AST of Backtest.__init__/_process_data and the setup methods: the template "
    "is deep-copied and never touched afterwards, the input frames are only read, the universe a strategy keeps is a copy, and no sequence is derived from the iteration order of a set (which would make "
    "universe column order depend on PYTHONHASHSEED). Bounded stand-in: pairs of backtests from one template on real runs, in both orders, inputs compared before/after, and the same run under three hash seeds.",
}
MANIFEST_ENTRY = {
    "level_text": "Deductive proof of the has_run / own-copy clauses of Backtest.run; syntactic (AST-decided, complete for the listed functions) write-frame and set-order obligations; "
    "process-level repeatability only as a bounded stand-in.",
    "level_note": "deepcopy/concat/copy freshness are assumptions (A-DEEPCOPY); 'in every process' and random algos with fixed seeds are not decidable here (A-DET) and are exercised by the bounded hash-seed matrix only.",
    "technique": "contract-based deductive verification (pyvc VCs + z3) + AST-level frame/determinism obligations; bounded run-time stand-in for process-level clauses",
}


def _tasks_core(tier, seed):
    ts = [
        func("bt.backtest.Backtest.run"),
        dict(kind="custom", module="props.misc_tasks", fn="c11_static"),
        dict(kind="custom", module="props.misc_tasks", fn="backtest_init_task"),
        dict(kind="custom", module="props.bounded", fn="run_script", script="c11_isolation", seed=seed, n=3 if tier == "quick" else 25, props=["C11"]),
    ]
    ts.append(dict(kind="custom", module="props.C11", fn="hashseed_task", seed=seed, seeds=["1", "2", "3", "4"] if tier == "quick" else [str(i) for i in range(1, 17)]))
    return ts


def hashseed_task(task):
    """bounded: the same backtests in separate processes under different PYTHONHASHSEED values: universe column order,
    member order and final values must be identical"""
    import os
    from pyvc.replay import Scratch

    here = os.path.dirname(os.path.abspath(__file__))
    src = "SEED=%d\nN=1\nPARAMS={'mode':'hashseed'}\n" % task.get("seed", 0) + open(os.path.join(here, "scripts", "c11_isolation.py")).read()
    seen = {}
    with Scratch() as sc:
        for hs in task["seeds"]:
            d = sc.run_json(src, env={"PYTHONHASHSEED": hs})
            if d.get("error") or "columns" not in d:
                return dict(results=[], violations=[], error="hashseed run failed: %s" % str(d)[:500])
            seen[hs] = (d.get("columns"), d.get("final"))
    distinct = {repr(v) for v in seen.values()}
    out = dict(results=[], samples=[dict(hashseeds=task["seeds"], columns=list(seen.values())[0][0])], violations=[],
               bounded=dict(name="c11_hashseed", evaluations=len(seen), distinct_nontrivial=len(seen), rule="flat and nested backtests in fresh processes under different PYTHONHASHSEED: universe columns, member order and final values identical", bound="%d hash seeds" % len(seen)))
    if len(distinct) > 1:
        w = dict(clause="results-depend-on-hash-seed", by_hashseed={k: v[0] for k, v in seen.items()})
        out["violations"].append(dict(id="bounded/c11_hashseed/results-depend-on-hash-seed", kind="bounded", props=["C11"], verdict="refuted", backend="real-execution", secs=0.0, func="c11_isolation", model=w,
                                      replay_inline=dict(reproduced=True, witness=w, script="c11_isolation", seed=task.get("seed", 0))))
    return out


def post(results, tier, seed):
    b = [r["bounded"] for r in results if r.get("bounded")]
    return None, dict(bounded_stand_ins=b, bounded_note="real runs on the interpreted scratch copy; never counted in obligations/discharged")


def replay(o):
    if o.get("replay_inline"):
        return o["replay_inline"]
    if "no-order-taken-from-a-set" in o["id"]:
        # replay: same backtest under three hash seeds, universe column order compared
        from pyvc.replay import Scratch
        import os, json

        here = os.path.dirname(os.path.abspath(__file__))
        src = "SEED=0\nN=1\nPARAMS={'mode':'hashseed'}\n" + open(os.path.join(here, "scripts", "c11_isolation.py")).read()
        cols = {}
        with Scratch() as sc:
            for hs in ("1", "2", "3", "4"):
                d = sc.run_json(src, env={"PYTHONHASHSEED": hs})
                cols[hs] = d.get("columns")
        distinct = len(set(tuple(v) for v in cols.values() if v))
        return dict(reproduced=distinct > 1, universe_columns_by_hashseed=cols)
    return None


# functions under contract elsewhere whose obligations carry this property's tag as well (found by tools/tagaudit.py): run here too, so that a change
# which breaks one of them is reported by this check and not only by a neighbour
def tasks(tier, seed):
    return _tasks_core(tier, seed) + [
        func("bt.core.Node._set_root"),
        func("bt.core.Node.use_integer_positions"),
        func("bt.core.StrategyBase.set_commissions"),
        func("bt.core.StrategyBase.allocate"),
        func("bt.core.StrategyBase.close"),
        func("bt.core.StrategyBase.flatten"),
        *[func("bt.core.StrategyBase.update", variant=v) for v in ("flat", "paper", "nested", "nested-paper")],
    ]
