"""C18 - Reports agree with the node histories they summarise"""
from pyvc.runner import func

ID = "C18"
META = {
    "assumptions": ["A-REAL", "A-PANDAS", "A-T", "A-SOLVER", "A-ENGINE"],
    "explanation": "Five report bodies are under contract over a small time-indexed frame algebra (a Series is a function of the date index, a DataFrame is known by its columns and cells, "
    "strategy.members / .securities are abstract sequences; contracts/reports.py), each proved at a skolem member or ticker name and a skolem date on the real body, on a fresh tree and on the first "
    "(uncached) read: Backtest.weights - every member has a column under its full name holding the member's values over the root's values (notional values for a fixed-income root) and there is no "
    "other column; Backtest.security_weights - a ticker has a column iff some security member bears that name, and the column is the summed value of the same-named securities over the root's value "
    "(loop invariant with a ghost sum over the member sequence), and the result is what gets cached; StrategyBase.positions and StrategyBase.outlays - a ticker has a column iff some security member "
    "bears that name and the column is the sum of those securities' positions / outlays. Lemmas that carry the rest of the statement from contract clauses proved elsewhere: cumulative trade quantities "
    "telescope to the recorded positions (base and inductive step), security weights plus cash fractions sum to one given update's value identity at every strategy (C01), a trade replayed at the "
    "reported per-unit price pays the original outlay (outlay clause of C05/C07); AST-shape obligations that Result wraps each strategy's price index and transaction list. Backtest.herfindahl_index is under contract against the contract of security_weights "
    "(callee used by contract, not by body): the result is a sum along each row, over exactly the columns of the security weights, of the squared weight (the sum over the unbounded column set is a structured "
    "value of the frame algebra; the obligation is pointwise on its summand at a skolem column and date). turnover, "
    "get_transactions (unstack / diff / swaplevel reshaping), Result prices and the ReplayTransactions round trip are not under contract: every stated formula is recomputed from the node histories of "
    "generated finished backtests by the bounded stand-in c18_reports on the real code (flat and nested trees, shared tickers, runs with no trades, shorts, bid/offer on or off, multipliers, security classes).",
}
MANIFEST_ENTRY = {
    "level_text": "Deductive proof, for all trees, names and dates, of the component-weight, security-weight, position and outlay reports (first read on a fresh tree) plus lemmas for cumulation, "
    "weights-sum-to-one and the replay price, and of the Herfindahl index against the security-weights contract; turnover, the transaction list and the replay round trip are checked only by a bounded recomputation on generated backtests, labelled bounded.",
    "level_note": "A-PANDAS: DataFrame(dict of Series) has one column per key, frame[name] = s / += s set or add to one column, .div(series, axis=0) divides every cell by the series at the same date; "
    "the history accessors are taken to return the node's own series on a fresh tree (C08 proves that); the cached branch of weights / security_weights is excluded by precondition; members / securities "
    "are abstract sequences (that members is the node plus its descendants is C19, bounded there). The bounded stand-in found three genuine defects (execution price with a multiplier, shared-ticker spread, "
    "reports of a run without securities), all repaired in /repo.",
    "technique": "contract-based deductive verification over a time-indexed frame algebra (pyvc VCs + z3; ghost sum loop invariants) + lemmas over contract clauses; bounded real-code recomputation for the reshaping reports",
}


KNOWN_WITNESS_SRC = """
import json, warnings
import numpy as np, pandas as pd
warnings.filterwarnings("ignore")
import bt
dts = pd.date_range("2020-01-01", periods=5)
data = pd.DataFrame({"a": [100.0, 102, 101, 104, 103]}, index=dts)
spread = pd.DataFrame({"a": 2.0}, index=dts)
tw = pd.DataFrame({"a": [0.9, 0.2, 0.7]}, index=[dts[0], dts[2], dts[3]])
comm = lambda q, p: abs(q) * p * 0.001                     # a commission that depends on its price argument ...
s = bt.Strategy("s", [bt.algos.WeighTarget(tw), bt.algos.Rebalance()], children=[bt.Security("a")])
t = bt.Backtest(s, data, commissions=comm, additional_data={"bidoffer": spread}, progress_bar=False); t.run()      # ... with a bid/offer spread
trans = bt.backtest.Result(t).get_transactions()
r = bt.Strategy("r", [bt.algos.ReplayTransactions("transactions")], children=[bt.Security("a")])
t2 = bt.Backtest(r, data, commissions=comm, additional_data={"bidoffer": spread, "transactions": trans}, progress_bar=False); t2.run()
v1, v2 = t.strategy.values.values, t2.strategy.values.values
same_pos = bool(np.array_equal(t.positions.values, t2.positions.values))
worst = float(np.max(np.abs(v1 - v2)))
print("JSON:" + json.dumps(dict(still=(same_pos and worst > 1e-6), positions_equal=same_pos, worst_value_difference=worst, fees=[float(t.strategy.fees.sum()), float(t2.strategy.fees.sum())])))
"""


def known_witness(f):
    """replays the recorded failing run of a known finding on the current tree (real code)"""
    if f["id"] != "C18-replay-charges-the-commission-on-the-execution-price":
        return None
    from pyvc.replay import Scratch

    with Scratch() as sc:
        d = sc.run_json(KNOWN_WITNESS_SRC, timeout=120)
    return bool(d.get("still"))


def _tasks_core(tier, seed):
    return [
        func("bt.backtest.Backtest.weights", variant="mv"), func("bt.backtest.Backtest.weights", variant="fi"),
        func("bt.backtest.Backtest.security_weights", variant="mv"), func("bt.backtest.Backtest.security_weights", variant="fi"),
        func("bt.core.StrategyBase.positions"), func("bt.core.StrategyBase.outlays"),
        func("bt.backtest.Backtest.herfindahl_index"),
        dict(kind="custom", module="props.lemmas", fn="c18_report_lemmas"),
        dict(kind="custom", module="props.lemmas", fn="c18_static"),
        dict(kind="custom", module="props.bounded", fn="run_script", script="c18_reports", seed=seed, n=40 if tier == "quick" else 600, props=["C18"]),
    ]


def post(results, tier, seed):
    b = [r["bounded"] for r in results if r.get("bounded")]
    return None, dict(bounded_stand_ins=b, bounded_note="real runs on the interpreted scratch copy; never counted in obligations/discharged")


def replay(o):
    if o.get("replay_inline"):
        return o["replay_inline"]
    return None


# functions under contract elsewhere whose obligations carry this property's tag as well (found by tools/tagaudit.py): run here too, so that a change
# which breaks one of them is reported by this check and not only by a neighbour
def tasks(tier, seed):
    return _tasks_core(tier, seed) + [
        func("bt.core.SecurityBase.update"),
        func("bt.core.FixedIncomeSecurity.update"),
        func("bt.core.CouponPayingSecurity.update"),
        func("bt.core.SecurityBase.outlay"),
        func("bt.core.SecurityBase.transact"),
        # the history accessors the reports are assembled from: each hands out its series only after a lagging or pending security was refreshed
        func("bt.core.SecurityBase.positions"), func("bt.core.SecurityBase.outlays"), func("bt.core.SecurityBase.values"), func("bt.core.SecurityBase.notional_values"),
        func("bt.core.SecurityBase.bidoffers_paid"),
    ]
