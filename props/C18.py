"""C18 - Reports agree with the node histories they summarise"""
from pyvc.runner import func

ID = "C18"
META = {
    "level": "exploration",
    "assumptions": ["A-REAL", "A-PANDAS", "A-SOLVER", "A-ENGINE"],
    "explanation": "The report accessors are pandas expression chains over whole histories (DataFrame construction, div, diff, unstack, boolean masks); the VC generator has no model of frames indexed by time, so their "
    "bodies are not under contract. What is discharged deductively are the lemmas that carry the property from contract clauses proved elsewhere: cumulative trade quantities telescope to the recorded positions "
    "(base and inductive step), security weights plus cash fractions sum to one given update's value identity at every strategy (C01), a trade replayed at the reported per-unit price pays the original outlay "
    "(outlay clause of C05/C07), and AST obligations that Result wraps each strategy's price index and transaction list. Every stated formula - component weights, security weights aggregated over same-named "
    "securities (+cash = 1), positions per ticker, transaction quantities and execution prices, turnover, Herfindahl index, Result prices, and the ReplayTransactions round trip - is recomputed from the node "
    "histories of generated finished backtests by the bounded stand-in c18_reports on the real code (flat and nested trees, shared tickers, runs with no trades, shorts, bid/offer on or off, multipliers).",
}
MANIFEST_ENTRY = {
    "category": "exploration",
    "level_text": "Lemmas over proved contract clauses and AST obligations are discharged deductively; the report bodies themselves are checked only by a bounded recomputation on generated backtests, labelled bounded "
    "and never counted as proved.",
    "level_note": "No deductive statement about Backtest.weights / security_weights / herfindahl_index / turnover / StrategyBase.positions / outlays / get_transactions bodies: pandas frame algebra over time is outside the "
    "VC generator's subset. The bounded stand-in found three genuine defects (execution price with a multiplier, shared-ticker spread, reports of a run without securities), all repaired in /repo.",
    "technique": "contract-based deductive verification restricted to lemmas over contract clauses and AST obligations (z3); bounded real-code recomputation for the pandas report bodies",
}


def tasks(tier, seed):
    return [
        dict(kind="custom", module="props.lemmas", fn="c18_report_lemmas"),
        dict(kind="custom", module="props.lemmas", fn="c18_static"),
        dict(kind="custom", module="props.bounded", fn="run_script", script="c18_reports", seed=seed, n=40 if tier == "quick" else 600, props=["C18"]),
    ]


def post(results, tier, seed):
    b = [r["bounded"] for r in results if r.get("bounded")]
    return None, dict(bounded_stand_ins=b, bounded_note="real runs on the interpreted scratch copy; never counted in obligations/discharged")


def replay(o):
    if o.get("replay_inline"):
        return o["replay_inline"]
    return None
