"""Small AST-level obligations and shared helpers for property modules."""
import ast

from pyvc.source import Program


def _ob(oid, props, ok, info=None, kind="ast"):
    return dict(id=oid, kind=kind, props=list(props), verdict="proved" if ok else "refuted", backend="ast-evaluation", secs=0.0, func="ast", model=info if not ok else None, info=info)


def c09_constants(task):
    """the notional a paper copy is funded with equals Backtest's default initial capital (cross-file constant)"""
    prog = Program()
    out = dict(results=[], samples=[])
    setup = prog.func("bt.core.StrategyBase.setup").node
    paper_amount = None
    for n in ast.walk(setup):
        if isinstance(n, ast.Assign) and isinstance(n.targets[0], ast.Attribute) and n.targets[0].attr == "_paper_amount":
            try:
                paper_amount = ast.literal_eval(n.value)
            except Exception:
                paper_amount = None
                out["samples"].append(dict(paper_amount_expression=ast.unparse(n.value)))
    init = prog.func("bt.backtest.Backtest.__init__").node
    names = [a.arg for a in init.args.args]
    dflt = init.args.defaults[names.index("initial_capital") - (len(names) - len(init.args.defaults))]
    ic = ast.literal_eval(dflt)
    out["results"].append(_ob("C09/paper-notional-equals-default-initial-capital", ("C09",), paper_amount is not None and float(paper_amount) == float(ic), dict(paper_amount=paper_amount, initial_capital_default=ic)))
    # setup wires the paper copy: deepcopy of self, made its own root and parent, paper flag off, same data and kwargs, funded by adjust
    src = ast.unparse(setup)
    want = ["paper = deepcopy(self)", "paper.parent = paper", "paper._set_root(paper)", "paper._paper_trade = False", "paper.setup(self._original_data, **kwargs)", "paper.adjust(self._paper_amount)", "self._paper = paper"]
    pos = [src.find(w) for w in want]
    ok = all(p >= 0 for p in pos) and pos == sorted(pos)
    out["results"].append(_ob("C09/setup-builds-paper-copy-as-own-root-with-same-data", ("C09",), ok, dict(found_positions=pos)))
    out["samples"].append(dict(paper_amount=paper_amount, initial_capital_default=ic))
    # settings reach the shadow copies only through the deepcopy made in setup: Backtest installs them on its own copy of the
    # strategy in __init__ (before run calls setup); Backtest.run's verified call trace shows no later change
    isrc = ast.unparse(init)
    pos = [isrc.find(w) for w in ("self.strategy = deepcopy(strategy)", "self.strategy.use_integer_positions(integer_positions)", "if commissions is not None:", "self.strategy.set_commissions(commissions)")]
    out["results"].append(_ob("C09/settings-installed-on-the-copy-before-setup", ("C09", "C19", "C07"), all(p >= 0 for p in pos) and pos == sorted(pos) and "setup(" not in isrc, dict(found_positions=pos)))
    return out


def _calls_in(node):
    for n in ast.walk(node):
        if isinstance(n, ast.Call):
            yield n


def c11_static(task):
    """write-frame / determinism obligations on the functions that build a backtest, decided on the AST:
    (a) the template strategy is deep-copied before anything is done to it, (b) the input frames are only read
    (no subscript/attribute store, no in-place method) and everything stored comes from a fresh constructor
    (pd.concat, DataFrame(...), .copy(), deepcopy), (c) no sequence is derived from the iteration order of a set."""
    prog = Program()
    out = dict(results=[], samples=[])
    P = ("C11",)
    init = prog.func("bt.backtest.Backtest.__init__").node
    src_init = ast.unparse(init)
    # (a)
    i_copy = src_init.find("self.strategy = deepcopy(strategy)")
    later_uses = [m for m in ("strategy.use_integer_positions", "strategy.set_commissions", "strategy.setup", "strategy.adjust") if (" " + m) in src_init.replace("self.strategy", "SELF_STRAT")]
    out["results"].append(_ob("C11/Backtest.__init__/template-deep-copied-and-never-touched", P, i_copy >= 0 and not later_uses, dict(template_touched_by=later_uses)))
    # (b) no store into parameters `data`, `additional_data`, `strategy`, `universe`
    INPLACE = {"fillna", "dropna", "sort_index", "sort_values", "drop", "rename", "update", "pop", "clear", "setdefault", "append", "extend", "insert", "remove", "__setitem__", "iloc", "loc", "at", "iat"}
    for q, params in (("bt.backtest.Backtest.__init__", ["strategy", "data", "additional_data"]), ("bt.backtest.Backtest._process_data", ["data", "additional_data"]),
                      ("bt.core.StrategyBase.setup", ["universe"]), ("bt.core.SecurityBase.setup", ["universe"]), ("bt.core.CouponPayingSecurity.setup", ["universe"])):
        fn = prog.func(q).node
        bad = []
        FRESH = {"copy", "deepcopy", "concat", "DataFrame", "Series", "dict", "list", "reindex", "astype"}

        def may_alias(x, al):
            """does the value of x possibly share the object of a parameter (no fresh constructor in between)?"""
            if isinstance(x, ast.Name):
                return x.id in al
            if isinstance(x, ast.Attribute):
                return ast.unparse(x) in al
            if isinstance(x, ast.IfExp):
                return may_alias(x.body, al) or may_alias(x.orelse, al)
            if isinstance(x, ast.BoolOp):
                return any(may_alias(v, al) for v in x.values)
            return False

        aliases = set(params)
        for n in ast.walk(fn):  # source order is enough here: aliases only ever grow
            if isinstance(n, ast.Assign) and may_alias(n.value, aliases):
                for t in n.targets:
                    if isinstance(t, (ast.Name, ast.Attribute)):
                        aliases.add(ast.unparse(t))
        for n in ast.walk(fn):
            tgts = []
            if isinstance(n, ast.Assign):
                tgts = n.targets
            elif isinstance(n, (ast.AugAssign, ast.AnnAssign)):
                tgts = [n.target]
            elif isinstance(n, ast.Delete):
                tgts = n.targets
            for t in tgts:
                if isinstance(t, ast.Subscript) and may_alias(t.value, aliases):
                    bad.append("store into %s at line %d (aliases an input)" % (ast.unparse(t), n.lineno))
                elif isinstance(t, ast.Attribute) and may_alias(t.value, aliases) and not (isinstance(t.value, ast.Name) and t.value.id == "self"):
                    bad.append("store into %s at line %d (aliases an input)" % (ast.unparse(t), n.lineno))
            if isinstance(n, ast.Call) and isinstance(n.func, ast.Attribute) and may_alias(n.func.value, aliases):
                if n.func.attr in INPLACE or any(k.arg == "inplace" for k in n.keywords):
                    bad.append("in-place call %s at line %d" % (ast.unparse(n.func), n.lineno))
        out["results"].append(_ob("C11/%s/inputs-only-read" % q.split(".", 2)[-1], P, not bad, dict(writes=bad)))
    # universe kept by a strategy is a copy, never the caller's frame
    ssrc = ast.unparse(prog.func("bt.core.StrategyBase.setup").node)
    out["results"].append(_ob("C11/StrategyBase.setup/universe-is-copied", P, "funiverse = universe.copy()" in ssrc and "self._universe = funiverse" in ssrc, {}))
    # (c) determinism: no list()/iteration/indexing derived from a set's iteration order - set expressions in place, and
    # attributes that hold sets anywhere in bt/core.py or bt/backtest.py (assigned a set expression, or used with .add)
    def is_setexpr(x):
        if isinstance(x, ast.Call) and isinstance(x.func, ast.Name) and x.func.id in ("set", "frozenset"):
            return True
        if isinstance(x, ast.Call) and isinstance(x.func, ast.Attribute) and x.func.attr in ("intersection", "union", "difference", "symmetric_difference") and is_setexpr(x.func.value):
            return True
        if isinstance(x, (ast.Set, ast.SetComp)):
            return True
        return False

    set_attrs = set()
    for mod in ("core", "backtest"):
        for n in ast.walk(prog.trees[mod]):
            if isinstance(n, ast.Assign) and is_setexpr(n.value):
                for t in n.targets:
                    if isinstance(t, ast.Attribute):
                        set_attrs.add(t.attr)
            if isinstance(n, ast.Call) and isinstance(n.func, ast.Attribute) and n.func.attr in ("add", "discard") and isinstance(n.func.value, ast.Attribute):
                set_attrs.add(n.func.value.attr)

    def is_set(x):
        return is_setexpr(x) or (isinstance(x, ast.Attribute) and x.attr in set_attrs)

    for q in ("bt.core.StrategyBase.setup", "bt.core.Node._add_children", "bt.core.Node.__init__", "bt.backtest.Backtest._process_data", "bt.backtest.Backtest.__init__", "bt.core.SecurityBase.setup",
              "bt.core.StrategyBase.setup_from_parent", "bt.core.StrategyBase.update", "bt.core.StrategyBase._create_child_if_needed"):
        fn = prog.func(q).node
        bad = []
        for n in ast.walk(fn):
            if isinstance(n, ast.Call) and isinstance(n.func, ast.Name) and n.func.id in ("list", "tuple") and n.args and is_set(n.args[0]):
                bad.append("%s at line %d" % (ast.unparse(n)[:80], n.lineno))
            if isinstance(n, (ast.For, ast.comprehension)) and is_set(n.iter):
                bad.append("iteration over a set (%s) at line %d" % (ast.unparse(n.iter)[:40], getattr(n, "lineno", 0) or getattr(n.iter, "lineno", 0)))
        out["results"].append(_ob("C11/%s/no-order-taken-from-a-set" % q.split(".", 2)[-1], P, not bad, dict(order_dependent=bad, set_valued_attributes=sorted(set_attrs), why="set iteration order of str depends on PYTHONHASHSEED: universe column order would differ between processes")))
    out["samples"].append(dict(static_obligations=len(out["results"])))
    return out
