"""Small AST-level obligations and shared helpers for property modules."""
import ast

from pyvc.source import Program


def _ob(oid, props, ok, info=None, kind="ast"):
    return dict(id=oid, kind=kind, props=list(props), verdict="proved" if ok else "refuted", backend="ast-evaluation", secs=0.0, func="ast", model=info if not ok else None, info=info)


def c09_constants(task):
    """cross-file constant: Backtest's default initial capital is the notional a shadow copy is funded with (StrategyBase.setup is proved,
    in props.c04_tasks.setup_clauses, to fund its shadow copy with exactly 1000000); the default is read from the real signature"""
    prog = Program()
    out = dict(results=[], samples=[])
    init = prog.func("bt.backtest.Backtest.__init__").node
    names = [a.arg for a in init.args.args]
    ic = None
    if "initial_capital" in names:
        dflt = init.args.defaults[names.index("initial_capital") - (len(names) - len(init.args.defaults))]
        try:
            ic = ast.literal_eval(dflt)
        except Exception:
            ic = None
    out["results"].append(_ob("C09/stand-alone-default-capital-equals-the-shadow-notional", ("C09",), ic is not None and float(ic) == 1000000.0, dict(initial_capital_default=ic, shadow_notional=1000000)))
    out["samples"].append(dict(initial_capital_default=ic))
    return out


def backtest_init_task(task):
    """Backtest.__init__ executed with the tolerant executor (data processing abstracted; copy.deepcopy modelled as a fresh object, A-DEEPCOPY):
    the backtest keeps a deep copy of the template, installs the integer-position mode and (when given) the commission function on that
    copy - before run() calls setup, so shadow copies inherit them - and neither calls nor writes the caller's template."""
    import z3
    from pyvc import dsl
    from pyvc.dsl import And, Not, Implies
    from pyvc.heap import Heap, RefV, FnV, Fn, map_same
    from pyvc.state import State, Oblig
    from pyvc.prover import prove, model_to_dict
    from pyvc.tolerant import TolerantExecutor, Tainted
    from pyvc.symexec import NONEV
    from contracts.schema import core_schema
    from contracts import registry

    q = "bt.backtest.Backtest.__init__"
    out = dict(results=[], samples=[], qualname=q)
    prog = Program()
    R = registry.build()
    sch = core_schema()
    fi = prog.func(q)
    out["source_hash"] = fi.source_hash()
    argn = [a.arg for a in fi.node.args.args][1:]
    for variant in ("with-commissions", "without-commissions"):
        ex = TolerantExecutor(prog, sch, dict(R["contracts"]), inline=R["inline"])
        st = State(Heap(sch))
        self = RefV(dsl.fresh_ref("self"), "Backtest")
        tmpl = RefV(dsl.fresh_ref("template"), "StrategyBase")
        st.assume(And(self.term != dsl.NONE, tmpl.term != dsl.NONE, self.term != tmpl.term))
        intpos = dsl.fresh_bool("integer_positions")
        comm = FnV(z3.Const(dsl.fresh_name("commissions"), Fn)) if variant == "with-commissions" else NONEV
        vals = dict(strategy=tmpl, data=Tainted("data"), name=NONEV, initial_capital=dsl.Num.lift(1000000.0) if hasattr(dsl, "Num") else 1000000.0, commissions=comm, integer_positions=intpos,
                    progress_bar=False, additional_data=NONEV)
        E0 = st.heap.copy()
        for k in ("integer_positions", "commission_fn", "root", "parent"):
            st.heap.ensure(k)
        E0 = st.heap.copy()
        exits = ex.run_function(fi, st, self, [vals[a] for a in argn])
        n_norm = 0
        for (s, oc) in exits:
            if oc.kind == "raise":
                continue
            n_norm += 1
            F = s.heap
            copies = [x for x in s.log if x[0] == "deepcopy"]
            on_tmpl = [x for x in s.log if len(x) == 4 and x[0] != "deepcopy" and isinstance(x[1], RefV) and z3.is_true(z3.simplify(x[1].term == tmpl.term))]
            obl = [("keeps-one-deep-copy-of-the-template", len(copies) == 1 and z3.is_true(z3.simplify(copies[0][1].term == tmpl.term)), ("C11", "C09", "C19")),
                   ("template-is-never-called", len(on_tmpl) == 0, ("C11",))]
            if len(copies) == 1:
                P = copies[0][2][0]
                calls = [x for x in s.log if len(x) == 4 and x[0] != "deepcopy" and isinstance(x[1], RefV) and z3.is_true(z3.simplify(x[1].term == P.term))]
                names = [x[0].rsplit(".", 1)[1] for x in calls]
                ip = [x for x in calls if x[0].endswith(".use_integer_positions")]
                sc = [x for x in calls if x[0].endswith(".set_commissions")]
                ipa = ip[0][2][0] if ip else None
                obl += [
                    ("the-copy-is-the-backtest's-strategy", F.get(self, "strategy").term == P.term, ("C11", "C09")),
                    ("integer-mode-installed-on-the-copy", len(ip) == 1 and ((ipa is intpos) or (not isinstance(ipa, bool) and z3.is_true(z3.simplify(ipa == intpos)))), ("C09", "C19")),
                    ("commissions-installed-on-the-copy-iff-given", (len(sc) == 1 and sc[0][2][0].term is comm.term) if variant == "with-commissions" else len(sc) == 0, ("C09", "C19", "C07")),
                    ("setup-is-left-to-run", "setup" not in names, ("C09",)),
                ]
            x = z3.Const(dsl.fresh_name("xfr"), dsl.Ref)
            for key in sorted(F.maps.keys()):
                a, b = F.maps[key], E0.ensure(key)
                if map_same(a, b) or key.startswith("dct#"):
                    continue
                obl.append(("template-is-never-written:%s" % key, a.select(tmpl.term) == b.select(tmpl.term), ("C11",)))
            for cid, goal, props in obl:
                o = Oblig("Backtest.__init__[%s]/%s" % (variant, cid), s.pc, goal, "post", props)
                r = prove(o, timeout_ms=20000)
                d = dict(id=o.id, kind="post", props=list(props), verdict=r.verdict, backend=r.backend + " (tolerant execution)", secs=round(r.secs, 4), func=q)
                if r.verdict == "refuted":
                    d["model"] = model_to_dict(r.model) if r.model is not None else None
                out["results"].append(d)
        if n_norm == 0:
            out["results"].append(dict(id="Backtest.__init__[%s]/has-a-normal-exit" % variant, kind="post", props=["C11", "C09"], verdict="unknown", backend="tolerant", secs=0.0, func=q, reason="no normal exit explored"))
        out["samples"].append(dict(variant=variant, normal_exits=n_norm, abstracted=len(ex.abstracted)))
    return out


def _calls_in(node):
    for n in ast.walk(node):
        if isinstance(n, ast.Call):
            yield n


def c11_static(task):
    """write-frame / determinism obligations on the functions that build a backtest, decided on the AST:
    (a) the template strategy is deep-copied before anything is done to it, (b) the input frames are only read
    (no subscript/attribute store, no in-place method) and everything stored comes from a fresh constructor
    (pd.concat, DataFrame(...), .copy(), deepcopy), (c) no sequence is derived from the iteration order of a set."""
    prog = Program()
    out = dict(results=[], samples=[])
    P = ("C11",)
    # (a) 'the template is deep-copied and never touched' is decided semantically by backtest_init_task (tolerant execution with a deepcopy model)
    # (b) no store into parameters `data`, `additional_data`, `strategy`, `universe`
    INPLACE = {"fillna", "dropna", "sort_index", "sort_values", "drop", "rename", "update", "pop", "clear", "setdefault", "append", "extend", "insert", "remove", "__setitem__", "iloc", "loc", "at", "iat"}
    for q, params in (("bt.backtest.Backtest.__init__", ["strategy", "data", "additional_data"]), ("bt.backtest.Backtest._process_data", ["data", "additional_data"]),
                      ("bt.core.StrategyBase.setup", ["universe"]), ("bt.core.SecurityBase.setup", ["universe"]), ("bt.core.CouponPayingSecurity.setup", ["universe"]),
                      ("bt.backtest.benchmark_random", ["random_strategy"]),      # a helper that builds backtests from the caller's template (renamed it before fix f39edfb)
                      # a child set up from its parent works on a COPY of the parent's setup arguments: what it overrides must not leak into the securities
                      # the parent creates later on first use
                      ("bt.core.StrategyBase.setup_from_parent", ["self.parent._setup_kwargs", "self.parent._original_data"])):
        fn = prog.func(q).node
        bad = []
        FRESH = {"copy", "deepcopy", "concat", "DataFrame", "Series", "dict", "list", "reindex", "astype"}

        def may_alias(x, al):
            """does the value of x possibly share the object of a parameter (no fresh constructor in between)?"""
            if isinstance(x, ast.Name):
                return x.id in al
            if isinstance(x, ast.Attribute):
                if x.attr in ("loc", "iloc", "at", "iat", "values", "array", "index", "columns"):
                    return may_alias(x.value, al)       # indexers / views of an input write through to it
                return ast.unparse(x) in al
            if isinstance(x, ast.IfExp):
                return may_alias(x.body, al) or may_alias(x.orelse, al)
            if isinstance(x, ast.BoolOp):
                return any(may_alias(v, al) for v in x.values)
            return False

        aliases = set(params)
        # containers whose ELEMENTS are the caller's objects: the dict of extra frames and every shallow copy of it
        elems = {p_ for p_ in params if p_ in ("additional_data", "kwargs")}

        def elem_src(x):
            if isinstance(x, ast.Name):
                return x.id in elems
            if isinstance(x, ast.Attribute):
                return ast.unparse(x) in elems
            if isinstance(x, ast.BoolOp):
                return any(elem_src(v) for v in x.values)
            if isinstance(x, ast.Call) and isinstance(x.func, ast.Attribute) and x.func.attr == "copy":
                return elem_src(x.func.value)
            if isinstance(x, ast.Call) and isinstance(x.func, ast.Name) and x.func.id == "dict" and len(x.args) == 1:
                return elem_src(x.args[0])
            return False

        for _ in range(2):
            for n in ast.walk(fn):  # source order is enough here: aliases only ever grow
                if isinstance(n, ast.Assign) and elem_src(n.value):
                    for t in n.targets:
                        if isinstance(t, (ast.Name, ast.Attribute)):
                            elems.add(ast.unparse(t))
                if isinstance(n, ast.Assign) and (may_alias(n.value, aliases) or (isinstance(n.value, ast.Subscript) and elem_src(n.value.value))):
                    for t in n.targets:
                        if isinstance(t, (ast.Name, ast.Attribute)):
                            aliases.add(ast.unparse(t))
                if isinstance(n, ast.For) and isinstance(n.iter, ast.Call) and isinstance(n.iter.func, ast.Attribute) and n.iter.func.attr in ("items", "values") and elem_src(n.iter.func.value):
                    tg = n.target.elts[-1] if isinstance(n.target, ast.Tuple) else n.target
                    if isinstance(tg, ast.Name):
                        aliases.add(tg.id)
        for n in ast.walk(fn):
            tgts = []
            if isinstance(n, ast.Assign):
                tgts = n.targets
            elif isinstance(n, (ast.AugAssign, ast.AnnAssign)):
                tgts = [n.target]
            elif isinstance(n, ast.Delete):
                tgts = n.targets
            for t in tgts:
                if isinstance(t, ast.Subscript) and may_alias(t.value, aliases):
                    bad.append("store into %s at line %d (aliases an input)" % (ast.unparse(t), n.lineno))
                elif isinstance(t, ast.Attribute) and may_alias(t.value, aliases) and not (isinstance(t.value, ast.Name) and t.value.id == "self"):
                    bad.append("store into %s at line %d (aliases an input)" % (ast.unparse(t), n.lineno))
            if isinstance(n, ast.Call) and isinstance(n.func, ast.Attribute) and may_alias(n.func.value, aliases):
                if n.func.attr in INPLACE or any(k.arg == "inplace" for k in n.keywords):
                    bad.append("in-place call %s at line %d" % (ast.unparse(n.func), n.lineno))
        out["results"].append(_ob("C11/%s/inputs-only-read" % q.split(".", 2)[-1], P + (("C19",) if q.endswith("setup_from_parent") or q.endswith("StrategyBase.setup") else ()), not bad, dict(writes=bad)))
    # A-DEEPCOPY (copy.deepcopy gives a fully independent object graph) is only available while no class of the package customises copying
    hooks = []
    for mod in ("core", "algos", "backtest"):
        for n in ast.walk(prog.trees[mod]):
            if isinstance(n, ast.ClassDef):
                for item in n.body:
                    if isinstance(item, ast.FunctionDef) and item.name in ("__deepcopy__", "__copy__", "__reduce__", "__reduce_ex__", "__getstate__", "__setstate__"):
                        hooks.append("%s.%s (bt/%s.py line %d)" % (n.name, item.name, mod, item.lineno))
    r_ = _ob("C11/no-class-customises-copying(A-DEEPCOPY-applies)", P, not hooks, dict(hooks=hooks))
    if hooks:
        r_["verdict"] = "unknown"      # a custom copy protocol may be right; the independence of copies is then decided by the bounded stand-in only
        r_["reason"] = "copy protocol customised by %s: the deep-copy assumption behind the isolation proof is not available" % ", ".join(hooks)
    out["results"].append(r_)
    # backtests are independent of one another: no function of the package keeps state in a module-level variable (a `global` statement, or a
    # store / in-place call on a name that is bound at module level and not locally) - class bodies and constants are not affected
    shared = []
    for mod in ("core", "algos", "backtest"):
        tree = prog.trees[mod]
        modnames = set()
        for n in tree.body:
            if isinstance(n, ast.Assign):
                modnames |= {t.id for t in n.targets if isinstance(t, ast.Name)}
            elif isinstance(n, (ast.AnnAssign, ast.AugAssign)) and isinstance(n.target, ast.Name):
                modnames.add(n.target.id)
        for fn_ in [x for x in ast.walk(tree) if isinstance(x, (ast.FunctionDef, ast.Lambda))]:
            if isinstance(fn_, ast.Lambda):
                continue
            local = {a.arg for a in fn_.args.args + fn_.args.kwonlyargs} | {x.id for x in ast.walk(fn_) if isinstance(x, ast.Name) and isinstance(x.ctx, ast.Store)}
            for n in ast.walk(fn_):
                if isinstance(n, ast.Global):
                    shared.append("global %s in %s (bt/%s.py line %d)" % (", ".join(n.names), fn_.name, mod, n.lineno))
                tg = []
                if isinstance(n, ast.Assign):
                    tg = n.targets
                elif isinstance(n, (ast.AugAssign, ast.AnnAssign)):
                    tg = [n.target]
                for t in tg:
                    base = t
                    while isinstance(base, (ast.Subscript, ast.Attribute)):
                        base = base.value
                    if base is not t and isinstance(base, ast.Name) and base.id in modnames and base.id not in local:
                        shared.append("store into module-level %s in %s (bt/%s.py line %d)" % (base.id, fn_.name, mod, n.lineno))
                if isinstance(n, ast.Call) and isinstance(n.func, ast.Attribute) and isinstance(n.func.value, ast.Name) and n.func.value.id in modnames and n.func.value.id not in local \
                        and n.func.attr in ("append", "extend", "update", "setdefault", "pop", "clear", "add", "insert", "remove", "__setitem__"):
                    shared.append("in-place %s.%s in %s (bt/%s.py line %d)" % (n.func.value.id, n.func.attr, fn_.name, mod, n.lineno))
    out["results"].append(_ob("C11/no-state-is-kept-in-module-level-variables", P, not shared, dict(sites=shared)))
    # universe kept by a strategy is a copy, never the caller's frame
    ssrc = ast.unparse(prog.func("bt.core.StrategyBase.setup").node)
    out["results"].append(_ob("C11/StrategyBase.setup/universe-is-copied", P + ("C19",), "funiverse = universe.copy()" in ssrc and "self._universe = funiverse" in ssrc, {}))
    # (c) determinism: no list()/iteration/indexing derived from a set's iteration order - set expressions in place, and
    # attributes that hold sets anywhere in bt/core.py or bt/backtest.py (assigned a set expression, or used with .add)
    def is_setexpr(x):
        if isinstance(x, ast.Call) and isinstance(x.func, ast.Name) and x.func.id in ("set", "frozenset"):
            return True
        if isinstance(x, ast.Call) and isinstance(x.func, ast.Attribute) and x.func.attr in ("intersection", "union", "difference", "symmetric_difference") and is_setexpr(x.func.value):
            return True
        if isinstance(x, (ast.Set, ast.SetComp)):
            return True
        return False

    set_attrs = set()
    for mod in ("core", "backtest"):
        for n in ast.walk(prog.trees[mod]):
            if isinstance(n, ast.Assign) and is_setexpr(n.value):
                for t in n.targets:
                    if isinstance(t, ast.Attribute):
                        set_attrs.add(t.attr)
            if isinstance(n, ast.Call) and isinstance(n.func, ast.Attribute) and n.func.attr in ("add", "discard") and isinstance(n.func.value, ast.Attribute):
                set_attrs.add(n.func.value.attr)

    def is_set(x):
        return is_setexpr(x) or (isinstance(x, ast.Attribute) and x.attr in set_attrs)

    for q in ("bt.core.StrategyBase.setup", "bt.core.Node._add_children", "bt.core.Node.__init__", "bt.backtest.Backtest._process_data", "bt.backtest.Backtest.__init__", "bt.core.SecurityBase.setup",
              "bt.core.StrategyBase.setup_from_parent", "bt.core.StrategyBase.update", "bt.core.StrategyBase._create_child_if_needed"):
        fn = prog.func(q).node
        bad = []
        for n in ast.walk(fn):
            if isinstance(n, ast.Call) and isinstance(n.func, ast.Name) and n.func.id in ("list", "tuple") and n.args and is_set(n.args[0]):
                bad.append("%s at line %d" % (ast.unparse(n)[:80], n.lineno))
            if isinstance(n, (ast.For, ast.comprehension)) and is_set(n.iter):
                bad.append("iteration over a set (%s) at line %d" % (ast.unparse(n.iter)[:40], getattr(n, "lineno", 0) or getattr(n.iter, "lineno", 0)))
        out["results"].append(_ob("C11/%s/no-order-taken-from-a-set" % q.split(".", 2)[-1], P, not bad, dict(order_dependent=bad, set_valued_attributes=sorted(set_attrs), why="set iteration order of str depends on PYTHONHASHSEED: universe column order would differ between processes")))
    out["samples"].append(dict(static_obligations=len(out["results"])))
    return out
