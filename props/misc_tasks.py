"""Small AST-level obligations and shared helpers for property modules."""
import ast

from pyvc.source import Program


def _ob(oid, props, ok, info=None, kind="ast"):
    return dict(id=oid, kind=kind, props=list(props), verdict="proved" if ok else "refuted", backend="ast-evaluation", secs=0.0, func="ast", model=info if not ok else None, info=info)


def c09_constants(task):
    """the notional a paper copy is funded with equals Backtest's default initial capital (cross-file constant)"""
    prog = Program()
    out = dict(results=[], samples=[])
    setup = prog.func("bt.core.StrategyBase.setup").node
    paper_amount = None
    for n in ast.walk(setup):
        if isinstance(n, ast.Assign) and isinstance(n.targets[0], ast.Attribute) and n.targets[0].attr == "_paper_amount":
            paper_amount = ast.literal_eval(n.value)
    init = prog.func("bt.backtest.Backtest.__init__").node
    names = [a.arg for a in init.args.args]
    dflt = init.args.defaults[names.index("initial_capital") - (len(names) - len(init.args.defaults))]
    ic = ast.literal_eval(dflt)
    out["results"].append(_ob("C09/paper-notional-equals-default-initial-capital", ("C09",), paper_amount is not None and float(paper_amount) == float(ic), dict(paper_amount=paper_amount, initial_capital_default=ic)))
    # setup wires the paper copy: deepcopy of self, made its own root and parent, paper flag off, same data and kwargs, funded by adjust
    src = ast.unparse(setup)
    want = ["paper = deepcopy(self)", "paper.parent = paper", "paper.root = paper", "paper._paper_trade = False", "paper.setup(self._original_data, **kwargs)", "paper.adjust(self._paper_amount)", "self._paper = paper"]
    pos = [src.find(w) for w in want]
    ok = all(p >= 0 for p in pos) and pos == sorted(pos)
    out["results"].append(_ob("C09/setup-builds-paper-copy-as-own-root-with-same-data", ("C09",), ok, dict(found_positions=pos)))
    out["samples"].append(dict(paper_amount=paper_amount, initial_capital_default=ic))
    return out
