"""C08 - Updates are idempotent, reads are fresh, history is append-only"""
from pyvc.runner import func

UPDATE_ALL = [func("bt.core.StrategyBase.update", variant=v) for v in ("flat", "paper", "nested", "nested-paper")]

from contracts.core_getters import getter_tasks

GETTER_TASKS = getter_tasks()

ID = "C08"
META = {
    "assumptions": ['A-REAL', 'A-COMM', 'A-T', 'A-IND', 'A-CYTHON', 'A-SOLVER', 'A-ENGINE'],
    "explanation": "update proved to write its own history buffers only at the current index (append-only frame, skolemised row), to write nothing outside the node, its children's subtrees and root.stale, to reset accumulators only on a date change and to leave root.stale False; every security update proved (lemma over its functional spec) to be idempotent: update;update == update on every heap map; every mutator (adjust, transact, allocate, flatten) proved to update or to leave root.stale set, for every amount including zero; a redundant update of a strategy proved to leave the node's own scalars, bankrupt flag and history rows unchanged (parked coupons are swept only on a date change - loop invariant).",
}
MANIFEST_ENTRY = {
    "level_text": 'Deductive proof of the positional write frames and of security-level idempotence for all states.',
    "level_note": "Reals not floats; every read accessor is verified (refresh iff pending, own series cut at own date); a redundant StrategyBase.update is proved to leave every scalar and every history row of the node itself unchanged, given the post-state of an earlier update (same date, tree not stale, recorded value / notional / spread equal to cash plus the children's current sums, rows of the date equal to the scalars) and no paper copy; that the children's sums are themselves unchanged is their own idempotence (security lemma, recursion: A-IND).",
    "technique": "contract-based deductive verification: VCs from the real AST (pyvc) discharged by z3/cvc5; loop invariants with ghost sums; lemmas over contract clauses",
}


def _tasks_core(tier, seed):
    return [
        *[func(q) for q in GETTER_TASKS],
        func("bt.backtest.Backtest.run"),
        func("bt.core.StrategyBase.flatten"),
        # "pending changes": every mutator either updates or marks the root stale, whatever the amounts are (a zero-cash trade still moves a position)
        func("bt.core.StrategyBase.adjust"),
        func("bt.core.SecurityBase.transact"),
        func("bt.core.StrategyBase.allocate"),
        *UPDATE_ALL,
        func("bt.core.SecurityBase.update"),
        func("bt.core.FixedIncomeSecurity.update"),
        func("bt.core.CouponPayingSecurity.update"),
        func("bt.core.HedgeSecurity.update"),
        func("bt.core.CouponPayingHedgeSecurity.update"),
        dict(kind="custom", module="props.lemmas", fn="c08_security_update_idempotent"),
        dict(kind="custom", module="props.bounded", fn="run_script", script="c08_reads", seed=seed, n=25 if tier == "quick" else 600, props=["C08"]),
    ]


def post(results, tier, seed):
    b = [r["bounded"] for r in results if r.get("bounded")]
    return None, dict(bounded_stand_ins=b, bounded_note="deep copies of real trees read as is / after an update / after redundant updates, compared byte for byte; never counted in obligations/discharged")


def replay(o):
    from pyvc.concrete import replay_scenario

    return replay_scenario(o)


# functions under contract elsewhere whose obligations carry this property's tag as well (found by tools/tagaudit.py): run here too, so that a change
# which breaks one of them is reported by this check and not only by a neighbour
def tasks(tier, seed):
    return _tasks_core(tier, seed) + [
        func("bt.algos.Rebalance.__call__"),
        func("bt.core.StrategyBase.close"),
        func("bt.core.StrategyBase.rebalance"),
        func("bt.core.StrategyBase.universe"),
    ]
