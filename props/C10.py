"""C10 - Well-formed runs complete with finite results; ill-formed states raise"""
from pyvc.runner import func

UPDATE_ALL = [func("bt.core.StrategyBase.update", variant=v) for v in ("flat", "paper", "nested", "nested-paper")]
ID = "C10"
META = {
    "assumptions": ["A-REAL", "A-COMM", "A-T", "A-SOLVER", "A-ENGINE"],
    "explanation": "Exceptional postconditions proved on the real bodies, both directions: SecurityBase.allocate refuses a zero/NaN price iff the amount is non-zero (and never completes with one); every "
    "security update raises iff the price (coupon) is NaN on an open position and otherwise records value = position*price*multiplier; StrategyBase.update raises ZeroDivisionError only on a zero base with "
    "non-zero numerator (market-value and fixed-income forms) and records a non-NaN value; transact raises iff a custom price is given without bid/offer data; every division and modulo in a function under "
    "contract has a provably non-zero divisor. 'Under the library versions actually installed' is not a deductive statement: it is audited at run time (raw-buffer store audit on every node class and history "
    "series; generated well-formed backtests with every report accessor; the nine ill-formed classes must raise).",
}
MANIFEST_ENTRY = {
    "level_text": "Deductive proof of the raise-iff clauses and of division safety for all inputs on the functions under contract; library-version compatibility and whole-run completion are bounded run-time audits, labelled as such.",
    "level_note": "Reals not floats: float-only failures (TOL = 1e-16 residuals of nested liquidation) are outside the proof and exercised only by the bounded smoke matrix; termination of allocate's sizing search and absence "
    "of its three guard exceptions are not proved; guards living in pandas-heavy code (duplicate columns, FI nesting, coupon index) are covered by the bounded ill-formed cases only.",
    "technique": "contract-based deductive verification (pyvc VCs + z3) of exceptional postconditions; bounded run-time audits for installed-library clauses",
}


def _tasks_core(tier, seed):
    return [
        dict(kind="custom", module="props.c04_tasks", fn="setup_clauses"),
        dict(kind="custom", module="props.c04_tasks", fn="installer_scan"),      # index guards (a table on other dates is refused) and the pre-start row of each frame
        func("bt.core.SecurityBase.allocate"), func("bt.core.SecurityBase.transact"), func("bt.core.SecurityBase.update"), func("bt.core.FixedIncomeSecurity.update"),
        func("bt.core.CouponPayingSecurity.update"), func("bt.core.HedgeSecurity.update"), func("bt.core.CouponPayingHedgeSecurity.update"), *UPDATE_ALL,
        dict(kind="custom", module="props.lemmas", fn="c07_trade_lemmas"),
        dict(kind="custom", module="props.bounded", fn="run_script", script="c10_buffers", seed=seed, n=1, props=["C10"]),
        dict(kind="custom", module="props.bounded", fn="run_script", script="c05_sizing", seed=seed, n=1500 if tier == "quick" else 40000, props=["C10"], params={"only_raises": True}),
        dict(kind="custom", module="props.bounded", fn="run_script", script="c10_smoke", seed=seed, n=25 if tier == "quick" else 400, props=["C10"]),
    ]


def post(results, tier, seed):
    b = [r["bounded"] for r in results if r.get("bounded")]
    return None, dict(bounded_stand_ins=b, bounded_note="real runs on the interpreted scratch copy; never counted in obligations/discharged")


def replay(o):
    if o.get("replay_inline"):
        return o["replay_inline"]
    from pyvc.concrete import replay_scenario

    return replay_scenario(o)


KNOWN_WITNESS_SRC = """
import json, warnings
import numpy as np, pandas as pd
warnings.filterwarnings("ignore")
import bt
from bt import algos as A
idx = pd.bdate_range("2020-01-01", periods=6)
data = pd.DataFrame({"a": np.linspace(100, 105, 6), "b": np.linspace(50, 48, 6), "c": np.linspace(10, 11, 6)}, index=idx)
mk = lambda: bt.Strategy("sub", [A.RunOnce(), A.SelectThese(["a", "b"]), A.WeighSpecified(a=0.5, b=0.3), A.Rebalance()], children=["a", "b"])
alone = bt.Backtest(mk(), data, progress_bar=False); alone.run()          # the definition is fine on its own
top = bt.Strategy("top", [A.RunWeekly(), A.SelectAll(), A.WeighEqually(), A.Rebalance()], children=[mk(), "c"])
try:
    bt.Backtest(top, data, progress_bar=False).run()
    print("JSON:" + json.dumps(dict(still=False)))
except Exception as e:
    print("JSON:" + json.dumps(dict(still="price is nan as of 2019-12-31" in repr(e), error=repr(e)[:200])))
"""


KNOWN_WITNESS_RESIDUE_SRC = """
import json, warnings
import numpy as np, pandas as pd
warnings.filterwarnings("ignore")
import bt
dts = pd.date_range("2020-01-01", periods=5)
data = pd.DataFrame({"a": [100.0, 100.0, 100.0, np.nan, np.nan], "b": [50.0, 51, 52, 53, 54]}, index=dts)
class Clips(bt.Algo):
    def __call__(self, target):
        if target.now == dts[0]:
            target.allocate(10.0, child="a"); target.allocate(20.0, child="a")
        elif target.now == dts[1]:
            target.allocate(-30.0, child="a")          # 0.1 + 0.2 - 0.3 units: 5.6e-17 are left, below the library's own zero tolerance
        return True
s = bt.Strategy("s", [Clips(), bt.algos.RunAfterDate(dts[2]), bt.algos.SelectThese(["b"]), bt.algos.WeighEqually(), bt.algos.Rebalance()])
t = bt.Backtest(s, data, integer_positions=False, initial_capital=1000.0, progress_bar=False)
try:
    t.run(); out = dict(still=False, completed=True)
except Exception as e:
    out = dict(still="price is nan" in str(e), raised=repr(e)[:200])
print("JSON:" + json.dumps(out))
"""

KNOWN_WITNESSES = {"C10-nested-runonce-trades-on-synthetic-first-date": KNOWN_WITNESS_SRC, "C10-float-residue-of-a-closed-position-is-closed-again-at-a-missing-price": KNOWN_WITNESS_RESIDUE_SRC}


def known_witness(f):
    """replays the recorded failing input of a known finding on the current tree (real code)"""
    if f["id"] not in KNOWN_WITNESSES:
        return None
    from pyvc.replay import Scratch

    with Scratch() as sc:
        d = sc.run_json(KNOWN_WITNESSES[f["id"]], timeout=120)
    return bool(d.get("still"))


# functions under contract elsewhere whose obligations carry this property's tag as well (found by tools/tagaudit.py): run here too, so that a change
# which breaks one of them is reported by this check and not only by a neighbour
def tasks(tier, seed):
    return _tasks_core(tier, seed) + [
        func("bt.algos.RunPeriod.__call__"),
        func("bt.backtest.Backtest.run"),
    ]
