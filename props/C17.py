"""C17 - Fixed-income strategies account by notional, coupons and carry"""
from pyvc.runner import func

UPDATE_ALL = [func("bt.core.StrategyBase.update", variant=v) for v in ("flat", "paper", "nested", "nested-paper")]

ID = "C17"
META = {
    "assumptions": ['A-REAL', 'A-COMM', 'A-T', 'A-IND', 'A-CYTHON', 'A-SOLVER', 'A-ENGINE'],
    "explanation": "Each security class's update proved against its functional spec: notional = market value (plain), position (fixed income, coupon paying), 0 with an identically-zero buffer (hedge variants); coupon = position*coupon[t] (raises on NaN with open position), holding cost by sign of position on |position|, capital := coupon - cost (set, not accumulated); update proved to sum |child notional|, sweep parked capital on the next date, move the index additively by 100*pnl/last notional (falling back to current notional; flat when both and pnl are zero; raises otherwise) and weigh children by notional.",
}
MANIFEST_ENTRY = {
    "level_text": "Deductive proof of the per-class notional/coupon/carry clauses and of update's fixed-income clauses for all inputs.",
    "level_note": "Reals not floats; StrategyBase.rebalance (notional amount, transact for fixed-income children) and algos.Rebalance (base from temp['notional_value']) are under contract; SetNotional is proved to return True exactly when its series has a value dated now (and then to set temp['notional_value'] from that row) and False otherwise; CouponPayingSecurity.setup's lookups of the coupon / holding-cost tables and the renormalised result are covered by the bounded stand-in only.",
    "technique": "contract-based deductive verification: VCs from the real AST (pyvc) discharged by z3/cvc5; loop invariants with ghost sums; lemmas over contract clauses",
}


def tasks(tier, seed):
    return [
        func("bt.algos.SetNotional.__call__"),
        func("bt.core.StrategyBase.transact"),
        func("bt.core.StrategyBase.rebalance"),
        func("bt.algos.Rebalance.__call__"),
        dict(kind="custom", module="props.c04_tasks", fn="setup_clauses"),
        dict(kind="custom", module="props.lemmas", fn="c06_rebalance_lemmas"),
        dict(kind="custom", module="props.bounded", fn="run_script", script="c17_fixed_income", seed=seed, n=10 if tier == "quick" else 200, props=["C17"]),
        *UPDATE_ALL,
        func("bt.core.SecurityBase.update"),
        func("bt.core.FixedIncomeSecurity.update"),
        func("bt.core.CouponPayingSecurity.update"),
        func("bt.core.HedgeSecurity.update"),
        func("bt.core.CouponPayingHedgeSecurity.update"),
    ]


def replay(o):
    if o.get("replay_inline"):
        return o["replay_inline"]
    from pyvc.concrete import replay_scenario

    return replay_scenario(o)


def post(results, tier, seed):
    b = [r["bounded"] for r in results if r.get("bounded")]
    return None, dict(bounded_stand_ins=b, bounded_note="real runs on the interpreted scratch copy; never counted in obligations/discharged")
