"""C17 - Fixed-income strategies account by notional, coupons and carry"""
from pyvc.runner import func

UPDATE_ALL = [func("bt.core.StrategyBase.update", variant=v) for v in ("flat", "paper", "nested", "nested-paper")]

ID = "C17"
META = {
    "assumptions": ['A-REAL', 'A-COMM', 'A-T', 'A-IND', 'A-DATA-NONE', 'A-CYTHON', 'A-SOLVER', 'A-ENGINE'],
    "explanation": "Each security class's update proved against its functional spec: notional = market value (plain), position (fixed income, coupon paying), 0 with an identically-zero buffer (hedge variants); coupon = position*coupon[t] (raises on NaN with open position), holding cost by sign of position on |position|, capital := coupon - cost (set, not accumulated); update proved to sum |child notional|, sweep parked capital on the next date, move the index additively by 100*pnl/last notional (falling back to current notional; flat when both and pnl are zero; raises otherwise) and weigh children by notional.",
}
MANIFEST_ENTRY = {
    "level_text": "Deductive proof of the per-class notional/coupon/carry clauses and of update's fixed-income clauses for all inputs.",
    "level_note": "Reals not floats; rebalance/transact fixed-income branches, SetNotional and the renormalised result are not yet under contract.",
    "technique": "contract-based deductive verification: VCs from the real AST (pyvc) discharged by z3/cvc5; loop invariants with ghost sums; lemmas over contract clauses",
}


def tasks(tier, seed):
    return [
        *UPDATE_ALL,
        func("bt.core.SecurityBase.update"),
        func("bt.core.FixedIncomeSecurity.update"),
        func("bt.core.CouponPayingSecurity.update"),
        func("bt.core.HedgeSecurity.update"),
        func("bt.core.CouponPayingHedgeSecurity.update"),
    ]


def replay(o):
    from pyvc.concrete import replay_scenario

    return replay_scenario(o)
