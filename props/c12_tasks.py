"""Tasks of property C12 that are not plain function-vs-contract verifications."""
import datetime
import time

import z3

from pyvc import dsl
from pyvc.dsl import Num, And, Or, Not, Implies
from pyvc.heap import Heap, RefV
from pyvc.state import State, Oblig
from pyvc.prover import prove, model_to_dict

COMPARATORS = {
    "RunDaily": "day",
    "RunWeekly": "week",
    "RunMonthly": "month",
    "RunQuarterly": "quarter",
    "RunYearly": "year",
}


# ----------------------------------------------------------------------------- independent calendar spec
def spec_key(period, d):
    """d: datetime.date (stdlib, proleptic Gregorian).  Keys computed without pandas."""
    o = d.toordinal()
    if period == "day":
        return o
    if period == "week":
        return (o - 1) // 7  # ordinal 1 (0001-01-01) is a Monday: ISO weeks are Monday-based 7-day blocks
    if period == "month":
        return 12 * d.year + d.month
    if period == "quarter":
        return 4 * d.year + (d.month - 1) // 3
    if period == "year":
        return d.year
    raise ValueError(period)


PANDAS_ACCESSOR = {
    "year": lambda ts: ts.year,
    "month": lambda ts: ts.month,
    "quarter": lambda ts: ts.quarter,
    "week": lambda ts: ts.week,
    "weekofyear": lambda ts: ts.weekofyear,
    "day": lambda ts: ts.day,
    "dayofweek": lambda ts: ts.dayofweek,
    "date": lambda ts: ts.date(),
    "isoyear": lambda ts: ts.isocalendar()[0],
    "isoweek": lambda ts: ts.isocalendar()[1],
    "isoweekday": lambda ts: ts.isocalendar()[2],
}


def _result(oid, verdict, secs, kind="post", model=None, info=None, func=None):
    d = dict(id=oid, kind=kind, props=["C12"], verdict=verdict, backend="z3", secs=round(secs, 4), func=func)
    if model is not None:
        d["model"] = model
    if info:
        d["info"] = info
    return d


def comparator_task(task):
    """(1) deductive: the body of <cls>.compare_dates is a key inequality K(now) != K(d) over calendar
    accessors, K extracted from the body;  (2) exhaustive: K induces the same partition of all days
    of the Timestamp range as the independent spec key (complete, not sampled)."""
    from pyvc.source import Program
    from pyvc.ext_algos import AlgoExecutor, CAL
    from contracts.schema import core_schema
    from contracts import registry

    cls = task["cls"]
    period = COMPARATORS[cls]
    q = "bt.algos.%s.compare_dates" % cls
    out = dict(results=[], samples=[], qualname=q, violations=[])
    prog = Program()
    R = registry.build()
    ex = AlgoExecutor(prog, core_schema(), R["contracts"], inline=R["inline"])
    fi = prog.func(q)
    out["source_hash"] = fi.source_hash()
    a, b = dsl.fresh_int("now"), dsl.fresh_int("d")
    st = State(Heap(ex.schema))
    recv = RefV(dsl.fresh_ref("self"), cls)
    t0 = time.time()
    try:
        exits = ex.run_function(fi, st, recv, [a, b])
    except Exception as e:
        # the body is not a comparison of calendar accessors (outside the subset): nothing is proved about it; the real comparator is run against the
        # independent calendar key on neighbouring rows of every kind (bounded stand-in) - a disagreement is a violation with a replayable input
        return _real_comparator_search(out, cls, period, q, "%s" % str(e).splitlines()[0][:160])
    trues = []
    for (s, oc) in exits:
        if oc.kind != "return":
            return dict(out, undecided="compare_dates exit of kind %s" % oc.kind)
        v = oc.value
        extra = [p for p in s.pc]
        if v is True:
            trues.append(z3.And(*extra) if extra else z3.BoolVal(True))
        elif v is False:
            pass
        elif dsl.is_z3(v):
            trues.append(z3.And(*(extra + [v])))
        else:
            return dict(out, undecided="non-boolean result")
    Rf = z3.Or(*trues) if trues else z3.BoolVal(False)
    # extract accessor applications on `now`
    used = []

    def walk(t):
        if z3.is_app(t):
            for name, f in CAL.items():
                if t.decl().eq(f) and t.num_args() == 1 and name not in used:
                    used.append(name)
            for c in t.children():
                walk(c)

    walk(Rf)
    key = z3.Or(*[CAL[n](a.r) != CAL[n](b.r) for n in used]) if used else z3.BoolVal(False)
    o = Oblig("%s.compare_dates/is-key-inequality" % cls, [], Rf == key, "post", ("C12",))
    r = prove(o)
    out["results"].append(_result(o.id, r.verdict, r.secs, model=model_to_dict(r.model) if r.model is not None else None, func=q))
    out["key_code"] = used
    out["paths"] = len(exits)
    out["symexec_s"] = round(time.time() - t0, 3)
    if r.verdict != "proved":
        # fall back: brute-force disagreement search on real code below still runs with the declared period
        pass
    # ---- (2) exhaustive partition check on the real pandas accessors
    import pandas as pd

    t1 = time.time()
    lo, hi = pd.Timestamp("1677-09-22"), pd.Timestamp("2262-04-11")  # first/last whole days of the ns Timestamp range
    days = pd.date_range(lo, hi, freq="D")
    acc = [PANDAS_ACCESSOR[n] for n in used]
    code2spec = {}
    spec2code = {}
    bad = None
    n = 0
    for ts in days:
        n += 1
        kc = tuple(f(ts) for f in acc)
        ks = spec_key(period, datetime.date(ts.year, ts.month, ts.day))
        p = code2spec.get(kc)
        if p is None:
            code2spec[kc] = (ks, ts)
        elif p[0] != ks and bad is None:
            bad = ("misses-a-period-change", p[1], ts)
        p2 = spec2code.get(ks)
        if p2 is None:
            spec2code[ks] = (kc, ts)
        elif p2[0] != kc and bad is None:
            bad = ("fires-inside-one-period", p2[1], ts)
    # intraday stamps: accessors must ignore the time of day (every 97th day, three times of day)
    intr = 0
    for ts in days[::97]:
        base = tuple(f(ts) for f in acc)
        for h in ("09:30:00", "12:00:01", "23:59:59"):
            t2 = ts + pd.Timedelta(h)
            intr += 1
            if tuple(f(t2) for f in acc) != base and bad is None:
                bad = ("time-of-day-changes-key", ts, t2)
    out["exhaustive"] = dict(days=n, intraday_stamps=intr, code_keys=len(code2spec), spec_keys=len(spec2code), secs=round(time.time() - t1, 2), first=str(days[0].date()), last=str(days[-1].date()))
    oid = "%s.compare_dates/key-partition-equals-calendar-%s(all %d days)" % (cls, period, n)
    if bad is None and r.verdict == "proved":
        out["results"].append(dict(id=oid, kind="exhaustive", props=["C12"], verdict="proved", backend="exhaustive-enumeration", secs=round(time.time() - t1, 3), func=q))
    elif bad is not None:
        # replay on the real comparator
        import importlib, sys

        kind_, d1, d2 = bad
        out["results"].append(
            dict(id=oid, kind="exhaustive", props=["C12"], verdict="refuted", backend="exhaustive-enumeration", secs=round(time.time() - t1, 3), func=q,
                 model=dict(kind=kind_, date_a=str(d1), date_b=str(d2), key_code=used, period=period), info=dict(witness="%s: %s vs %s" % (kind_, d1, d2)))
        )
    out["samples"].append(dict(comparator=cls, key_extracted_from_body=used, days_enumerated=n, code_keys=len(code2spec), spec_keys=len(spec2code)))
    return out


REAL_COMPARATOR_SRC = """
import json, datetime, warnings
warnings.filterwarnings("ignore")
import pandas as pd
import bt
from bt import algos
CLS, PERIOD = %r, %r
def spec_key(period, d):
    o = d.toordinal()
    if period == "day": return o
    if period == "week": return (o - 1) // 7
    if period == "month": return 12 * d.year + d.month
    if period == "quarter": return 4 * d.year + (d.month - 1) // 3
    return d.year
algo = getattr(algos, CLS)()
days = pd.date_range("1990-01-01", "2041-01-01", freq="D")
bad, n = None, 0
def chk(a, b):
    global bad, n
    n += 1
    want = spec_key(PERIOD, a.date()) != spec_key(PERIOD, b.date())
    for (x, y) in ((a, b), (b, a)):                        # the previous row, or the next one in end-of-period mode
        got = bool(algo.compare_dates(x, y))
        if got != want and bad is None: bad = dict(now=str(x), neighbour=str(y), returned=got, period_changes=want)
for i, d in enumerate(days[:-400]):
    chk(d + pd.Timedelta(hours=16), days[i + 1] + pd.Timedelta(hours=13))           # an early close after a normal one (21 h apart)
    chk(d + pd.Timedelta("09:30:00"), d + pd.Timedelta("16:00:00"))                  # two stamps of one day
    chk(d + pd.Timedelta("18:00:00"), days[i + 1])                                   # 6 h apart across midnight
    for gap in (1, 2, 3, 7, 31, 92, 366):
        chk(d, days[i + gap])
    if bad is not None: break
print("JSON:" + json.dumps(dict(pairs=n, bad=bad)))
"""


def _real_comparator_search(out, cls, period, q, why):
    from pyvc.replay import Scratch

    t1 = time.time()
    out["results"].append(dict(id="%s.compare_dates/is-key-inequality" % cls, kind="post", props=["C12"], verdict="unknown", backend="z3", secs=0.0, func=q, info=dict(reason="body outside the subset: " + why)))
    with Scratch() as sc:
        d = sc.run_json(REAL_COMPARATOR_SRC % (cls, period), timeout=1500)
    oid = "bounded/%s.compare_dates/agrees-with-the-calendar-key-on-neighbouring-rows" % cls
    if d.get("bad"):
        out["results"].append(dict(id=oid, kind="bounded", props=["C12"], verdict="refuted", backend="real-execution", secs=round(time.time() - t1, 3), func=q, model=d["bad"],
                                   info=dict(witness="compare_dates(%s, %s) returned %s" % (d["bad"]["now"], d["bad"]["neighbour"], d["bad"]["returned"])), replay_inline=dict(reproduced=True, witness=d["bad"], script="props/c12_tasks.py REAL_COMPARATOR_SRC")))
    else:
        out["undecided"] = "compare_dates of %s is outside the subset (%s) and the real-code search over %s pairs found no disagreement" % (cls, why, d.get("pairs"))
    out["samples"].append(dict(comparator=cls, real_code_pairs=d.get("pairs")))
    return out


# ----------------------------------------------------------------------------- counting lemmas
def counting_lemmas(task):
    """history-shaped statements proved from the functional specs by explicit induction over calls"""
    out = dict(results=[], samples=[])
    I = z3.Int

    def lemma(oid, hyps, goal):
        o = Oblig(oid, hyps, goal, "lemma", ("C12",))
        r = prove(o)
        out["results"].append(_result(o.id, r.verdict, r.secs, kind="lemma", model=model_to_dict(r.model) if r.model is not None else None))

    # RunAfterDays(days0): after k calls days == max(days0-k, 0); the (k+1)-th call returns (k >= days0)
    d0, k, d = I("days0"), I("k"), I("days")
    inv = lambda dd, kk: dd == z3.If(d0 - kk > 0, d0 - kk, 0)
    d1 = z3.If(d > 0, d - 1, d)
    res = z3.Not(d > 0)
    lemma("RunAfterDays/counting/base", [d0 >= 0], inv(d0, 0))
    lemma("RunAfterDays/counting/step", [d0 >= 0, k >= 0, inv(d, k)], z3.And(inv(d1, k + 1), res == (k >= d0)))
    # RunOnce: True exactly on the first call
    h = z3.Bool("has_run")
    lemma("RunOnce/counting/step", [k >= 0, h == (k >= 1)], z3.And(z3.Not(h) == (k == 0), True == (k + 1 >= 1)))
    # RunEveryNPeriods(n, offset): on the k-th distinct date (k>=1) it fires iff (k-1-offset) is a multiple of n, 0<=offset<n.
    # invariant after k distinct dates with f fires so far:  idx == n-1-offset + k - n*f  /\  0 <= idx < n
    n, off, idx, f = I("n"), I("offset"), I("idx"), I("fires")
    invE = lambda ix, kk, ff: z3.And(ix == n - 1 - off + kk - n * ff, ix >= 0, ix < n)
    fire = idx == n - 1
    idx1 = z3.If(fire, 0, idx + 1)
    f1 = z3.If(fire, f + 1, f)
    lemma("RunEveryNPeriods/counting/base", [n >= 1, off >= 0, off < n], invE(n - off - 1, 0, 0))
    lemma("RunEveryNPeriods/counting/step", [n >= 1, off >= 0, off < n, k >= 0, f >= 0, invE(idx, k, f)], z3.And(invE(idx1, k + 1, f1), fire == (k - off == n * f)))
    # same date twice: second call is ignored
    out["samples"].append(dict(lemma="RunEveryNPeriods fires on distinct date k+1 iff k-offset == n*fires (i.e. (k-offset) mod n == 0)"))
    return out


def constructor_task(task):
    """the date / counting schedulers keep their parameters as given: every `self.<field> = <expr>` of their __init__ stores the parameter itself,
    `pd.to_datetime(parameter)` (the same instant, intraday part included) or a list of those - nothing that rounds, shifts or truncates it.
    AST obligation on the real source, seen through locals that are assigned once; an expression of another shape leaves it undecided."""
    import ast
    from pyvc.source import Program

    prog = Program()
    out = dict(results=[], samples=[])
    for cls in ("RunOnDate", "RunAfterDate", "RunAfterDays", "RunEveryNPeriods", "RunOnce"):
        q = "bt.algos.%s.__init__" % cls
        if not prog.has(q):
            continue
        fn = prog.func(q).node
        params = {a.arg for a in fn.args.args[1:]} | ({fn.args.vararg.arg} if fn.args.vararg else set())
        once = {}
        for n in ast.walk(fn):
            if isinstance(n, ast.Assign) and len(n.targets) == 1 and isinstance(n.targets[0], ast.Name):
                once.setdefault(n.targets[0].id, []).append(n.value)

        def see(v):
            for _ in range(4):
                if isinstance(v, ast.Name) and v.id not in params and len(once.get(v.id, [])) == 1:
                    v = once[v.id][0]
            return v

        def is_to_datetime(v, names):
            return (isinstance(v, ast.Call) and isinstance(v.func, ast.Attribute) and v.func.attr == "to_datetime" and len(v.args) == 1 and not v.keywords
                    and isinstance(see(v.args[0]), ast.Name) and see(v.args[0]).id in names)

        def classify(v, names):
            v = see(v)
            if isinstance(v, ast.Constant) or (isinstance(v, ast.Name) and v.id in names) or is_to_datetime(v, names):
                return "kept"
            if isinstance(v, ast.ListComp) and len(v.generators) == 1 and isinstance(v.generators[0].target, ast.Name) and not v.generators[0].ifs \
                    and isinstance(see(v.generators[0].iter), ast.Name) and see(v.generators[0].iter).id in names:
                return classify(v.elt, names | {v.generators[0].target.id})
            # something is applied on top of the parameter (or of its to_datetime): the stored value is no longer the instant / number passed in
            inner = [x for x in ast.walk(v) if (isinstance(x, ast.Name) and x.id in names)]
            return "altered" if inner else "unknown"

        for n in ast.walk(fn):
            if isinstance(n, ast.Assign) and len(n.targets) == 1 and isinstance(n.targets[0], ast.Attribute) and isinstance(n.targets[0].value, ast.Name) and n.targets[0].value.id == "self":
                field = n.targets[0].attr
                if field not in params:
                    continue      # derived state (counters, flags): the __call__ contracts speak about it; here only the fields that carry a parameter
                c = classify(n.value, set(params))
                verdict = {"kept": "proved", "altered": "refuted", "unknown": "unknown"}[c]
                out["results"].append(dict(id="%s.__init__/%s-is-the-parameter-as-given" % (cls, n.targets[0].attr), kind="post", props=["C12"], verdict=verdict, backend="ast-scan", secs=0.0, func=q,
                                           model=dict(stored=ast.unparse(n.value)[:120]) if verdict == "refuted" else None, reason=("unclassified expression %s" % ast.unparse(n.value)[:120]) if verdict == "unknown" else None))
    return out
