"""C14 - Selection algos select exactly the documented, tradable set"""
from pyvc.runner import func

ID = "C14"
SELECTORS = ["SelectTypes", "SelectAll", "SelectThese", "SelectHasData", "SelectWhere", "SelectRegex", "SelectActive", "SelectN", "SetStat", "StatTotalReturn"]
META = {
    "assumptions": ["A-PANDAS", "A-TIME", "A-EXT", "A-T", "A-SOLVER", "A-ENGINE"],
    "explanation": "The real __call__ bodies of SelectAll, SelectThese, SelectHasData, SelectWhere, SelectRegex, SelectActive, SelectTypes, SelectN, SetStat and StatTotalReturn are executed symbolically over a "
    "label-sequence / Series algebra (membership predicate + order key, values with NaN flags) and temp['selected'] / temp['stat'] is proved equal to the documented set at skolem labels: same membership, "
    "same relative order, for every universe, date, flag combination and prior temp. Headline clauses proved separately: never a ticker outside the universe, by default never a missing/zero/negative "
    "current price; SelectN: every kept item is at least as good as every dropped candidate, ordered by the statistic, count = n or int(n*candidates) (none if all_or_none and too few); SetStat/StatTotalReturn: "
    "row at now-lag / total return over exactly [now-lag-lookback, now-lag]. The pandas operators the algebra assumes are audited exhaustively on all 125 rows of 3 tickers over {NaN,-1,0,1,2} "
    "against the real algos, which also covers ResolveOnTheRun and SelectMomentum (bounded, not proved). SelectRandomly is proved to draw from the tradable candidates only (prior selection or universe columns; priced and, unless include_negative, positive on the current row) and to keep every candidate when no n is given; the size and uniformity of the draw are random.sample's (A-EXT).",
}
MANIFEST_ENTRY = {
    "level_text": "Deductive proof (for all universes, dates, parameters and prior temp contents) that ten selection/statistic algos leave exactly the documented collection, modulo the stated pandas operator "
    "semantics; the remaining three selectors and the operator semantics themselves are covered by an exhaustive small-domain run-time audit, labelled bounded.",
    "level_note": "A-PANDAS: dropna / boolean-mask indexing / label-based loc / count / stable sort_values / head slicing behave as the reference in pyvc.ext_frames (audited at run time, not proved); ffn.calc_total_return is "
    "an uninterpreted function of the window (A-EXT); DateOffsets are non-negative integers (A-TIME): calendar-aware month arithmetic of the window start is not modelled; ties in SelectN follow pandas' sort.",
    "technique": "contract-based deductive verification over a label/Series algebra (pyvc VCs + z3, skolemised set/sequence equality); exhaustive small-domain audit of the pandas axioms",
}


def _tasks_core(tier, seed):
    ts = [func("bt.algos.%s.__call__" % c) for c in SELECTORS]
    ts += [func("bt.algos.SelectRandomly.__call__", variant="with-n"), func("bt.algos.SelectRandomly.__call__", variant="no-n")]
    ts.append(dict(kind="custom", module="props.bounded", fn="run_script", script="c14_select", seed=seed, n=1, props=["C14"]))
    return ts


def post(results, tier, seed):
    b = [r["bounded"] for r in results if r.get("bounded")]
    return None, dict(bounded_stand_ins=b, bounded_note="exhaustive small-domain audit on the real interpreted code; never counted in obligations/discharged")


def replay(o):
    return o.get("replay_inline")


# functions under contract elsewhere whose obligations carry this property's tag as well (found by tools/tagaudit.py): run here too, so that a change
# which breaks one of them is reported by this check and not only by a neighbour
def tasks(tier, seed):
    return _tasks_core(tier, seed) + [
        func("bt.core.StrategyBase.universe"),
    ]
