"""C06 - Rebalance brings every child to its target weight"""
from pyvc.runner import func

UPDATE_ALL = [func("bt.core.StrategyBase.update", variant=v) for v in ("flat", "paper", "nested", "nested-paper")]

ID = "C06"
META = {
    "assumptions": ["A-REAL", "A-COMM", "A-T", "A-IND", "A-SOLVER", "A-ENGINE"],
    "explanation": "StrategyBase.rebalance verified against clauses over its ghost call log: a zero target closes the child (or does nothing when the child does not exist), a non-zero "
    "target performs exactly one trade on the named child (created lazily if needed), for the amount target*base - current holding computed from the child's weight and the strategy's "
    "value at the time of the trade (notional analogue and transact-vs-allocate choice for fixed income), with the update flag passed down; SecurityBase.allocate's exact-cost clause; "
    "algos.Rebalance.__call__ verified iteration by iteration (base captured before any trade; every non-target with open value closed with update deferred; exactly one rebalance(weight, child, captured base x (1-cash), update=False) per target; one final root update), RebalanceOverTime.__call__ (step target = current weight + remaining gap / days left, one real Rebalance per step, countdown and disarming, last step target = final target), StrategyBase.allocate (parent debited / self credited once, each child receives amount x its weight with update deferred); lemmas: with fractional positions and no costs the targeted child ends at (1-cash)*w of the strategy's value, for every prior holding and every cash fraction.",
}
MANIFEST_ENTRY = {
    "level_text": "Deductive proof, for all target weights, prior holdings, bases and cash fractions, of what StrategyBase.rebalance trades (call-log clauses on every exit of the real body) "
    "and, as lemmas over those clauses plus allocate's budget clauses, that the targeted child reaches (1-cash)*w exactly in the frictionless fractional case.",
    "level_note": "Reals not floats; close is verified on a fresh tree (root not stale): KeyError iff unknown child, one trade of minus the child's value (position for fixed income) with the caller's update flag, position zero afterwards up to the code's is_zero; the integer/cost case inherits C05's one-unit bound; the end-to-end weight after costs and whole-unit rounding is exercised only by the bounded stand-in c06_rebalance.",
    "technique": "contract-based deductive verification: VCs from the real AST (pyvc) + z3; ghost call log; lemmas over contract clauses",
}


def _tasks_core(tier, seed):
    return [
        func("bt.core.StrategyBase.flatten"),
        func("bt.core.StrategyBase.close"),
        func("bt.core.StrategyBase.rebalance"),
        func("bt.core.SecurityBase.allocate"),
        *UPDATE_ALL,
        dict(kind="custom", module="props.lemmas", fn="c06_rebalance_lemmas"),
        func("bt.core.StrategyBase.allocate"),
        func("bt.algos.Rebalance.__call__"),
        func("bt.algos.RebalanceOverTime.__call__"),
        dict(kind="custom", module="props.bounded", fn="run_script", script="c06_rebalance", seed=seed, n=15 if tier == "quick" else 300, props=["C06"]),
    ]


def post(results, tier, seed):
    b = [r["bounded"] for r in results if r.get("bounded")]
    return None, dict(bounded_stand_ins=b, bounded_note="real runs on the interpreted scratch copy; never counted in obligations/discharged")


REPLAY = '''
import json
import pandas as pd, numpy as np
import bt
idx = pd.date_range("2020-01-01", periods=4)
data = pd.DataFrame({"a": [100.0, 100.0, 100.0, 100.0], "b": [50.0, 50.0, 50.0, 50.0]}, index=idx)
s = bt.Strategy("s", [bt.algos.SelectAll(), bt.algos.WeighSpecified(a=0.6, b=0.4), bt.algos.Rebalance()])
t = bt.Backtest(s, data, integer_positions=False, initial_capital=1000.0)
st = t.strategy
st.setup(t.data); st.adjust(1000.0); st.update(t.dates[0]); st.update(t.dates[1])
st.temp = {"weights": {"a": 0.6, "b": 0.4}}
bt.algos.Rebalance()(st)                     # fully invested 60/40
st.update(t.dates[2])
cash = %(cash)r
st.temp = {"weights": {"a": %(w)r}, "cash": cash}
bt.algos.Rebalance()(st)                     # now keep `cash` aside and target w for a
got = float(st.children["a"].weight)
want = (1 - cash) * %(w)r
print("JSON:" + json.dumps(dict(reproduced=abs(got - want) > 1e-9, weight_of_a=got, expected_weight=want, cash_fraction=cash, cash_weight=float(st.capital / st.value), module=bt.core.__file__)))
'''


def replay(o):
    from pyvc.replay import Scratch

    if o.get("replay_inline"):
        return o["replay_inline"]
    if "lemma" not in o["id"]:
        from pyvc.concrete import replay_scenario

        return replay_scenario(o)
    script = REPLAY % dict(cash=0.5, w=0.3)
    with Scratch() as sc:
        d = sc.run_json(script)
    d["replay_script"] = script
    return d


# functions under contract elsewhere whose obligations carry this property's tag as well (found by tools/tagaudit.py): run here too, so that a change
# which breaks one of them is reported by this check and not only by a neighbour
def tasks(tier, seed):
    return _tasks_core(tier, seed) + [
        func("bt.core.StrategyBase.transact"),
    ]
