"""C02 - Value is conserved"""
from pyvc.runner import func

UPDATE_ALL = [func("bt.core.StrategyBase.update", variant=v) for v in ("flat", "paper", "nested", "nested-paper")]

ID = "C02"
META = {
    "assumptions": ['A-REAL', 'A-COMM', 'A-T', 'A-IND', 'A-CYTHON', 'A-SOLVER', 'A-ENGINE'],
    "explanation": "Per-operation ledger clauses: a trade at the current price changes parent cash + position value by exactly -(fee + spread cost) (lemma from the functional specs of transact/outlay/adjust, which are proved against the bodies); update sweeps parked coupons into cash exactly once on a new date (capital' == capital + sum of swept child capital) and recomputes value from cash plus children.",
}
MANIFEST_ENTRY = {
    "level_text": 'Deductive proof of the per-operation conservation clauses and of the sweep/recompute clauses of update for all inputs; the day-by-day decomposition is their telescoping.',
    "level_note": "Reals not floats; the telescoping over the operations of a date is an induction over the ghost ledger stated in DESIGN.md (not mechanised beyond its per-operation steps).",
    "technique": "contract-based deductive verification: VCs from the real AST (pyvc) discharged by z3/cvc5; loop invariants with ghost sums; lemmas over contract clauses",
}


def tasks(tier, seed):
    return [
        *UPDATE_ALL,
        func("bt.core.SecurityBase.transact"),
        func("bt.core.SecurityBase.outlay"),
        func("bt.core.StrategyBase.adjust"),
        func("bt.core.StrategyBase.allocate"),      # capital moved between a parent and a sub-strategy: the parent is debited exactly what the child is credited, whatever their kinds
        func("bt.core.CouponPayingSecurity.update"),
        # mark-to-market: every security class is marked to position x price x multiplier and stays in its parent's update loop while a position is open
        func("bt.core.SecurityBase.update"),
        func("bt.core.FixedIncomeSecurity.update"),
        func("bt.core.HedgeSecurity.update"),
        func("bt.core.CouponPayingHedgeSecurity.update"),
        func("bt.backtest.Backtest.run"),       # every date ends with an update after the algos ran: costs are recorded on the date they are paid
        dict(kind="custom", module="props.lemmas", fn="c07_trade_lemmas"),
        dict(kind="custom", module="props.bounded", fn="run_script", script="c02_conservation", seed=seed, n=10 if tier == "quick" else 300, props=["C02"]),
    ]


def post(results, tier, seed):
    b = [r["bounded"] for r in results if r.get("bounded")]
    return None, dict(bounded_stand_ins=b, bounded_note="real backtests audited date by date from their recorded series; never counted in obligations/discharged")


def replay(o):
    from pyvc.concrete import replay_scenario

    return replay_scenario(o)
