# bounded stand-in for C16 on real runs: leveraged/short portfolios driven (or not) through zero
import json
import numpy as np, pandas as pd
import bt
from bt import algos as A
rs = np.random.RandomState(SEED)
fails, evals, distinct, samples = [], 0, set(), []
CALLS = []
class Spy(bt.Algo):
    def __call__(self, target):
        CALLS.append(target.now); return True
class Lever(bt.Algo):
    """on the first date: short `a` heavily and buy `b` with the proceeds (leverage), then hold"""
    def __init__(self, lev): super().__init__(); self.lev = lev; self.done = False
    def __call__(self, target):
        if self.done: return True
        self.done = True
        target.temp["weights"] = {"a": -self.lev, "b": 1.0 + self.lev * 0.5}
        return A.Rebalance()(target)
NESTED = PARAMS.get("nested", False)
for it in range(N):
    n = 12
    idx = pd.bdate_range("2020-01-01", periods=n)
    crash = bool(rs.randint(2)); k = int(rs.randint(3, n - 2))
    pa = np.full(n, 100.0); pb = np.full(n, 50.0)
    if crash: pa[k:] = 100.0 * float(rs.uniform(2.5, 6.0))   # the short leg explodes
    else: pa[k:] = 100.0 * float(rs.uniform(0.7, 1.2))
    data = pd.DataFrame({"a": pa, "b": pb}, index=idx)
    lev = float(rs.uniform(0.8, 1.5))
    del CALLS[:]
    if NESTED:
        sub = bt.Strategy("sub", [A.RunDaily(), Lever(lev)], children=["a", "b"])
        s = bt.Strategy("top", [Spy(), A.RunOnce(), A.SelectAll(), A.WeighSpecified(sub=1.0), A.Rebalance()], children=[sub])
    else:
        s = bt.Strategy("s", [Spy(), Lever(lev)])
    t = bt.Backtest(s, data, integer_positions=bool(rs.randint(2)), initial_capital=10000.0)
    evals += 1; distinct.add((crash, NESTED, k))
    try:
        t.run()
    except Exception as e:
        fails.append(dict(clause="run-raised", nested=NESTED, crash=crash, error=repr(e)[:200])); continue
    st = t.strategy
    vals = st.values
    neg = vals[vals < -1e-9]
    if crash and len(neg) == 0 and not st.bankrupt:
        continue  # leverage too small to go through zero: nothing to check
    if st.bankrupt != (len(neg) > 0 or bool((vals.loc[:].values < 0).any())):
        if not st.bankrupt and len(neg) > 0: fails.append(dict(clause="negative-root-value-not-flagged", first_negative=str(neg.index[0])))
        if st.bankrupt and len(neg) == 0 and not (vals.values <= 0).any(): fails.append(dict(clause="flagged-without-negative-value"))
    for m in st.members:
        if m is not st and getattr(m, "bankrupt", False): fails.append(dict(clause="sub-strategy-flagged", node=m.full_name))
    if st.bankrupt:
        d = neg.index[0] if len(neg) else vals.index[-1]
        pos = st.positions.loc[d:]
        if float(np.abs(pos.to_numpy()).sum()) > 1e-9: fails.append(dict(clause="positions-not-closed-from-bankruptcy-date", date=str(d), positions=pos.iloc[0].to_dict()))
        late = [c for c in CALLS if c > d]
        if late: fails.append(dict(clause="algos-run-after-bankruptcy", first=str(late[0])))
        after = vals.loc[d:]
        if float(after.max() - after.min()) > 1e-9: fails.append(dict(clause="value-not-constant-after-bankruptcy"))
        c_after = st.cash.loc[d:] if hasattr(st.cash, "loc") else None
        if c_after is not None and float(c_after.max() - c_after.min()) > 1e-9: fails.append(dict(clause="cash-not-constant-after-bankruptcy"))
    if it < 2: samples.append(dict(crash=crash, bankrupt=bool(st.bankrupt), nested=NESTED, final=float(st.value)))
# fixed-income strategies are never flagged
idx = pd.bdate_range("2020-01-01", periods=5)
d = pd.DataFrame({"a": [100.0, 100.0, 10.0, 1.0, 1.0]}, index=idx)
fi = bt.FixedIncomeStrategy("fi", [A.RunOnce(), A.SelectAll(), A.WeighEqually(), A.SetNotional("nv"), A.Rebalance()])
t = bt.Backtest(fi, d, additional_data={"nv": pd.Series(1e6, index=idx)}, integer_positions=False); t.run(); evals += 1
if t.strategy.bankrupt: fails.append(dict(clause="fixed-income-strategy-flagged"))
print("JSON:" + json.dumps(dict(evaluations=evals, distinct=len(distinct), failures=fails[:5], samples=samples,
      rule="short/leveraged two-asset portfolios whose short leg does or does not explode on a random date; spy algo records calls; flat tree or one nested level",
      bound="%d runs of 12 dates, nested=%s" % (N, NESTED))))
