# bounded stand-in for C07 on real objects: random operation histories on flat / nested trees with commissions, spreads, multipliers and custom
# transaction prices; (1) every single trade moves exactly q x p x multiplier + half-spread (or the custom-price difference) as outlay and
# comm(q, p x multiplier) as fee, once, out of the security's own parent; (2) for every strategy node and date the recorded change in cash equals
# capital received - outlays of its own securities - fees - capital passed to its sub-strategies (+ the non-flow adjustments made by the script)
import json, warnings
import numpy as np, pandas as pd
warnings.filterwarnings("ignore")
import bt
from bt.core import Strategy, Security, SecurityBase, StrategyBase
rs = np.random.RandomState(SEED)
fails, evals, distinct, samples = [], 0, set(), []
def bad(clause, **kw):
    if len(fails) < 8: fails.append(dict(clause=clause, **{k: (float(v) if isinstance(v, (np.floating, float)) else v) for k, v in kw.items()}))
FEES = [None, lambda q, p: abs(q) * 0.01, lambda q, p: abs(q) * p * 0.001, lambda q, p: 1.5 + abs(q) * 0.002 if q != 0 else 0.0]
for it in range(N):
    n = int(rs.randint(4, 8)); idx = pd.date_range("2021-06-01", periods=n)
    data = pd.DataFrame(100 * np.exp(np.cumsum(rs.randn(n, 4) * 0.03, axis=0)), index=idx, columns=list("abcd"))
    mult = {k: float(rs.choice([1.0, 1.0, 10.0, 0.5])) for k in "abcd"}
    nested = bool(rs.randint(2)); fk = int(rs.randint(len(FEES))); spread = bool(rs.randint(2)); intpos = bool(rs.randint(2))
    sec = lambda k: Security(k, multiplier=mult[k])
    if nested: root = Strategy("r", [], children=[Strategy("s1", [], children=[sec("a"), sec("b")]), sec("c"), sec("d")])
    else: root = Strategy("r", [], children=[sec("a"), sec("b"), sec("c")])
    bo = pd.DataFrame(rs.uniform(0.0, 0.4, size=(n, 4)), index=idx, columns=list("abcd"))
    root.setup(data, **({"bidoffer": bo} if spread else {})); root.use_integer_positions(intpos)
    fee_fn = FEES[fk]
    if fee_fn is not None: root.set_commissions(fee_fn)
    root.adjust(1e6); root.update(idx[0])
    strats = [m for m in root.members if isinstance(m, StrategyBase)]
    if nested: root.allocate(2e5, "s1"); root.update(idx[0])
    distinct.add((nested, fk, spread, intpos))
    NF = {}      # (node, date) -> non-flow adjustments made by the script
    try:
        for d in range(1, n):
            root.update(idx[d])
            for _ in range(int(rs.randint(1, 6))):
                s = strats[int(rs.randint(len(strats)))]; kids = list(s.children.keys()); k = str(rs.choice(kids))
                op = str(rs.choice(["flow", "nonflow", "fund", "rebalance", "close", "transact", "transact", "update"]))
                if op == "flow" and s is root: s.adjust(float(rs.choice([5e4, -2e4])))
                elif op == "nonflow": a_ = float(rs.choice([-75.0, 40.0])); s.adjust(a_, flow=False); NF[(s.full_name, d)] = NF.get((s.full_name, d), 0.0) + a_
                elif op == "fund": s.allocate(float(rs.choice([2e4, -1e4])), k)
                elif op == "rebalance": s.rebalance(float(rs.choice([0.0, 0.1, 0.25, -0.1])), k)
                elif op == "close": s.close(k)
                elif op == "update": root.update(idx[d])
                elif op == "transact" and isinstance(s.children[k], SecurityBase):
                    c = s.children[k]; root.update(idx[d])
                    q = float(rs.choice([10.0, -4.0, 25.0, -30.0])); px = float(c.price); m_ = c.multiplier
                    custom = float(np.round(px * rs.uniform(0.97, 1.03), 2)) if (spread and rs.rand() < 0.4) else None
                    cap0, fee0, out0, flow0 = float(s.capital), float(s._last_fee), float(c._outlay), float(s._net_flows)
                    others = {m.full_name: float(m.capital) for m in strats if m is not s}
                    c.transact(q, price=custom); evals += 1
                    half = (q * (custom - px) * m_) if custom is not None else (abs(q) * 0.5 * float(bo.loc[idx[d], k]) * m_ if spread else 0.0)
                    want_out = q * px * m_ + half
                    want_fee = fee_fn(q, (custom if custom is not None else px) * m_) if fee_fn is not None else 0.0
                    got_out = float(c._outlay) - out0; got_fee = float(s._last_fee) - fee0
                    tol = 1e-9 * max(1.0, abs(want_out))
                    if abs(got_out - want_out) > tol: bad("outlay-of-a-trade", security=c.full_name, q=q, price=px, multiplier=m_, custom_price=custom, got=got_out, want=want_out)
                    if abs(got_fee - want_fee) > 1e-9 * max(1.0, abs(want_fee)): bad("fee-of-a-trade", security=c.full_name, q=q, price=px, multiplier=m_, custom_price=custom, got=got_fee, want=want_fee)
                    if abs((cap0 - float(s.capital)) - (want_out + want_fee)) > tol: bad("parent-cash-moves-by-outlay-plus-fee-once", parent=s.full_name, moved=cap0 - float(s.capital), want=want_out + want_fee)
                    if abs(float(s._net_flows) - flow0) > 0: bad("a-trade-is-not-a-flow", parent=s.full_name)
                    for m in strats:
                        if m is not s and float(m.capital) != others[m.full_name]: bad("nobody-else-is-charged", charged=m.full_name, trade_in=c.full_name)
            root.update(idx[d])
    except ZeroDivisionError: continue          # a return base driven to zero: ill-formed history (C10)
    # (2) per node, per date: reconciliation from the recorded series
    for s in strats:
        cash = s.data["cash"]
        for d in range(1, n):
            own = [c for c in s.children.values() if isinstance(c, SecurityBase)]; subs = [c for c in s.children.values() if isinstance(c, StrategyBase)]
            want = float(s.flows.loc[idx[d]]) + NF.get((s.full_name, d), 0.0) - sum(float(c.outlays.loc[idx[d]]) for c in own) - float(s.fees.loc[idx[d]]) - sum(float(c.flows.loc[idx[d]]) for c in subs)
            got = float(cash.loc[idx[d]]) - float(cash.loc[idx[d - 1]]); evals += 1
            if abs(got - want) > 1e-6 * max(1.0, abs(got), abs(want)):
                bad("cash-change-reconciles-with-flows-outlays-fees-and-capital-passed-down", node=s.full_name, date=str(idx[d].date()), change=got, explained=want, flows=float(s.flows.loc[idx[d]]), fees=float(s.fees.loc[idx[d]]),
                    outlays=[float(c.outlays.loc[idx[d]]) for c in own], passed_down=[float(c.flows.loc[idx[d]]) for c in subs], non_flow=NF.get((s.full_name, d), 0.0)); break
    if it < 2: samples.append(dict(nested=nested, fee=fk, spreads=spread, final_cash=float(root.capital)))
print("JSON:" + json.dumps(dict(evaluations=evals, distinct=len(distinct), failures=fails[:5], samples=samples,
      rule="flat / nested trees, security multipliers 0.5 / 1 / 10, 4 fee shapes, optional spreads (then 40% of the trades at a custom price), whole or fractional units; 1-5 operations per date (flows at the root, non-flow adjustments, funding a child, rebalance, close, transact, update); every transact audited on the accumulators of the security and its parent, every node's cash row reconciled date by date",
      bound="%d histories of 3-7 dates" % N)))
