# bounded stand-in for C01 on real objects: random trees (flat, nested, a ticker shared by two sub-strategies) under random interleavings of
# adjust / allocate / rebalance / close / flatten / transact / update and date changes (direct API); at random observation points every strategy's
# value is its cash plus its children's values, every security's value is position x price x multiplier, every child's weight is value / parent
# value, and the rows recorded for a date equal the state at the end of that date
import json, warnings
import numpy as np, pandas as pd
warnings.filterwarnings("ignore")
import bt
from bt.core import Strategy, Security, SecurityBase, StrategyBase
rs = np.random.RandomState(SEED)
fails, evals, distinct, samples = [], 0, set(), []
skipped = 0
def bad(clause, **kw):
    if len(fails) < 8: fails.append(dict(clause=clause, **{k: (float(v) if isinstance(v, (np.floating, float)) else v) for k, v in kw.items()}))
def observe(root, where):
    ok = True
    for m in root.members:
        if isinstance(m, SecurityBase) and m.position != 0 and abs(m.price - float(DATA.loc[root.now, m.name])) > 1e-9 * max(1.0, abs(m.price)):
            bad("held-security-is-marked-at-the-price-of-the-current-date", node=m.full_name, price=m.price, quote=float(DATA.loc[root.now, m.name]), at=where); ok = False
        if isinstance(m, SecurityBase):
            want = m.position * m.price * m.multiplier if m.position != 0 else 0.0
            if abs(m.value - want) > 1e-7 * max(1.0, abs(want)): bad("security-value-is-position-x-price-x-multiplier", node=m.full_name, value=m.value, want=want, at=where); ok = False
        else:
            kids = list(m.children.values())
            want = m.capital + sum(c.value for c in kids)
            if abs(m.value - want) > 1e-7 * max(1.0, abs(want)): bad("strategy-value-is-cash-plus-children", node=m.full_name, value=m.value, want=want, at=where); ok = False
            for c in kids:
                w = c.value / m.value if abs(m.value) > 1e-12 else 0.0
                if abs(c.weight - w) > 1e-7 * max(1.0, abs(w)): bad("child-weight-is-value-over-parent-value", node=c.full_name, weight=c.weight, want=w, at=where); ok = False
    return ok
FEES = [None, lambda q, p: abs(q) * 0.01, lambda q, p: abs(q) * p * 0.001]
for it in range(N):
    n = int(rs.randint(4, 9)); idx = pd.date_range("2021-05-03", periods=n)
    data = pd.DataFrame(100 * np.exp(np.cumsum(rs.randn(n, 4) * 0.03, axis=0)), index=idx, columns=list("abcd"))
    shape = str(rs.choice(["flat", "nested", "shared"]))
    if shape == "flat": root = Strategy("r", [], children=["a", "b", "c"]); decl = {"r": ["a", "b", "c"]}
    elif shape == "nested": root = Strategy("r", [], children=[Strategy("s1", [], children=["a", "b"]), "c", "d"]); decl = {"r": ["s1", "c", "d"], "s1": ["a", "b"]}
    else: root = Strategy("r", [], children=[Strategy("s1", [], children=["a", "b"]), Strategy("s2", [], children=["a", "c"]), "d"]); decl = {"r": ["s1", "s2", "d"], "s1": ["a", "b"], "s2": ["a", "c"]}
    intpos = bool(rs.randint(2)); fk = int(rs.randint(len(FEES))); spread = bool(rs.randint(2))
    kw = {"bidoffer": pd.DataFrame(rs.uniform(0, 0.3, size=(n, 4)), index=idx, columns=list("abcd"))} if spread else {}
    root.setup(data, **kw); root.use_integer_positions(intpos)
    if FEES[fk] is not None: root.set_commissions(FEES[fk])
    root.adjust(1e6); root.update(idx[0])
    distinct.add((shape, intpos, fk, spread))
    strats = [m for m in root.members if isinstance(m, StrategyBase)]
    for s_ in strats[1:]: root.allocate(2e5, s_.name, update=False)       # sub-strategies start funded (a return on a zero base is ill-formed input, C10)
    root.update(idx[0])
    trace = []
    good = True; dirty = False
    DATA = data
    for d in range(1, n):
      if d < n - 1 and rs.rand() < 0.2: continue          # a hand-driven tree need not visit every date of its data
      try:
        root.update(idx[d])
        for _ in range(int(rs.randint(1, 6))):
            s = strats[int(rs.randint(len(strats)))]; k = str(rs.choice(decl[s.name]))       # string children are created on first use
            op = str(rs.choice(["adjust", "allocate", "rebalance", "close", "flatten", "transact", "update", "fund"])); upd = bool(rs.randint(2))
            try:
                if op == "adjust": s.adjust(float(rs.choice([5e4, -2e4])), update=upd) if s is root else s.adjust(float(rs.choice([-100.0, 50.0])), update=upd, flow=False)
                elif op == "allocate" and s is not root: s.allocate(float(rs.choice([1e4, -5e3])), update=upd)
                elif op == "fund": s.allocate(float(rs.choice([2e4, -1e4])), k, update=upd)
                elif op == "rebalance": s.rebalance(float(rs.choice([0.0, 0.1, 0.3, -0.1])), k, update=upd)
                elif op == "close" and k in s.children: s.close(k, update=upd)
                elif op == "flatten": s.flatten()
                elif op == "transact" and k in s.children and isinstance(s.children[k], SecurityBase): s.children[k].transact(float(rs.choice([10.0, -4.0, 25.0])), update=upd)
                elif op == "update": (root if rs.rand() < 0.5 else s).update(idx[d])        # the whole tree, or a sub-strategy alone
            except ZeroDivisionError: raise
            trace.append((str(idx[d].date()), op, s.name, k, upd))
            dirty = dirty or (not upd and op not in ("update", "flatten"))
            if rs.rand() < 0.4 or op == "update":      # always look after an update (a sub-strategy updated alone must not cancel the tree's pending refresh)
                # update=False is the caller's promise to update before looking (that is how Rebalance batches its trades): keep it
                if dirty: root.update(idx[d]); dirty = False
                evals += 1
                good = observe(root, "%s after %r" % (idx[d].date(), trace[-3:])) and good
        root.update(idx[d]); evals += 1; dirty = False
        good = observe(root, "%s end of date" % idx[d].date()) and good
        # the rows of the date equal this end-of-date state
        for m in root.members:
            row = m.data.loc[idx[d]]
            if abs(float(row["value"]) - float(m.value)) > 1e-7 * max(1.0, abs(m.value)): bad("row-value-is-end-of-date-value", node=m.full_name, date=str(idx[d].date()), row=float(row["value"]), state=float(m.value)); good = False
            if isinstance(m, SecurityBase) and abs(float(row["position"]) - float(m.position)) > 1e-9: bad("row-position-is-end-of-date-position", node=m.full_name, date=str(idx[d].date()), row=float(row["position"]), state=float(m.position)); good = False
            if isinstance(m, StrategyBase) and abs(float(row["cash"]) - float(m.capital)) > 1e-7 * max(1.0, abs(m.capital)): bad("row-cash-is-end-of-date-cash", node=m.full_name, date=str(idx[d].date()), row=float(row["cash"]), state=float(m.capital)); good = False
      except ZeroDivisionError:
        skipped += 1; break          # the history drove a node's return base to zero: the documented error of an ill-formed state, not a finding
        if not good: break
    if it < 2: samples.append(dict(shape=shape, dates=n, operations=len(trace), final_value=float(root.value)))
print("JSON:" + json.dumps(dict(evaluations=evals, distinct=len(distinct), failures=fails[:5], samples=samples,
      rule="flat / nested / shared-ticker trees, whole or fractional units, 3 fee shapes, optional spreads; 1-5 random operations per date out of adjust (flow at the root, non-flow below), allocate to a node or to a child, rebalance, close, flatten, transact, update - each with update on or off (an operation with update=False is followed by an update before the tree is looked at, as its contract asks) - observed after ~40% of the operations and at every end of date (identity at every node, weights, rows)",
      bound="%d histories of 3-8 dates (%d cut short at a zero return base)" % (N, skipped))))
