# bounded stand-in for C06 on real runs: Rebalance hits (1-cash)*w exactly (fractional, no costs), closes non-targets,
# sub-strategy targets spread by current weights, RebalanceOverTime follows curr + (w-curr)/days_left and reaches w
import json
import numpy as np, pandas as pd
import bt
from bt import algos as A
rs = np.random.RandomState(SEED)
fails, evals, distinct, samples = [], 0, set(), []
names = list("abcd")
def mkdata(n):
    idx = pd.bdate_range("2020-01-01", periods=n)
    return pd.DataFrame(100 * np.exp(np.cumsum(rs.randn(n, len(names)) * 0.03, axis=0)), index=idx, columns=names)
def randw(k, allow_short):
    w = rs.rand(k) * (rs.choice([-1, 1], size=k) if allow_short else 1)
    return w / (np.abs(w).sum() * rs.uniform(1.0, 1.6))
for it in range(N):
    data = mkdata(8)
    s = bt.Strategy("s", [])
    t = bt.Backtest(s, data, integer_positions=False, initial_capital=float(10 ** rs.randint(3, 7)))
    st = t.strategy
    st.setup(t.data); st.adjust(t.initial_capital); st.update(t.dates[0]); st.update(t.dates[1])
    ok_all = True
    for step in range(3):
        k = int(rs.randint(0 if step else 1, 4))      # after the first step also an EMPTY target vector: everything is closed
        sel = list(rs.choice(names, size=k, replace=False)) if k else []; w = randw(k, bool(rs.randint(2))) if k else np.array([])
        cash = float(rs.choice([0.0, 0.0, round(float(rs.uniform(0.05, 0.6)), 2)]))
        st.temp = {"weights": dict(zip(sel, map(float, w)))}
        if cash: st.temp["cash"] = cash
        if rs.rand() < 0.4: st.adjust(float(rs.choice([0.05, -0.02])) * float(st.value))          # capital moved earlier in the stack: the tree is stale when Rebalance starts, the targets are weights of the refreshed value
        A.Rebalance()(st)
        evals += 1; distinct.add((k, cash > 0, step))
        for nm in names:
            want = (1 - cash) * dict(zip(sel, w)).get(nm, 0.0)
            got = float(st.children[nm].weight) if nm in st.children else 0.0
            if abs(got - want) > 1e-9: fails.append(dict(clause="rebalance-hits-(1-cash)w-and-closes-others", child=nm, got=got, want=float(want), cash=cash, step=step)); ok_all = False
        if abs(float(st.capital / st.value) - (1 - (1 - cash) * float(np.sum(w)))) > 1e-9: fails.append(dict(clause="remainder-stays-in-cash", got=float(st.capital / st.value), cash=cash))
        st.update(t.dates[2 + step])
    # a user algo that keeps ONE target dict and hands it over every period, with a cash fraction: every rebalance lands on (1-c) x w again
    keep = {"a": 0.5, "b": 0.25}; cfrac = float(rs.choice([0.2, 0.4]))
    for step in range(3):
        st.temp = {"weights": keep, "cash": cfrac}; A.Rebalance()(st); evals += 1
        for nm, w_ in (("a", 0.5), ("b", 0.25)):
            if abs(float(st.children[nm].weight) - (1 - cfrac) * w_) > 1e-9: fails.append(dict(clause="rebalance-hits-(1-cash)w-and-closes-others", child=nm, got=float(st.children[nm].weight), want=(1 - cfrac) * w_, cash=cfrac, step=step, same_dict_reused=True))
        if keep != {"a": 0.5, "b": 0.25}: fails.append(dict(clause="target-weights-handed-over-are-not-modified", now=dict(keep)))
    # a held child cut down to a sliver of its holding is cut down to it, not closed
    sliver = (1 - cfrac) * 0.5 * 4e-6
    st.temp = {"weights": {"a": sliver}}; A.Rebalance()(st); evals += 1
    if abs(float(st.children["a"].weight) - sliver) > 1e-12: fails.append(dict(clause="rebalance-hits-(1-cash)w-and-closes-others", child="a", got=float(st.children["a"].weight), want=sliver, note="target far below the holding"))
    if it < 2: samples.append(dict(final_weights={n: float(c.weight) for n, c in st.children.items()}))
    # RebalanceOverTime over n periods with moving prices
    n = int(rs.randint(2, 5)); data = mkdata(n + 3)
    s = bt.Strategy("s", []); t = bt.Backtest(s, data, integer_positions=False); st = t.strategy
    st.setup(t.data); st.adjust(1e6); st.update(t.dates[0]); st.update(t.dates[1])
    st.temp = {"weights": {"a": 0.5, "b": 0.5}}; A.Rebalance()(st)
    rot = A.RebalanceOverTime(n); final = {"a": 0.2, "c": 0.6}
    for d in range(n):
        st.update(t.dates[2 + d]); st.temp = {"weights": dict(final)} if d == 0 else {}
        before = {k: (float(st.children[k].weight) if k in st.children else 0.0) for k in final}
        rot(st)
        evals += 1
        for k, wk in final.items():
            want = before[k] + (wk - before[k]) / (n - d)
            got = float(st.children[k].weight)
            if abs(got - want) > 1e-9: fails.append(dict(clause="rebalance-over-time-step", key=k, day=d, n=n, got=got, want=want))
    for k, wk in final.items():
        if abs(float(st.children[k].weight) - wk) > 1e-9: fails.append(dict(clause="rebalance-over-time-reaches-target", key=k, got=float(st.children[k].weight), want=wk, n=n))
    # sub-strategy target: receives capital like a security, spreads it by its children's current weights (long and short)
    data = mkdata(5)
    sub = bt.Strategy("sub", [], children=["a", "b"]); top = bt.Strategy("top", [], children=[sub, "c"])
    t = bt.Backtest(top, data, integer_positions=False); st = t.strategy
    st.setup(t.data); st.adjust(1e6); st.update(t.dates[0]); st.update(t.dates[1])
    sb = st.children["sub"]
    st.temp = {"weights": {"sub": 0.5, "c": 0.3}}; A.Rebalance()(st)
    wl = float(rs.uniform(0.3, 0.9)); sb.temp = {"weights": {"a": wl + 0.4, "b": -0.4 + (1 - wl) * 0 }}; A.Rebalance()(sb)
    st.update(t.dates[2])
    inner = {k: float(sb.children[k].weight) for k in ("a", "b")}
    newshare = float(rs.uniform(0.2, 0.8))
    st.temp = {"weights": {"sub": newshare, "c": 0.1}}; A.Rebalance()(st)
    evals += 1
    if abs(float(sb.weight) - newshare) > 1e-9: fails.append(dict(clause="sub-strategy-target-weight", got=float(sb.weight), want=newshare))
    for k in ("a", "b"):
        if abs(float(sb.children[k].weight) - inner[k]) > 1e-6 * max(1, abs(inner[k])) + 1e-9: fails.append(dict(clause="sub-strategy-spreads-by-current-weights", child=k, got=float(sb.children[k].weight), want=inner[k]))
print("JSON:" + json.dumps(dict(evaluations=evals, distinct=len(distinct), failures=fails[:5], samples=samples,
      rule="random target vectors (long/short, sum <= 1), random cash fractions, three successive rebalances per run on random price paths; RebalanceOverTime with n in 2..4 and moving prices; a sub-strategy target holding a short leg",
      bound="%d runs, fractional positions, no costs" % N)))
