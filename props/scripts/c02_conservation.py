# bounded stand-in for C02 on real runs: between consecutive dates the root's value moves by exactly the mark-to-market of the positions held
# at the end of the earlier date + flows + carry accrued on the earlier date - fees - spreads paid on the later date, recomputed from the recorded series
import json, warnings
import numpy as np, pandas as pd
warnings.filterwarnings("ignore")
import bt
from bt import algos as A
from bt.core import Security, CouponPayingSecurity, HedgeSecurity, FixedIncomeSecurity, FixedIncomeStrategy, Strategy, SecurityBase, StrategyBase
rs = np.random.RandomState(SEED)
fails, evals, distinct, samples = [], 0, set(), []
def bad(clause, **kw):
    if len(fails) < 8: fails.append(dict(clause=clause, **{k: (float(v) if isinstance(v, (np.floating, float)) else v) for k, v in kw.items()}))
def audit(root, label, info):
    secs = [m for m in root.members if isinstance(m, SecurityBase)]
    strats = [m for m in root.members if isinstance(m, StrategyBase)]
    V, F = root.values, root.flows
    idx = V.index
    for t in range(1, len(idx)):
        d0, d1 = idx[t - 1], idx[t]
        mtm = sum(float(s.positions.loc[d0]) * (float(s.prices.loc[d1]) - float(s.prices.loc[d0])) * s.multiplier for s in secs if float(s.positions.loc[d0]) != 0.0)
        carry = sum(float(s.coupons.loc[d0]) - float(s.holding_costs.loc[d0]) for s in secs if isinstance(s, CouponPayingSecurity))
        fees = sum(float(x.fees.loc[d1]) for x in strats)
        spread = sum(float(s.bidoffers_paid.loc[d1]) for s in secs if s._bidoffer_set)
        want = mtm + float(F.loc[d1]) + carry - fees - spread
        got = float(V.loc[d1]) - float(V.loc[d0])
        if not np.isfinite(got) or abs(got - want) > 1e-6 * max(1.0, abs(float(V.loc[d0])), abs(want)):
            bad("value-change-is-mtm-plus-flows-plus-carry-minus-costs", tree=label, date=str(d1.date()), moved=got, explained=want, mark_to_market=mtm, flows=float(F.loc[d1]), carry=carry, fees=fees, spread_paid=spread, **info)
            return
class Flows(bt.Algo):
    def __init__(self, ser): super().__init__(); self.ser = ser
    def __call__(self, target):
        a = float(self.ser.get(target.now, 0.0))
        if a: target.adjust(a)
        return True
class LateTrade(bt.Algo):
    """a custom algo whose last action of the day is a trade with update=False (nothing refreshes the root afterwards)"""
    def __init__(self, when, name, q): super().__init__(); self.when, self.name_, self.q = when, name, q
    def __call__(self, target):
        if target.now in self.when and self.name_ in target.children: target[self.name_].transact(self.q, update=False)         # (a name never selected so far does not exist yet)
        return True
FEES = [None, lambda q, p: abs(q) * 0.01, lambda q, p: abs(q) * p * 0.001, lambda q, p: 2.0 if q != 0 else 0.0, lambda q, p: q * p * 0.0005]       # the last one is signed: a rebate on sells
for it in range(N):
    n = int(rs.randint(12, 30)); idx = pd.bdate_range("2021-03-01", periods=n)
    fk = int(rs.randint(len(FEES))); intpos = bool(rs.randint(2)); spread_on = bool(rs.randint(2))
    # ---- A: market-value tree with a sub-strategy, fees, spreads, flows, a late un-refreshed trade
    data = pd.DataFrame(100 * np.exp(np.cumsum(rs.randn(n, 4) * 0.02, axis=0)), index=idx, columns=list("abcd"))
    flows = pd.Series(np.where(rs.rand(n) < 0.2, rs.choice([5e4, -2e4, 1e5], size=n), 0.0), index=idx)
    sub = Strategy("sub", [A.RunWeekly(), A.SelectAll(), A.WeighRandomly(), A.Rebalance()], children=["a", "b"])
    late = set(idx[sorted(set(rs.randint(2, n, size=2)))])
    top = Strategy("top", [Flows(flows), A.RunWeekly(), A.SelectThese(["sub", "c", "d"]), A.SelectRandomly(n=int(rs.randint(2, 4))), A.WeighRandomly(), A.Rebalance(), LateTrade(late, "d", float(rs.choice([5.0, -3.0])))], children=[sub, "c", "d"])
    add = {"bidoffer": pd.DataFrame(rs.uniform(0.0, 0.4, size=(n, 4)), index=idx, columns=list("abcd"))} if spread_on else {}
    np.random.seed(SEED + it); import random; random.seed(SEED + it)
    t = bt.Backtest(top, data, integer_positions=intpos, commissions=FEES[fk], additional_data=add, progress_bar=False); t.run(); evals += 1
    distinct.add(("mv", fk, intpos, spread_on))
    audit(t.strategy, "market-value tree with a sub-strategy", dict(fee=fk, integer=intpos, spreads=spread_on))
    # ---- B: fixed-income tree: coupons, holding costs, a hedge whose price touches exactly zero, lazily created coupon payers
    px = pd.DataFrame({"cp1": 100 + rs.randn(n).cumsum(), "cp2": 100 + rs.randn(n).cumsum(), "fi": 100 + rs.randn(n).cumsum(), "hg": np.round(rs.randn(n).cumsum(), 0)}, index=idx)
    if rs.rand() < 0.7: px.iloc[int(rs.randint(3, n - 3)):, 3] += 0.0; px.iloc[int(rs.randint(3, n - 2)), 3] = 0.0       # the hedge is worth exactly nothing on a date
    coup = pd.DataFrame(rs.choice([0.0, 0.0, 0.05, 0.2], size=(n, 2)), index=idx, columns=["cp1", "cp2"])
    cl = pd.DataFrame(rs.uniform(0, 0.03, size=(n, 2)), index=idx, columns=["cp1", "cp2"]); cs = pd.DataFrame(rs.uniform(0, 0.05, size=(n, 2)), index=idx, columns=["cp1", "cp2"])
    lazy = bool(rs.randint(2))
    kids = [CouponPayingSecurity("cp1", lazy_add=lazy), CouponPayingSecurity("cp2", lazy_add=lazy), FixedIncomeSecurity("fi"), HedgeSecurity("hg")]
    trades = {idx[int(k)]: (str(rs.choice(["cp1", "cp2", "fi", "hg"])), float(rs.choice([-1, 1]) * rs.randint(1, 30))) for k in sorted(set(rs.randint(1, n, size=int(rs.randint(3, 8)))))}
    trades = {d_: ((nm_, abs(q_)) if nm_ == "fi" else (nm_, q_)) for d_, (nm_, q_) in trades.items()}
    trades[idx[2]] = ("hg", 7.0); trades[idx[n - 2]] = ("hg", None)      # the hedge is opened and, late in the run, closed outright (None): a weightless security that goes flat
    trades[idx[1]] = ("fi", 50.0)         # a standing notional: an index on a zero base is ill-formed input (C10), not what is audited here
    class Trader(bt.Algo):
        def __call__(self, target):
            if target.now in trades:
                nm, q = trades[target.now]
                if q is None: target.close(nm)
                else: target.transact(q, nm)
            return True
    fis = FixedIncomeStrategy("fis", [Trader()], children=kids)
    t2 = bt.Backtest(fis, px, integer_positions=False, commissions=FEES[fk], additional_data=dict({"coupons": coup, "cost_long": cl, "cost_short": cs}, **({"bidoffer": pd.DataFrame(rs.uniform(0.0, 0.4, size=(n, 4)), index=idx, columns=list(px.columns))} if spread_on else {})), initial_capital=float(rs.choice([0.0, 1e5])), progress_bar=False); t2.run(); evals += 1
    distinct.add(("fi", fk, lazy))
    audit(t2.strategy, "fixed-income tree (coupons, holding costs, hedge)", dict(fee=fk, lazy_children=lazy))
    # ---- C: a hand-driven tree that visits only some of the dates of its data: between two visited dates the value moves by the mark-to-market
    # at THOSE dates' prices, minus the fees of the later one
    s3 = Strategy("h", [], children=["a", "b"]); s3.setup(data[["a", "b"]]); s3.use_integer_positions(False)
    if FEES[fk] is not None: s3.set_commissions(FEES[fk])
    s3.adjust(1e5); s3.update(idx[0])
    visited = [0] + sorted(set(int(x) for x in rs.randint(1, n, size=int(rs.randint(2, 6)))))
    for v in visited[1:]:
        s3.update(idx[v])
        if rs.rand() < 0.7: s3.allocate(float(rs.choice([2e4, -5e3, 1e4])), str(rs.choice(["a", "b"])))
        s3.update(idx[v])
    evals += 1
    for v0, v1 in zip(visited[:-1], visited[1:]):
        d0, d1 = idx[v0], idx[v1]
        mtm = sum(float(c.positions.loc[d0]) * (float(data.loc[d1, c.name]) - float(data.loc[d0, c.name])) for c in s3.children.values())
        want = mtm - float(s3.fees.loc[d1]); got = float(s3.values.loc[d1]) - float(s3.values.loc[d0])
        if abs(got - want) > 1e-6 * max(1.0, abs(float(s3.values.loc[d0]))):
            bad("value-change-is-mtm-plus-flows-plus-carry-minus-costs", tree="hand-driven tree visiting dates %r" % visited, date=str(d1.date()), moved=got, explained=want, mark_to_market=mtm, fees=float(s3.fees.loc[d1])); break
    if it < 2: samples.append(dict(dates=n, fee=fk, final_value=float(t.strategy.value), fi_final_value=float(t2.strategy.value)))
print("JSON:" + json.dumps(dict(evaluations=evals, distinct=len(distinct), failures=fails[:5], samples=samples,
      rule="(A) a market-value tree with a sub-strategy, weekly random re-weighting at both levels, 4 fee shapes, optional spreads, random capital flows and a custom algo that ends the day with an un-refreshed trade; (B) a fixed-income strategy holding two coupon payers (eager or lazy), a fixed-income security and a hedge whose price is exactly 0 on a date, random trades; (C) a hand-driven tree that visits only some of the dates; for every pair of consecutive (visited) dates the change in root value is recomputed from the recorded positions, prices, flows, coupons, holding costs, fees and spreads",
      bound="%d pairs of backtests of 12-29 dates" % N)))
