# bounded stand-in for C12 on real runs: every scheduler in front of a recording algo, run through the real Backtest over random date indices
# (gaps, intraday stamps, year ends, ISO week 52/53/1, one- and two-row data); the dates on which the recorder is reached are compared with the
# dates the parameters describe
import json, warnings
import numpy as np, pandas as pd
warnings.filterwarnings("ignore")
import bt
from bt import algos as A
rs = np.random.RandomState(SEED)
fails, evals, distinct, samples = [], 0, set(), []
def bad(clause, **kw):
    if len(fails) < 8: fails.append(dict(clause=clause, **kw))
LOG = []      # module level: the Backtest deep-copies the strategy, an attribute would be copied with it
class Spy(bt.Algo):
    def __call__(self, target): LOG.append(target.now); return True
def mkindex():
    kind = rs.randint(6)
    if kind == 0: start = pd.Timestamp(str(rs.choice(["2018-12-20", "2020-12-21", "2015-12-24", "2024-12-23", "2021-01-01"]))); idx = pd.date_range(start, periods=int(rs.randint(8, 25)), freq="D")
    elif kind == 1: idx = pd.bdate_range("2019-%02d-%02d" % (rs.randint(1, 13), rs.randint(1, 28)), periods=int(rs.randint(20, 90)))
    elif kind == 2: idx = pd.date_range("2020-02-20", periods=int(rs.randint(10, 40)), freq="6h")               # intraday stamps, leap day
    elif kind == 3: idx = pd.date_range("2019-11-%02d" % rs.randint(1, 28), periods=int(rs.randint(1, 3)), freq="D")    # one or two rows
    elif kind == 4: idx = pd.date_range("2017-01-01", periods=int(rs.randint(10, 30)), freq="%dD" % rs.randint(5, 40))   # sparse: weeks / months skipped
    else: idx = pd.date_range("2016-02-25", periods=int(rs.randint(15, 60)), freq="D")
    if len(idx) > 6 and rs.rand() < 0.5: idx = idx[np.sort(rs.choice(len(idx), size=int(len(idx) * 0.7), replace=False))]    # gaps
    return idx
KEY = {"RunDaily": lambda d: (d.year, d.month, d.day), "RunWeekly": lambda d: tuple(d.isocalendar())[:2], "RunMonthly": lambda d: (d.year, d.month),
       "RunQuarterly": lambda d: (d.year, (d.month - 1) // 3), "RunYearly": lambda d: d.year}
def fired(algo, idx):
    del LOG[:]
    data = pd.DataFrame({"a": 100.0 + np.arange(len(idx))}, index=idx)
    t = bt.Backtest(bt.Strategy("s", [algo, Spy()]), data, progress_bar=False); t.run()
    return [pd.Timestamp(x) for x in LOG]
for it in range(N):
    idx = mkindex(); n = len(idx); days = list(idx)
    cls = str(rs.choice(list(KEY))); f1, eop, fl = bool(rs.randint(2)), bool(rs.randint(2)), bool(rs.randint(2))
    want = []
    for k, d in enumerate(days):
        if k == 0: hit = f1
        elif k == n - 1: hit = fl
        else:
            other = days[k + 1] if eop else days[k - 1]
            hit = KEY[cls](d) != KEY[cls](other)
        if hit: want.append(d)
    got = fired(getattr(A, cls)(run_on_first_date=f1, run_on_end_of_period=eop, run_on_last_date=fl), idx); evals += 1
    distinct.add((cls, f1, eop, fl, n <= 2))
    if got != want: bad("calendar-scheduler-fires-exactly-on-its-boundaries", scheduler=cls, first=f1, end_of_period=eop, last=fl, index=[str(d) for d in days][:40], fired=[str(d) for d in got][:40], expected=[str(d) for d in want][:40])
    # one scheduler instance gating two branches: it is asked twice on every date and answers the same both times
    del LOG[:]
    shared = getattr(A, cls)(run_on_first_date=f1, run_on_end_of_period=eop, run_on_last_date=fl)
    class SpyB(bt.Algo):
        def __call__(self, target): LOG.append(("b", target.now)); return True
    class SpyA(bt.Algo):
        def __call__(self, target): LOG.append(("a", target.now)); return True
    data_ = pd.DataFrame({"a": 100.0 + np.arange(len(idx))}, index=idx)
    bt.Backtest(bt.Strategy("s", [A.Or([bt.core.AlgoStack(shared, SpyA()), bt.core.AlgoStack(shared, SpyB())])]), data_, progress_bar=False).run(); evals += 1
    fa = [pd.Timestamp(x[1]) for x in LOG if x[0] == "a"]; fb = [pd.Timestamp(x[1]) for x in LOG if x[0] == "b"]
    if fa != want or fb != want: bad("scheduler-asked-twice-on-a-date-answers-the-same", scheduler=cls, first_branch=[str(d) for d in fa][:20], second_branch=[str(d) for d in fb][:20], expected=[str(d) for d in want][:20])
    # one scheduler instance driven by hand against two successive data windows (walk-forward reuse: no deep copy in between): on each window it answers for
    # that window's first / last date and boundaries, whatever it saw before
    reused = getattr(A, cls)(run_on_first_date=f1, run_on_end_of_period=eop, run_on_last_date=fl)
    for wn, idx_w in enumerate((idx, mkindex())):
        days_w = list(idx_w); want_w = []
        for k_, d in enumerate(days_w):
            if k_ == 0: hit = f1
            elif k_ == len(days_w) - 1: hit = fl
            else: hit = KEY[cls](d) != KEY[cls](days_w[k_ + 1] if eop else days_w[k_ - 1])
            if hit: want_w.append(d)
        del LOG[:]
        pre = days_w[0] - pd.DateOffset(days=1)      # the synthetic pre-start row a Backtest puts in front of the data; the strategy is updated on it and not run
        full = pd.DatetimeIndex([pre]).append(idx_w)
        sw = bt.Strategy("w%d" % wn, [reused, Spy()]); sw.setup(pd.DataFrame({"a": 100.0 + np.arange(len(full))}, index=full)); sw.update(pre)
        raised = None
        try:
            for d in days_w: sw.update(d); sw.run()
        except Exception as e_: raised = repr(e_)[:200]
        evals += 1
        got_w = [pd.Timestamp(x) for x in LOG] if raised is None else ["raised " + raised]
        if got_w != want_w: bad("scheduler-instance-reused-on-a-second-data-window-answers-for-that-window", scheduler=cls, first=f1, end_of_period=eop, last=fl, window=wn, index=[str(d) for d in days_w][:40], fired=[str(d) for d in got_w][:40], expected=[str(d) for d in want_w][:40])
    # counting and date schedulers
    k = int(rs.randint(0, n + 2))
    got = fired(A.RunAfterDays(k), idx); evals += 1
    if got != days[k:]: bad("RunAfterDays", days=k, fired=[str(d) for d in got][:30], expected=[str(d) for d in days[k:]][:30])
    got = fired(A.RunOnce(), idx); evals += 1
    if got != days[:1]: bad("RunOnce", fired=[str(d) for d in got][:10])
    p = int(rs.randint(1, 6)); off = int(rs.randint(0, p))
    got = fired(A.RunEveryNPeriods(p, offset=off), idx); evals += 1
    if got != days[off::p]: bad("RunEveryNPeriods", n=p, offset=off, fired=[str(d) for d in got][:30], expected=[str(d) for d in days[off::p]][:30])
    cut = days[int(rs.randint(n))] + pd.Timedelta(hours=int(rs.choice([0, 0, 3, 12, 30])))
    got = fired(A.RunAfterDate(str(cut)), idx); evals += 1
    exp = [d for d in days if d > cut]
    if got != exp: bad("RunAfterDate", date=str(cut), fired=[str(d) for d in got][:30], expected=[str(d) for d in exp][:30])
    pick = [days[j] for j in sorted(set(rs.randint(n, size=int(rs.randint(1, 4)))))]; absent = days[-1] + pd.Timedelta(days=3)
    given = [str(d) for d in pick] + [str(absent)]; given = [given[j] for j in rs.permutation(len(given))]      # in no particular order
    got = fired(A.RunOnDate(*given), idx); evals += 1
    if got != pick: bad("RunOnDate", dates=[str(d) for d in pick], fired=[str(d) for d in got][:30])
    if it < 2: samples.append(dict(scheduler=cls, rows=n, fired=len(want)))
print("JSON:" + json.dumps(dict(evaluations=evals, distinct=len(distinct), failures=fails[:5], samples=samples,
      rule="six families of date indices (year ends, business days, 6-hourly stamps over a leap day, one / two rows, sparse, daily) with random gaps; each calendar scheduler with random flags and each counting / date scheduler with random parameters placed before a recording algo in a real Backtest; fired dates compared with the reference (period keys: calendar day, ISO year-week, year-month, year-quarter, year); distinct = distinct (scheduler, flags, tiny index)",
      bound="%d random indices, eight runs each (two of them one scheduler instance driven by hand over two successive windows)" % N)))
