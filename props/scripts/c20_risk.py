# bounded stand-in for C20 on the real code: risk aggregation, hedging, close and roll
import json, warnings
import numpy as np, pandas as pd
warnings.filterwarnings("ignore")
import bt
from bt import algos as A
from bt.core import Security, Strategy, StrategyBase, SecurityBase, is_zero
rs = np.random.RandomState(SEED)
fails, evals, distinct, samples = [], 0, set(), []
def bad(clause, **kw):
    if len(fails) < 8: fails.append(dict(clause=clause, **{k: (float(v) if isinstance(v, (np.floating, float)) else v) for k, v in kw.items()}))
dts = pd.date_range("2021-03-01", periods=6)
for it in range(N):
    n_sec = int(rs.randint(2, 6))
    names = ["c%d" % i for i in range(n_sec)]
    mults = {n: float(rs.choice([1.0, 1.0, 10.0, 0.5, 100.0])) for n in names}
    nested = bool(rs.randint(2))
    lazy_decl = bool(rs.randint(2))   # instruments declared up front but created on first use keep their multiplier
    secs = [Security(n, multiplier=mults[n], lazy_add=lazy_decl and rs.rand() < 0.5) for n in names]
    if lazy_decl:       # the last instrument: declared lazily, given a multiplier and left untraded until the hedge uses it
        secs[-1] = Security(names[-1], multiplier=float(rs.choice([10.0, 0.5, 100.0])), lazy_add=True); mults[names[-1]] = secs[-1].multiplier
    if nested:
        k = max(1, n_sec // 2)
        sub = Strategy("sub", [], children=secs[:k])
        s = Strategy("s", [], children=[sub] + secs[k:])
    else:
        s = Strategy("s", [], children=secs)
    data = pd.DataFrame(100 + rs.rand(len(dts), n_sec) * 10, index=dts, columns=names)
    measures = ["R%d" % j for j in range(int(rs.randint(1, 4)))]
    unit = {}
    for m in measures:
        cols = [n for n in names if rs.rand() < 0.8] or names[:1]       # securities missing from the table count as zero
        # the table may carry a longer history than the prices: it is read by date, not by position
        uidx = dts if rs.rand() < 0.5 else (dts[:1] - pd.Timedelta(days=3)).append(dts[:1] - pd.Timedelta(days=2)).append(dts)
        unit[m] = pd.DataFrame(rs.randn(len(uidx), len(cols)) * 3 * float(rs.choice([1.0, 1.0, 1e-4])), index=uidx, columns=cols)      # measures of very different scale (a PVBP next to a delta)
    hist = int(rs.randint(0, 3))
    s.setup(data, unit_risk=unit)
    s.adjust(1e7)
    s.update(dts[0])
    if nested: s.allocate(2e6, "sub")   # a sub-strategy needs capital of its own before it trades (return on a zero base raises, C10)
    holder = lambda n: (s["sub"] if nested and n in [x.name for x in secs[:max(1, n_sec // 2)]] else s)
    for n in names:
        if rs.rand() < 0.8 and not (lazy_decl and n == names[-1]):
            q = float(rs.randint(-50, 50))
            holder(n).transact(q, n)
    hist_of = {m: (hist if rs.rand() < 0.5 else int(rs.randint(0, 3))) for m in measures}      # measures may keep history to different depths
    ups = [A.UpdateRisk(m, history=hist_of[m]) for m in measures]
    for di in (0, 2):
        s.update(dts[di])   # (re)fresh: the direct API expects the tree to be refreshed before the date moves on
        for u in ups: u(s)
        evals += 1
        for m in measures:
            def rec(node, depth):
                if isinstance(node, SecurityBase):
                    ur = float(unit[m][node.name].loc[dts[di]]) if node.name in unit[m].columns else 0.0
                    want = 0.0 if is_zero(node.position) else ur * node.position * node.multiplier
                else:
                    want = sum(rec(c, depth + 1) for c in node.children.values())
                got = node.risk[m]
                if abs(got - want) > 1e-9 * max(1.0, abs(want)): bad("risk-is-unit-risk-x-position-x-multiplier-summed-over-children", node=node.full_name, measure=m, got=got, want=want)
                if depth < hist_of[m]:
                    # the row of the CURRENT date holds the risk (also for a security that never traded, whose own clock lags)
                    if not hasattr(node, "risks") or m not in node.risks.columns or not (abs(node.risks.loc[dts[di], m] - got) <= 1e-12 * max(1.0, abs(got))): bad("history-kept-to-requested-depth", node=node.full_name, depth=depth, history=hist_of[m], date=str(dts[di].date()), row=(float(node.risks.loc[dts[di], m]) if hasattr(node, "risks") and m in node.risks.columns else None), risk=float(got))
                elif hasattr(node, "risks") and m in node.risks.columns and not np.isnan(node.risks.loc[dts[di], m]): bad("history-kept-only-to-requested-depth", node=node.full_name, depth=depth, history=hist_of[m])
                return got
            rec(s, 0)
    distinct.add((n_sec, nested, len(measures), hist))
    # ---- hedge: as many independent instruments as measures -> every hedged measure is neutralised (multipliers included)
    k = len(measures)
    hm = [str(x) for x in rs.permutation(measures)]       # the measures to hedge, listed in an order of their own (not the order of the unit-risk dict)
    if n_sec - (max(1, n_sec // 2) if nested else 0) >= k:
        pool = [x.name for x in (secs[max(1, n_sec // 2):] if nested else secs)]   # instruments held directly by s
        inst = list(rs.choice(pool, size=k, replace=False))
        if lazy_decl and names[-1] in pool and names[-1] not in inst: inst[-1] = names[-1]      # hedge with the untraded lazily declared instrument
        J = np.array([[(float(unit[m][i_].loc[dts[2]]) if i_ in unit[m].columns else 0.0) * mults[i_] for m in measures] for i_ in inst])
        sv = np.linalg.svd(J, compute_uv=False)
        if sv.min() > 1e-9 and sv.max() / sv.min() < 1e7:
            # the pseudo-inverse of a regular square Jacobian is its inverse, however differently the measures are scaled: every hedged measure is
            # neutralised, each judged on its own scale (run on a copy; the tree itself is hedged below)
            import copy as _copy
            s2 = _copy.deepcopy(s)
            try:
                bt.core.AlgoStack(*ups, A.SelectThese(inst), A.HedgeRisks(hm, pseudo=True), *ups)(s2); s2.update(s2.now); evals += 1
                for jm, m in enumerate(measures):
                    sc_m = max(1e-12, float(np.abs(J[:, jm]).max()) * 100)
                    if abs(s2.risk[m]) > 1e-6 * sc_m: bad("hedged-risk-is-zero", pseudo=True, measure=m, residual=float(s2.risk[m]), scale=sc_m, singular_values=[float(x) for x in sv])
            except Exception as e:
                bad("hedge-raised", pseudo=True, error=repr(e)[:200])
        if abs(np.linalg.det(J)) > 1e-3:
            try:
                stack = bt.core.AlgoStack(*ups, A.SelectThese(inst), A.HedgeRisks(hm), *ups)
                stack(s); s.update(s.now); evals += 1
                scale = max(1.0, float(np.abs(J).max()) * 100)
                for m in measures:
                    if abs(s.risk[m]) > 1e-6 * scale: bad("hedged-risk-is-zero", measure=m, residual=s.risk[m], multipliers=[mults[i_] for i_ in inst])
            except Exception as e:
                bad("hedge-raised", error=repr(e)[:200])
    # ---- strategy=: the hedging sleeve neutralises the book of another strategy plus its own hedges - also on the second and later runs
    if nested and n_sec - max(1, n_sec // 2) >= k:
        pool = [x.name for x in secs[max(1, n_sec // 2):]]
        inst = list(rs.choice(pool, size=k, replace=False))
        J = np.array([[(float(unit[m][i_].loc[dts[2]]) if i_ in unit[m].columns else 0.0) * mults[i_] for m in measures] for i_ in inst])
        if abs(np.linalg.det(J)) > 1e-3:
            book = s["sub"]
            hs = bt.core.AlgoStack(*ups, A.SelectThese(inst), A.HedgeRisks(hm, strategy=book), *ups)
            try:
                for rnd_ in range(2):
                    if rnd_ == 1:
                        nm_ = [x.name for x in secs[:max(1, n_sec // 2)]][0]
                        book.transact(float(rs.randint(5, 40)), nm_); s.update(s.now)       # the book moves: hedge again on top of the existing hedges
                    hs(s); s.update(s.now); evals += 1
                    # what has to vanish: the root's risk = book + everything held directly (the hedges); the algo hedges target risk + strategy risk
                    own = {m: sum(c.risk[m] for c in s.children.values() if c is not book) for m in measures}
                    scale = max(1.0, float(np.abs(J).max()) * 100)
                    for m in measures:
                        # HedgeRisks is documented to add the strategy's risk to the target's own risk (which contains the existing hedges)
                        resid = s.risk[m] + book.risk[m]
                        if abs(resid) > 1e-6 * scale: bad("hedge-with-strategy-argument-neutralises-target-plus-strategy-risk", measure=m, residual=resid, run=rnd_)
            except Exception as e:
                bad("hedge-with-strategy-raised", error=repr(e)[:200])
    # ---- pseudo-inverse with fewer instruments than measures: least-squares minimal residual
    if k >= 2:
        pool = [x.name for x in (secs[max(1, n_sec // 2):] if nested else secs)]
        if pool:
            inst = [pool[0]]
            for u in ups: u(s)
            r0 = np.array([s.risk[m] for m in measures])
            Jt = np.array([[(float(unit[m][i_].loc[dts[2]]) if i_ in unit[m].columns else 0.0) * mults[i_] for i_ in inst] for m in measures])   # measures x instruments
            if np.abs(Jt).max() > 1e-3:
                bt.core.AlgoStack(A.SelectThese(inst), A.HedgeRisks(hm, pseudo=True), *ups)(s); evals += 1
                r1 = np.array([s.risk[m] for m in measures])
                best = r0 + Jt @ np.linalg.lstsq(Jt, -r0, rcond=None)[0]
                if np.linalg.norm(r1) > np.linalg.norm(best) * (1 + 1e-6) + 1e-6: bad("pseudo-inverse-hedge-is-least-squares-minimal", got=float(np.linalg.norm(r1)), best=float(np.linalg.norm(best)), multipliers=[mults[i_] for i_ in inst])
    if it < 2: samples.append(dict(securities=n_sec, nested=nested, measures=len(measures), history=hist))
# ---- close and roll schedules
for it in range(N):
    n_sec = int(rs.randint(3, 6))
    names = ["c%d" % i for i in range(n_sec)]
    dts2 = pd.date_range("2021-03-01", periods=8)
    data = pd.DataFrame(100 + rs.rand(len(dts2), n_sec), index=dts2, columns=names)
    closing = [n for n in names[:-1] if rs.rand() < 0.6]
    cutoffs = pd.DataFrame({"date": pd.to_datetime([dts2[int(rs.randint(1, 7))] for _ in closing])}, index=closing)
    s = Strategy("s", [A.ClosePositionsAfterDates("cutoffs"), A.SelectAll(), A.SelectActive(), A.WeighEqually(), A.Rebalance()], children=[Security(n) for n in names])
    t = bt.Backtest(s, data, additional_data={"cutoffs": cutoffs}, integer_positions=False, progress_bar=False)
    t.run(); evals += 1
    pos = t.positions
    for n in closing:
        after = pos.loc[pos.index >= cutoffs.loc[n, "date"], n] if n in pos.columns else pd.Series(dtype=float)
        if len(after) and float(np.abs(after.to_numpy()).max()) != 0.0: bad("no-position-once-close-date-has-passed", security=n, close=str(cutoffs.loc[n, "date"]), positions=list(map(float, after.to_numpy())))
    # closed AND rolled securities recorded side by side: SelectActive drops the union of both sets, whichever is empty or not
    for closed_, rolled_ in (({names[0]}, {names[1]}), ({names[0]}, set()), (set(), {names[1]}), ({names[0], names[2]}, {names[1]})):
        s_ = Strategy("q", [], children=[Security(n) for n in names]); s_.perm["closed"] = set(closed_); s_.perm["rolled"] = set(rolled_); s_.temp["selected"] = list(names)
        A.SelectActive()(s_); evals += 1
        want = [n for n in names if n not in closed_ | rolled_]
        if list(s_.temp["selected"]) != want: bad("SelectActive-drops-closed-and-rolled", closed=sorted(closed_), rolled=sorted(rolled_), selected=list(s_.temp["selected"]), expected=want)
    # a security that is flat when its close date passes must still be recorded: never opened afterwards through SelectActive
    late = names[0]
    sig = pd.DataFrame(True, index=dts2, columns=names); sig.loc[dts2[:5], late] = False
    cut2 = pd.DataFrame({"date": pd.to_datetime([dts2[2]])}, index=[late])
    s = Strategy("s", [A.ClosePositionsAfterDates("cutoffs"), A.SelectWhere("sig"), A.SelectActive(), A.WeighEqually(), A.Rebalance()], children=[Security(n) for n in names])
    t = bt.Backtest(s, data, additional_data={"cutoffs": cut2, "sig": sig}, integer_positions=False, progress_bar=False)
    t.run(); evals += 1
    after = t.positions.loc[t.positions.index >= dts2[2], late] if late in t.positions.columns else pd.Series(dtype=float)
    if len(after) and float(np.abs(after.to_numpy()).max()) != 0.0: bad("flat-security-past-its-close-date-is-never-opened", security=late, positions=list(map(float, after.to_numpy())))
    # roll: direct API, exact bookkeeping
    s = Strategy("s", [], children=[Security(n) for n in names])
    rolling = names[:2]
    roll = pd.DataFrame({"date": [dts2[int(rs.randint(1, 4))] for _ in rolling], "target": [names[-1], names[-1]], "factor": [float(rs.choice([0.5, 2.0, 1.5])) for _ in rolling]}, index=rolling)
    s.setup(data, roll=roll); s.adjust(1e7); s.update(dts2[0])
    q0 = {n: float(rs.randint(1, 40)) for n in names}
    for n in names: s.transact(q0[n], n)
    s.update(s.now)
    algo = A.RollPositionsAfterDates("roll")
    expect = dict(q0); done = set()
    for d in dts2[1:]:
        s.update(d); algo(s); evals += 1
        for n in rolling:
            if n not in done and roll.loc[n, "date"] <= d:
                expect[names[-1]] += roll.loc[n, "factor"] * expect[n]; expect[n] = 0.0; done.add(n)
        for n in names:
            if abs(s[n].position - expect[n]) > 1e-9: bad("matured-position-rolls-into-target-at-factor-once", security=n, date=str(d), got=float(s[n].position), want=float(expect[n]))
        if s.perm.get("rolled", set()) != done: bad("rolled-set-records-exactly-the-rolled", got=sorted(s.perm.get("rolled", set())), want=sorted(done))
    # a chain falling due on one date (c0 -> c1 and c1 -> c2): each position that matured moves into ITS target once - what arrives in c1 stays there
    if n_sec >= 3:
        s = Strategy("s", [], children=[Security(n) for n in names])
        f01, f12 = float(rs.choice([0.5, 2.0])), float(rs.choice([1.5, 1.0]))
        chain = pd.DataFrame({"date": [dts2[2], dts2[2]], "target": [names[1], names[2]], "factor": [f01, f12]}, index=[names[0], names[1]])
        s.setup(data, roll=chain); s.adjust(1e7); s.update(dts2[0])
        qc = {n: float(rs.randint(1, 40)) for n in names[:3]}
        for n in names[:3]: s.transact(qc[n], n)
        s.update(s.now)
        algo = A.RollPositionsAfterDates("roll")
        for d in dts2[1:4]:
            s.update(d); algo(s); evals += 1
        want_c = {names[0]: 0.0, names[1]: f01 * qc[names[0]], names[2]: qc[names[2]] + f12 * qc[names[1]]}
        for n in names[:3]:
            if abs(s[n].position - want_c[n]) > 1e-9: bad("matured-position-rolls-into-target-at-factor-once", chain=True, security=n, got=float(s[n].position), want=float(want_c[n]))
# ---- the same ticker under two sub-strategies with different multipliers: each node's risk uses its OWN multiplier and position
for it2 in range(3):
    m1, m2 = float(rs.choice([1.0, 10.0])), float(rs.choice([0.5, 100.0])); q1, q2 = float(rs.randint(1, 50)), float(-rs.randint(1, 50))
    px = pd.DataFrame(100.0, index=dts, columns=["x"]); ur = pd.DataFrame(rs.uniform(0.5, 3.0, size=(len(dts), 1)), index=dts, columns=["x"])
    root = Strategy("root", [], children=[Strategy("s1", [], children=[Security("x", multiplier=m1)]), Strategy("s2", [], children=[Security("x", multiplier=m2)])])
    root.setup(px, unit_risk={"delta": ur}); root.adjust(1e6); root.update(dts[0]); root.allocate(3e5, "s1"); root.allocate(3e5, "s2"); root.update(dts[0])
    root["s1"].transact(q1, "x"); root["s2"].transact(q2, "x"); root.update(dts[1])
    A.UpdateRisk("delta")(root); evals += 1
    u = float(ur.loc[dts[1], "x"]); w1, w2 = u * q1 * m1, u * q2 * m2
    got = (float(root["s1"]["x"].risk["delta"]), float(root["s2"]["x"].risk["delta"]), float(root.risk["delta"]))
    if abs(got[0] - w1) > 1e-9 * max(1, abs(w1)) or abs(got[1] - w2) > 1e-9 * max(1, abs(w2)) or abs(got[2] - (w1 + w2)) > 1e-9 * max(1, abs(w1 + w2)):
        bad("security-risk-is-unit-risk-x-position-x-multiplier", same_ticker_under_two_sub_strategies=True, got=list(got), want=[w1, w2, w1 + w2], multipliers=[m1, m2])
print("JSON:" + json.dumps(dict(evaluations=evals, distinct=len(distinct), failures=fails[:5], samples=samples,
      rule="random trees (flat / one nested level, 2-5 securities, multipliers in {0.5,1,10,100}, 1-3 measures, unit-risk tables with missing securities, history depth 0-2): risk per node recomputed; square hedges neutralise every measure; "
           "pseudo-inverse hedge compared with numpy lstsq; close schedules through a Backtest with SelectActive; roll schedules on the direct API with exact expected positions",
      bound="%d random configurations each" % N)))
