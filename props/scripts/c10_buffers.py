# audit (bounded): a store through the raw buffer of every node history series is visible in the series AND in node.data,
# for every node class, under the installed pandas/numpy  -- the assumption behind the heap model of history buffers
import json
import numpy as np, pandas as pd
import bt
from bt.core import StrategyBase, SecurityBase, Security, FixedIncomeSecurity, CouponPayingSecurity, HedgeSecurity, CouponPayingHedgeSecurity, FixedIncomeStrategy
idx = pd.date_range("2020-01-01", periods=4)
data = pd.DataFrame({n: [100.0, 101.0, 102.0, 103.0] for n in "abcde"}, index=idx)
zeros = pd.DataFrame(0.0, index=idx, columns=list("abcde"))
kids = [Security("a"), FixedIncomeSecurity("b"), CouponPayingSecurity("c"), HedgeSecurity("d"), CouponPayingHedgeSecurity("e")]
root = FixedIncomeStrategy("root", [], children=[StrategyBase("sub", children=kids)])
root.setup(data, bidoffer=zeros + 0.1, coupons=zeros + 0.01, cost_long=zeros + 0.001, cost_short=zeros + 0.002)
fails, evals, samples = [], 0, []
FIELDS = {"_values": "value", "_notl_values": "notional_value", "_cash": "cash", "_fees": "fees", "_all_flows": "flows", "_prices": "price", "_bidoffers_paid": "bidoffer_paid",
          "_positions": "position", "_outlays": "outlay", "_coupon_income": "coupon", "_holding_costs": "holding_cost"}
def nodes(n):
    out = [n]
    for c in n._childrenv: out += nodes(c)
    return out
for n in nodes(root):
    for f, col in FIELDS.items():
        ser = getattr(n, f, None)
        if ser is None or col not in getattr(n, "data", pd.DataFrame()).columns: continue
        if f == "_prices" and isinstance(n, SecurityBase): continue  # aliases the universe column (read only)
        evals += 1
        try:
            ser.array[2] = 12345.5
            ok = float(ser.iloc[2]) == 12345.5 and float(n.data[col].iloc[2]) == 12345.5 and float(ser.values[2]) == 12345.5
        except Exception as e:
            ok = False; err = repr(e)
        if not ok: fails.append(dict(clause="raw-buffer-store-visible", node=type(n).__name__, field=f))
        # distinct objects: the store must not leak into any other series of the node
        for g, col2 in FIELDS.items():
            s2 = getattr(n, g, None)
            if s2 is not None and g != f and not (g == "_prices" and isinstance(n, SecurityBase)) and len(s2) > 2 and float(np.nan_to_num(s2.values[2])) == 12345.5:
                fails.append(dict(clause="history-series-are-distinct-objects", node=type(n).__name__, field=f, leaks_into=g))
        ser.array[2] = 0.0
# the real update path end to end on a tiny tree
root = StrategyBase("root", children=[StrategyBase("sub", children=[Security("a")])])
root.setup(data)
root.adjust(1000.0); root.update(idx[0]); root.update(idx[1])
sub = root.children["sub"]
sub.adjust(500.0); sub.children["a"].transact(2.0); root.update(idx[1])
evals += 1
if float(sub.children["a"].data["position"].iloc[1]) != 2.0 or float(root.data["value"].iloc[1]) != float(root.value):
    fails.append(dict(clause="update-writes-reach-node-data"))
# quotes fed row by row (update(date, data)) for a ticker that is not a column of the universe: the price lands in the history, nothing raises
feed = StrategyBase("feed", children=[Security("zz")])
feed.setup(data); feed.adjust(1000.0)
evals += 1
try:
    feed.update(idx[0]); feed.children["zz"].transact(1.0)          # (an idle security is not updated: give it a position first)
    feed.update(idx[1], {"zz": 11.0})
    if float(feed.children["zz"].prices.iloc[1]) != 11.0: fails.append(dict(clause="row-by-row-quotes-reach-the-price-history", got=float(feed.children["zz"].prices.iloc[1])))
except Exception as e:
    fails.append(dict(clause="row-by-row-quotes-reach-the-price-history", raised=repr(e)[:160]))
samples.append(dict(pandas=pd.__version__, numpy=np.__version__, nodes=len(nodes(root))))
print("JSON:" + json.dumps(dict(evaluations=evals, distinct=evals, failures=fails[:5], samples=samples, rule="every (node class, history series) pair of a 7-node tree", bound="one tree with all five security classes, both strategy kinds")))
