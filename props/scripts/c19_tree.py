# bounded stand-in for C19: tree wiring, universe scoping, lazy == eager, settings reach every descendant (real code)
import json, warnings, copy
import numpy as np, pandas as pd
warnings.filterwarnings("ignore")
import bt
from bt import algos as A
from bt.core import Security, Strategy, StrategyBase, Node, SecurityBase
rs = np.random.RandomState(SEED)
fails, evals, distinct, samples = [], 0, set(), []
TICK = list("abcdefgh")
def fail(clause, **kw):
    if len(fails) < 8: fails.append(dict(clause=clause, **kw))
def rand_spec(depth, prefix):
    """('s', name, [children specs]) | ('t', ticker)"""
    n = int(rs.randint(0 if depth else 1, 4))
    kids, used = [], set()
    for i in range(n):
        if depth < 2 and rs.rand() < 0.35:
            kids.append(rand_spec(depth + 1, prefix + str(i)))
        else:
            t = TICK[rs.randint(len(TICK))]
            if t in used: continue
            used.add(t); kids.append(("t", t))
    return ("s", "S" + prefix, kids)
def stack():
    return [A.RunWeekly(), A.SelectAll(), A.WeighEqually(), A.Rebalance()]
def build(spec, form, eager, parent=None):
    kind = spec[0]
    if kind == "t":
        if form == "parent":
            return Security(spec[1], parent=parent) if False else (Security(spec[1]) if eager else spec[1])
        return Security(spec[1]) if eager else spec[1]
    _, name, kids = spec
    if form == "parent":
        # strategies attached later with the parent argument; leaves passed as children of their strategy
        leaves = [build(k, form, eager) for k in kids if k[0] == "t"]
        s = Strategy(name, stack(), children=leaves or None, parent=parent)
        for k in kids:
            if k[0] == "s": build(k, form, eager, parent=s)
        return s
    objs = [build(k, form, eager) for k in kids]
    if form == "dict":
        ch = {}
        for k, o in zip(kids, objs):
            nm = k[1]
            if isinstance(o, str): ch[nm] = o
            else:
                o.name = "renamed_by_dict"  # the dictionary key wins
                ch[nm] = o
        return Strategy(name, stack(), children=ch or None)
    return Strategy(name, stack(), children=objs or None)
def walk(spec, path=()):
    yield spec, path
    if spec[0] == "s":
        for k in spec[2]:
            yield from walk(k, path + (spec[1],))
def check_structure(root, spec, eager, tag):
    # every declared strategy (and eager security) is reachable under its name; parent/root/full_name/members agree
    def rec(node, sp, parent, fullname):
        if node.name != sp[1]: fail("name-differs", tag=tag, want=sp[1], got=node.name)
        if parent is None:
            if node.parent is not node or node.root is not node: fail("root-is-own-parent-and-root", tag=tag, node=sp[1])
        else:
            if node.parent is not parent: fail("parent-is-the-containing-strategy", tag=tag, node=sp[1])
            if node.root is not root: fail("root-is-the-top-node", tag=tag, node=sp[1])
            if parent.children.get(node.name) is not node: fail("registered-under-own-name", tag=tag, node=sp[1])
        if node.full_name != fullname: fail("full-name-is-path", tag=tag, want=fullname, got=node.full_name)
        mem = [node]
        if sp[0] == "s":
            names = [k[1] for k in sp[2]]
            if tag.startswith("parent/"):  # this generator attaches the leaves first, then the sub-strategies through parent=
                names = [k[1] for k in sp[2] if k[0] == "t"] + [k[1] for k in sp[2] if k[0] == "s"]
            strat_names = [k[1] for k in sp[2] if k[0] == "s"]
            order = {n: i for i, n in enumerate(names)}
            present = list(node.children.keys())
            want_present = names if eager else strat_names
            if present != want_present: fail("children-are-the-declared-ones-in-order", tag=tag, node=sp[1], want=want_present, got=present)
            if len(set(present)) != len(present): fail("sibling-names-unique", tag=tag, node=sp[1])
            if list(node._childrenv) != list(node.children.values()): fail("child-list-mirrors-child-dict", tag=tag, node=sp[1])
            if list(node._strat_children) != strat_names: fail("strategy-children-recorded", tag=tag, node=sp[1], got=list(node._strat_children))
            if bool(node._has_strat_children) != bool(strat_names): fail("strategy-children-flag", tag=tag, node=sp[1])
            tick = [k[1] for k in sp[2] if k[0] == "t"]
            if sorted(node._universe_tickers) != sorted(tick): fail("declared-tickers-recorded", tag=tag, node=sp[1], want=tick, got=list(node._universe_tickers))
            if not eager and sorted(node._lazy_children.keys()) != sorted(tick): fail("lazy-children-recorded", tag=tag, node=sp[1])
            for k in sp[2]:
                pass
            for nm in node.children:
                k = [k for k in sp[2] if k[1] == nm]
                if k:
                    k = k[0]
                    mem += rec(node.children[k[1]], k, node, fullname + ">" + k[1])
        if [id(m) for m in node.members] != [id(m) for m in mem]: fail("members-are-node-plus-descendants", tag=tag, node=sp[1])
        return mem
    return rec(root, spec, None, spec[1])
def mkdata(n):
    idx = pd.bdate_range("2020-01-01", periods=n)
    return pd.DataFrame(100 * np.exp(np.cumsum(rs.randn(n, len(TICK)) * 0.02, axis=0)), index=idx, columns=TICK)
fee = lambda q, p: abs(q) * p * 0.001
for it in range(N):
    spec = rand_spec(0, "")
    form = ["list", "dict", "parent"][it % 3]
    for eager in (False, True):
        evals += 1
        try:
            root = build(spec, form, eager)
        except Exception as e:
            fail("construction-raised", form=form, eager=eager, spec=repr(spec)[:300], error=repr(e)[:200]); continue
        check_structure(root, spec, eager, "%s/%s" % (form, "eager" if eager else "lazy"))
        # settings pushed from the top reach every descendant (those present now, and lazily created ones later)
        root.use_integer_positions(False); root.set_commissions(fee)
        for m in root.members:
            if m.integer_positions is not False: fail("integer-setting-reaches-descendant", node=m.full_name)
            if isinstance(m, StrategyBase) and m.commission_fn is not fee: fail("commission-reaches-descendant", node=m.full_name)
    distinct.add((form, repr(spec)))
    # ---- run lazy and eager versions of the same definition: identical histories; universes scoped as declared
    data = mkdata(int(rs.randint(12, 30)))
    intpos = bool(rs.randint(2))
    runs = {}
    for eager in (False, True):
        try:
            t = bt.Backtest(build(spec, "list" if form == "parent" else form, eager), data, integer_positions=intpos, commissions=fee, progress_bar=False)
            seen_before = [m.full_name for m in t.strategy.members]      # read once before the run: children created later on first use must still show up
            t.run()
            def walk_nodes(node): return [node.full_name] + [x for c in node.children.values() for x in walk_nodes(c)]
            if [m.full_name for m in t.strategy.members] != walk_nodes(t.strategy): fail("members-agree-with-the-structure-after-the-run", eager=eager, members=[m.full_name for m in t.strategy.members][:12], structure=walk_nodes(t.strategy)[:12], before=seen_before[:12])
            runs[eager] = t
        except Exception as e:
            runs[eager] = e
    evals += 1
    if isinstance(runs[False], Exception) or isinstance(runs[True], Exception):
        # nested sub-strategies that hold sub-strategies cannot be set up as children at all (shadow copy of a shadow copy): both forms must agree
        if type(runs[False]) is not type(runs[True]) or repr(runs[False]) != repr(runs[True]):
            fail("lazy-and-eager-differ-in-raising", spec=repr(spec)[:300], lazy=repr(runs[False])[:150], eager=repr(runs[True])[:150])
        continue
    tl, te = runs[False], runs[True]
    for label, a, b in (("prices", tl.strategy.prices, te.strategy.prices), ("values", tl.strategy.values, te.strategy.values), ("cash", tl.strategy.cash, te.strategy.cash), ("fees", tl.strategy.fees, te.strategy.fees)):
        # children are created in first-use order, so sums run in a different order: equal up to float re-association
        if not np.allclose(a.to_numpy(), b.to_numpy(), rtol=1e-9, atol=1e-9, equal_nan=True): fail("lazy-history-equals-eager-history", series=label, spec=repr(spec)[:300], maxdiff=float(np.nanmax(np.abs(a.to_numpy() - b.to_numpy()))))
    pl, pe = tl.positions, te.positions
    for c in pe.columns:
        ea = pe[c].to_numpy()
        la = pl[c].to_numpy() if c in pl.columns else np.zeros(len(ea))
        if not np.allclose(ea, la, rtol=1e-9, atol=(1.0 + 1e-9) if intpos else 1e-9): fail("lazy-positions-equal-eager-positions", ticker=c, spec=repr(spec)[:300])
    for c in pl.columns:
        if c not in pe.columns: fail("lazy-run-trades-undeclared-ticker", ticker=c)
    for t in (tl, te):
        for m in t.strategy.members:
            if m.integer_positions is not intpos: fail("integer-setting-reaches-descendant-in-run", node=m.full_name)
            if isinstance(m, StrategyBase):
                if m.commission_fn is not fee and m.commission_fn.__code__ is not fee.__code__: fail("commission-reaches-descendant-in-run", node=m.full_name)
                sp = [s for s, _ in walk(spec) if s[0] == "s" and s[1] == m.name][0]
                tick = [k[1] for k in sp[2] if k[0] == "t"]; strat = [k[1] for k in sp[2] if k[0] == "s"]
                want = (list(data.columns) if not sp[2] else [c for c in data.columns if c in tick]) + strat
                got = list(m.universe.columns)
                if got != want: fail("universe-is-declared-tickers-plus-strategy-columns", node=m.full_name, want=want, got=got)
                if m is not m.parent:
                    pp = m._paper
                    if pp.parent is not pp or any(x.root is not pp for x in pp.members): fail("every-shadow-node-is-rooted-at-its-shadow", node=m.full_name)
                for sc in strat:
                    col = m._universe[sc].to_numpy(); pr = m.children[sc].prices.to_numpy()
                    if not np.array_equal(col, pr, equal_nan=True): fail("strategy-column-carries-child-index", node=m.full_name, child=sc)
                    evals += 1
    if it < 2: samples.append(dict(spec=repr(spec)[:200], form=form, final=float(tl.strategy.value)))
# ---- a node handed over as a dict child keeps its own name (the tree works on a renamed copy); a strategy that declared no tickers works on a
# copy of the caller's frame (columns for sub-strategies attached later never show up in the caller's data)
tpl_ = Strategy("inner", stack(), children=["a", "b"])
comp_ = Strategy("comp", stack(), children={"x": tpl_, "y": tpl_})
evals += 1
if tpl_.name != "inner" or sorted(comp_.children) != ["x", "y"] or comp_["x"].full_name != "comp>x": fail("dict-children-are-renamed-copies", template=tpl_.name, children=sorted(comp_.children))
d_own = mkdata(6); cols0 = list(d_own.columns)
p_ = Strategy("p", stack()); p_.setup(d_own); p_.adjust(10000.0); p_.update(d_own.index[0]); p_.update(d_own.index[1])
k_ = Strategy("k", stack(), children=["a"], parent=p_); k_.setup_from_parent(); p_.allocate(1000.0, "k"); p_.update(d_own.index[1])
evals += 1
if list(d_own.columns) != cols0: fail("caller-frame-gained-columns", columns=list(map(str, d_own.columns)))
if "k" not in p_._universe.columns: fail("dynamic-sub-strategy-has-a-universe-column", columns=list(map(str, p_._universe.columns)))
# the same with the parent's universe looked at on the date before the child is attached: the window handed out afterwards has the column, carrying the child's index
for looked in (False, True):
    d_w = mkdata(6)
    pw = Strategy("p", stack()); pw.setup(d_w); pw.adjust(10000.0); pw.update(d_w.index[0]); pw.update(d_w.index[1])
    if looked: pw.universe
    kw_ = Strategy("k", stack(), children=["a"], parent=pw); kw_.setup_from_parent(); kw_.update(pw.now); pw.allocate(1000.0, "k"); pw.update(d_w.index[1])
    evals += 1
    win = pw.universe         # compared from the date of the attachment on (the child has no index before it)
    if "k" not in win.columns: fail("dynamic-sub-strategy-has-a-universe-column", through="universe (the window up to now)", looked_at_before=looked, columns=list(map(str, win.columns)))
    elif not np.array_equal(win["k"].to_numpy()[1:], kw_.prices.to_numpy()[1:], equal_nan=True): fail("strategy-column-carries-child-index", node="p", child="k", looked_at_before=looked, column=[float(x) for x in win["k"].to_numpy()], index=[float(x) for x in kw_.prices.to_numpy()])
# ---- a strategy that declared nothing - no children argument, or an empty list / dict / tuple - sees all tickers
d_e = mkdata(6)
for empty in (None, [], {}, ()):
    se = Strategy("e", stack(), children=empty); se.setup(d_e); se.adjust(10000.0); se.update(d_e.index[0]); se.update(d_e.index[1])
    evals += 1
    if list(se.universe.columns) != list(d_e.columns): fail("a-strategy-that-declared-no-tickers-sees-all-tickers", children=repr(empty), universe=list(map(str, se.universe.columns)), data=list(map(str, d_e.columns)))
    inner_e = Strategy("i", stack(), children=empty); top_e = Strategy("t", stack(), children=[inner_e]); top_e.setup(d_e)
    evals += 1
    if list(top_e["i"]._universe.columns) != list(d_e.columns): fail("a-strategy-that-declared-no-tickers-sees-all-tickers", children=repr(empty), level="sub-strategy", universe=list(map(str, top_e["i"]._universe.columns)), data=list(map(str, d_e.columns)))
# ---- operations on a child before its first use: a string-declared child behaves like one constructed up front
for op in ("close", "rebalance-to-zero", "allocate", "transact"):
    outcome = {}
    d_ = mkdata(6)[["a", "b"]]
    for eager in (False, True):
        kids = [Security("a"), Security("b")] if eager else ["a", "b"]
        s_ = Strategy("s", [], children=kids)
        s_.setup(d_); s_.adjust(10000.0); s_.update(d_.index[0])
        try:
            if op == "close": s_.close("a")
            elif op == "rebalance-to-zero": s_.rebalance(0.0, "a")
            elif op == "allocate": s_.allocate(1000.0, "a")
            else: s_.transact(3.0, "a")
            s_.update(d_.index[0])
            outcome[eager] = ("ok", round(float(s_.value), 6), round(float(s_["a"].position), 6) if "a" in s_.children else 0.0)
        except Exception as e:
            outcome[eager] = ("raised", type(e).__name__)
    evals += 1
    if outcome[False] != outcome[True]: fail("first-use-of-a-declared-child-behaves-like-an-eager-child", operation=op, lazy=repr(outcome[False]), eager=repr(outcome[True]))
# ---- node objects handed to several strategies are copied, whatever their flags: every tree owns its nodes
for lazy in (False, True):
    shared = [Security("a", lazy_add=lazy), Security("b", lazy_add=lazy)]
    root = Strategy("root", stack())
    s1 = Strategy("s1", stack(), children=shared, parent=root)
    s2 = Strategy("s2", stack(), children=shared, parent=root)
    top2 = Strategy("top2", stack(), children=[Strategy("t1", stack(), children=shared), Strategy("t2", stack(), children=shared)])
    evals += 1
    for holder in (s1, s2, top2["t1"], top2["t2"]):
        for nm in ("a", "b"):
            holder._create_child_if_needed(nm) if lazy and holder.root is holder else None
            node = holder.children.get(nm) or holder._lazy_children.get(nm)
            if node is None or any(node is x for x in shared): fail("shared-node-objects-are-copied-per-strategy", holder=holder.full_name, child=nm, lazy=lazy)
    nodes = [(h.children.get(nm) or h._lazy_children.get(nm)) for h in (s1, s2) for nm in ("a", "b")]
    if len({id(x) for x in nodes}) != 4: fail("sibling-strategies-own-distinct-copies", lazy=lazy)
    data = mkdata(12)
    t = bt.Backtest(root, data, progress_bar=False); t.run()
    for h in (t.strategy["s1"], t.strategy["s2"]):
        for c in h.children.values():
            if c.parent is not h or c.root is not t.strategy: fail("shared-template-children-wired-to-their-own-strategy", holder=h.full_name, child=c.name, lazy=lazy)
# ---- duplicates are refused in every assembly form
def expect_raise(name, fn):
    global evals
    evals += 1
    try: fn()
    except Exception: return
    fail("duplicate-sibling-accepted", case=name)
expect_raise("two Security objects, same name", lambda: Strategy("s", [], children=[Security("a"), Security("a")]))
expect_raise("two strategies, same name", lambda: Strategy("s", [], children=[Strategy("x", []), Strategy("x", [])]))
expect_raise("string twice", lambda: Strategy("s", [], children=["a", "a"]))
def later_dup():
    p = Strategy("p", [], children=[Strategy("x", [])]); Strategy("x", [], parent=p)
expect_raise("attached later under a taken name", later_dup)
def later_dup2():
    p = Strategy("p", [], children=[Security("a")]); Security("a", parent=p) if False else p._add_children([Security("a")], dc=False)
expect_raise("security added under a taken name", later_dup2)
print("JSON:" + json.dumps(dict(evaluations=evals, distinct=len(distinct), failures=fails[:5], samples=samples,
      rule="random trees (depth <= 3, lists / dicts / parent= attachment, strings or Security objects), structure clauses after construction, settings pushed from the top, lazy vs eager backtests equal (rtol 1e-9: child order differs, so float sums re-associate; whole-unit positions within one unit), universes scoped as declared with child index columns; duplicate siblings refused",
      bound="%d random trees x 2 forms, 12-30 dates, 8 tickers" % N)))
