# bounded stand-in for C03 on real objects: random histories of flows, non-flow adjustments, trades and updates at random places (direct API);
# on every date the recorded index obeys price[t] = price[t-1] * value[t] / (value[t-1] + flows[t]), starts at 100, and does not depend on the
# placement of redundant updates; with fractional positions and proportional costs it does not depend on the amount of capital
import json
import numpy as np, pandas as pd
import bt
from bt.core import Strategy
rs = np.random.RandomState(SEED)
fails, evals, distinct, samples = [], 0, set(), []
def bad(clause, **kw):
    if len(fails) < 8: fails.append(dict(clause=clause, **{k: (float(v) if isinstance(v, (np.floating, float)) else v) for k, v in kw.items()}))
def play(ops, data, scale, extra_updates, prop_fee):
    s = Strategy("s", [], children=list(data.columns))
    s.setup(data); s.use_integer_positions(False)
    if prop_fee: s.set_commissions(lambda q, p: abs(q) * p * 0.001)
    idx = data.index
    s.adjust(1000.0 * scale); s.update(idx[0])
    for d in range(1, len(idx)):
        s.update(idx[d])
        for k, op in enumerate(ops[d]):
            # (flags as they come out of a numpy comparison or a boolean column now and then: numpy.bool_, not the singletons)
            if op[0] == "flow": s.adjust(op[1] * scale) if (d + k) % 2 else s.adjust(op[1] * scale, flow=np.bool_(True), update=np.bool_(True))
            elif op[0] == "nonflow": s.adjust(op[1] * scale, flow=False) if (d + k) % 2 else s.adjust(op[1] * scale, flow=np.bool_(False))
            elif op[0] == "trade": s.allocate(op[2] * scale, op[1])
            elif op[0] == "update": s.update(idx[d])
            if extra_updates and (k + d) % 2 == 0: s.update(idx[d])
        s.update(idx[d])
    return s
for it in range(N):
    n = int(rs.randint(4, 8)); idx = pd.date_range("2021-01-04", periods=n)
    data = pd.DataFrame(100 * np.exp(np.cumsum(rs.randn(n, 2) * 0.02, axis=0)), index=idx, columns=["a", "b"])
    ops = {}
    for d in range(1, n):
        day = []
        for _ in range(int(rs.randint(0, 5))):
            r = rs.rand()
            if r < 0.3: day.append(("flow", float(rs.choice([50.0, -30.0, 100.0, 250.0]))))
            elif r < 0.5: day.append(("nonflow", float(rs.choice([-5.0, -20.0, 10.0]))))
            elif r < 0.65:
                x = float(rs.choice([40.0, 100.0]))        # an inflow and a loss of the same size: the value does not move, the index must
                day += [("flow", x), ("nonflow", -x)] if rs.rand() < 0.5 else [("nonflow", -x), ("flow", x)]
            elif r < 0.9: day.append(("trade", str(rs.choice(["a", "b"])), float(rs.choice([100.0, -50.0, 200.0]))))
            else: day.append(("update",))
        ops[d] = day
    prop_fee = bool(rs.randint(2))
    s = play(ops, data, 1.0, False, prop_fee); evals += 1
    distinct.add((n, prop_fee, sum(len(v) for v in ops.values())))
    p, v, f = s.prices, s.values, s.flows
    if abs(float(p.iloc[0]) - 100.0) > 1e-9: bad("index-starts-at-100", got=float(p.iloc[0]))
    for d in range(1, n):
        booked = sum(op[1] for op in ops[d] if op[0] == "flow")            # what the history itself injected or withdrew as a flow on the date
        if abs(float(f.iloc[d]) - booked) > 1e-9 * max(1.0, abs(booked)): bad("a-flow-is-recorded-on-its-own-date", date=str(idx[d].date()), recorded=float(f.iloc[d]), scheduled=float(booked), operations=repr(ops[d])[:300]); break
    for d in range(1, n):
        base = float(v.iloc[d - 1]) + float(f.iloc[d])
        if abs(base) < 1e-9: continue
        want = float(p.iloc[d - 1]) * float(v.iloc[d]) / base
        if abs(float(p.iloc[d]) - want) > 1e-9 * max(1.0, abs(want)):
            bad("index-moves-by-value-over-last-value-plus-flows", date=str(idx[d].date()), got=float(p.iloc[d]), want=want, operations=repr(ops[d])[:300]); break
    s2 = play(ops, data, 1.0, True, prop_fee); evals += 1
    if not np.allclose(s2.prices.values, p.values, rtol=1e-12, atol=0): bad("index-depends-on-redundant-updates", a=[float(x) for x in p.values], b=[float(x) for x in s2.prices.values], operations=repr(ops)[:300])
    k = float(rs.choice([0.01, 7.0, 1000.0]))
    s3 = play(ops, data, k, False, prop_fee); evals += 1
    # (allocate stops its fee search within an ABSOLUTE 1e-8 of the amount, so the comparison across scales is to 1e-6, not to the last digit)
    if not np.allclose(s3.prices.values, p.values, rtol=1e-6, atol=0): bad("index-depends-on-the-amount-of-capital", scale=k, a=[float(x) for x in p.values], b=[float(x) for x in s3.prices.values])
    # through the Backtest loop: every date of the data is a date of the index, also one on which nothing is quoted while the book is flat, and a
    # flow scheduled on it is a flow of that date
    if it % 3 == 0:
        from bt import algos as A_
        d4 = data.copy(); kq = int(rs.randint(1, 3)); d4.iloc[kq] = np.nan
        fl4 = pd.Series(0.0, index=idx); fl4.iloc[kq] = float(rs.choice([500.0, -200.0])); fl4.iloc[-1] = 300.0
        class Flows4(bt.Algo):
            def __call__(self, target):
                a_ = float(fl4.get(target.now, 0.0))
                if a_: target.adjust(a_)
                return True
        t4 = bt.Backtest(bt.Strategy("b", [Flows4(), A_.RunAfterDate(idx[kq]), A_.RunWeekly(), A_.SelectAll(), A_.WeighEqually(), A_.Rebalance()]), d4, integer_positions=False, initial_capital=1000.0, progress_bar=False); t4.run(); evals += 1
        p4, v4, f4 = t4.strategy.prices, t4.strategy.values, t4.strategy.flows
        for d in range(1, len(p4)):
            base = float(v4.iloc[d - 1]) + float(f4.iloc[d])
            if abs(base) < 1e-9: continue
            want = float(p4.iloc[d - 1]) * float(v4.iloc[d]) / base
            if not np.isfinite(float(p4.iloc[d])) or abs(float(p4.iloc[d]) - want) > 1e-9 * max(1.0, abs(want)):
                bad("index-moves-by-value-over-last-value-plus-flows", through="Backtest with an unquoted date while flat", date=str(p4.index[d].date()), got=float(p4.iloc[d]), want=want, values=[float(x) for x in v4.values][:8], flows=[float(x) for x in f4.values][:8]); break
        if abs(float(f4.loc[idx[kq]]) - float(fl4.iloc[kq])) > 1e-9: bad("a-flow-is-recorded-on-its-own-date", through="Backtest with an unquoted date while flat", date=str(idx[kq].date()), recorded=float(f4.loc[idx[kq]]), scheduled=float(fl4.iloc[kq]))
    if it < 2: samples.append(dict(dates=n, operations=sum(len(v) for v in ops.values()), final_index=float(p.iloc[-1])))
print("JSON:" + json.dumps(dict(evaluations=evals, distinct=len(distinct), failures=fails[:5], samples=samples,
      rule="random histories on a two-security strategy (fractional positions, optional proportional commission): 0-4 operations per date out of flows, non-flow adjustments, an inflow with an equal loss, allocations, explicit updates; the recorded index is recomputed date by date from the recorded values and flows, compared with a run that inserts redundant updates, and with a run at 0.01x / 7x / 1000x the capital",
      bound="%d histories of 4-7 dates, three runs each" % N)))
