# bounded stand-in for C10: generated well-formed backtests complete and every report accessor is finite; ill-formed classes raise
import json, itertools, math, warnings
import numpy as np, pandas as pd
warnings.filterwarnings("ignore")
import bt
from bt import algos as A
from bt.core import Security, CouponPayingSecurity, FixedIncomeSecurity, HedgeSecurity, FixedIncomeStrategy, Strategy, StrategyBase
rs = np.random.RandomState(SEED)
fails, evals, distinct, samples = [], 0, set(), []
def mkdata(n_dates, names):
    idx = pd.bdate_range("2019-12-20", periods=n_dates)
    return pd.DataFrame(100 * np.exp(np.cumsum(rs.randn(n_dates, len(names)) * 0.02, axis=0)), index=idx, columns=names)
SCHED = [lambda: A.RunDaily(), lambda: A.RunWeekly(), lambda: A.RunMonthly(), lambda: A.RunOnce(), lambda: A.RunEveryNPeriods(3, 1), lambda: A.RunAfterDays(2)]
SEL = [lambda: A.SelectAll(), lambda: A.SelectThese(["a", "b"]), lambda: A.SelectHasData(lookback=pd.DateOffset(days=5), min_count=2), lambda: bt.AlgoStack(A.SelectAll(), A.SelectMomentum(2, lookback=pd.DateOffset(days=7)))]
WGT = [lambda: A.WeighEqually(), lambda: A.WeighSpecified(a=0.5, b=0.3), lambda: A.WeighInvVol(lookback=pd.DateOffset(days=10)), lambda: A.WeighRandomly()]
COMM = [None, lambda q, p: abs(q) * 0.01, lambda q, p: max(1.0, abs(q) * p * 0.001)]
def finite_frame(x):
    v = np.asarray(pd.DataFrame(x).to_numpy(dtype=float))
    return bool(np.all(np.isfinite(v) | np.isnan(v))) and not np.any(np.isinf(v))
rs2 = np.random.RandomState(SEED + 77)      # separate stream: the draws above keep their values
for it in range(N):
    k = (rs.randint(len(SCHED)), rs.randint(len(SEL)), rs.randint(len(WGT)), rs.randint(len(COMM)), bool(rs.randint(2)), bool(rs.randint(2)), int(rs.randint(4)))
    mult = [1, 1, 10, 0.25][k[6]]
    sec = lambda nm: Security(nm, multiplier=mult) if mult != 1 else nm
    names = list("abcd")
    data = mkdata(int(rs.randint(8, 30)), names)
    if rs.rand() < 0.3: data.iloc[: int(rs.randint(1, 4)), 3] = np.nan  # late listing
    stack = [SCHED[k[0]](), SEL[k[1]](), WGT[k[2]](), A.Rebalance()]
    if k[5]:
        s = Strategy("top", [A.RunWeekly(), A.SelectAll(), A.WeighEqually(), A.Rebalance()], children=[Strategy("sub", stack, children=[sec("a"), sec("b")]), sec("c")])
    else:
        s = Strategy("s", stack, children=[sec(nm) for nm in names]) if mult != 1 else Strategy("s", stack)
    random_state = rs.randint(1 << 30)
    import random; random.seed(random_state); np.random.seed(random_state % (1 << 31))
    try:
        # spreads quoted for some of the tickers only (the others trade without one), on the dates of the data
        add = {"bidoffer": pd.DataFrame(rs2.uniform(0.0, 0.2, size=(len(data), 2)), index=data.index, columns=["a", "c"]), "note": pd.Series(1.0, index=data.index)} if rs2.rand() < 0.4 else None
        t = bt.Backtest(s, data, integer_positions=k[4], commissions=COMM[k[3]], initial_capital=float(10 ** rs.randint(3, 7)), additional_data=add)
        res = bt.run(t)
        outs = [t.strategy.prices, t.strategy.values, t.weights, t.security_weights, t.positions, t.herfindahl_index, t.turnover, res.prices, t.strategy.outlays, res.get_weights(), res.get_security_weights()]
        outs.append(res.get_transactions())
        for n in t.strategy.members:
            outs += [n.values, n.prices]
        ok = all(finite_frame(o) for o in outs) and np.all(np.isfinite(t.strategy.prices.to_numpy())) and np.all(np.isfinite(t.strategy.values.to_numpy()))
        if not ok: fails.append(dict(clause="non-finite-result", config=list(map(int, k))))
    except Exception as e:
        fl = dict(clause="well-formed-run-raised", config=list(map(int, k)), error=repr(e)[:300])
        pre = str(data.index[0] - pd.DateOffset(days=1))
        # recorded finding: a sub-strategy gated by RunOnce (no calendar scheduler) is run by its shadow copy on the synthetic
        # pre-start row Backtest prepends (all prices NaN); an unconditional weigher then trades at a missing price
        if k[5] and k[0] == 3 and "price is nan as of " + pre in repr(e):
            fl["finding"] = "C10-nested-runonce-trades-on-synthetic-first-date"
        fails.append(fl)
    evals += 1; distinct.add(k)
    if it < 2: samples.append(dict(config=list(map(int, k)), final=float(t.strategy.value) if 't' in dir() else None))
# ---- a ticker quoted exactly 0.0 before its listing (a placeholder) is well-formed input as long as nothing is opened at that quote: the default
# screens of the selection algos keep it out and the run completes with finite numbers
for zi in range(3):
    nz = int(rs2.randint(10, 20)); dz = mkdata(nz, list("abcd")); kz = int(rs2.randint(3, 7)); dz.iloc[:kz, 3] = 0.0
    selz = [A.SelectHasData(lookback=pd.DateOffset(days=5), min_count=2), A.SelectAll(), A.SelectThese(list("abcd"))][zi]
    evals += 1
    try:
        tz = bt.Backtest(Strategy("z", [A.RunDaily(), selz, A.WeighEqually(), A.Rebalance()]), dz, integer_positions=bool(zi % 2), progress_bar=False); tz.run()
        if not (np.all(np.isfinite(tz.strategy.prices.to_numpy())) and finite_frame(tz.positions) and finite_frame(tz.security_weights)): fails.append(dict(clause="non-finite-result", config="zero placeholder before listing", selection=type(selz).__name__))
        elif float(tz.positions["d"].iloc[: kz + 1].abs().sum()) != 0.0: fails.append(dict(clause="position-opened-at-a-zero-quote", selection=type(selz).__name__, positions=[float(x) for x in tz.positions["d"].iloc[: kz + 1]]))
    except Exception as e:
        fails.append(dict(clause="well-formed-run-raised", config="zero placeholder before listing", selection=type(selz).__name__, error=repr(e)[:300]))
# ---- ill-formed classes must raise
def expect_raise(name, fn):
    global evals
    evals += 1
    try:
        fn()
    except Exception:
        return
    fails.append(dict(clause="ill-formed-input-did-not-raise", case=name))
idx = pd.date_range("2020-01-01", periods=3)
d = pd.DataFrame({"a": [1.0, 2.0, 3.0], "b": [1.0, np.nan, 0.0]}, index=idx)
def zero_price():
    s = StrategyBase("s", children=["b"]); s.setup(d); s.adjust(100); s.update(idx[2]); s.allocate(10, "b")
def nan_price_trade():
    s = StrategyBase("s", children=["b"]); s.setup(d); s.adjust(100); s.update(idx[1]); s.allocate(10, "b")
def nan_price_open():
    s = StrategyBase("s", children=["b"]); s.setup(d); s.adjust(100); s.update(idx[0]); s.allocate(10, "b"); s.update(idx[1])
def dup_tickers():
    bt.Backtest(Strategy("s", []), pd.DataFrame([[1.0, 2.0]], columns=["a", "a"], index=idx[:1]))
def dup_tickers_outside_the_roots_own():
    # the root declares one ticker of its own; a sub-strategy without explicit children works on the whole frame, where another ticker comes twice
    root = Strategy("s", [], children=[Strategy("sub", []), "c"])
    bt.Backtest(root, pd.DataFrame([[1.0, 2.0, 3.0]], columns=["a", "a", "c"], index=idx[:1]))
def zero_base():
    s = StrategyBase("s", children=["a"]); s.setup(d); s.update(idx[0]); s.children["a"]._position = 1.0; s.children["a"]._needupdate = True; s.root.stale = True; s.update(idx[1])
def fi_under_mv():
    s = Strategy("s", [], children=[FixedIncomeStrategy("f", [], children=[])]); s.setup(d)
def custom_price_no_bidoffer():
    s = StrategyBase("s", children=["a"]); s.setup(d); s.adjust(100); s.update(idx[0]); s.children["a"].transact(1, price=1.5)
def missing_coupons():
    s = StrategyBase("s", children=[CouponPayingSecurity("a")]); s.setup(d)
def nan_coupon_open():
    c = pd.DataFrame({"a": [0.1, np.nan, 0.1]}, index=idx)
    s = FixedIncomeStrategy("s", [], children=[CouponPayingSecurity("a")]); s.setup(d, coupons=c); s.update(idx[0]); s.transact(5, "a"); s.update(idx[1])
for nm, fn in [("zero price trade", zero_price), ("nan price trade", nan_price_trade), ("nan price on open position", nan_price_open), ("duplicate tickers", dup_tickers), ("duplicate tickers outside the root's own list", dup_tickers_outside_the_roots_own), ("return on zero base", zero_base),
               ("fixed-income child under market-value parent", fi_under_mv), ("custom price without bid/offer", custom_price_no_bidoffer), ("missing coupons", missing_coupons), ("nan coupon on open position", nan_coupon_open)]:
    expect_raise(nm, fn)
print("JSON:" + json.dumps(dict(evaluations=evals, distinct=len(distinct) + 9, failures=sorted(fails, key=lambda f: 'finding' in f)[:5], samples=samples,
      rule="random (scheduler, selector, weigher, commission, integer-positions, nested, security multiplier) stacks on random price paths with late listings; every report accessor finite; 10 ill-formed cases must raise; distinct = distinct configurations",
      bound="%d generated backtests (8-30 dates, 4 tickers) + 9 ill-formed cases" % N)))
