# bounded stand-in for C09 on real runs: the same sub-strategy definition backtested on its own and inside a parent (funded early, late, never, re-weighted);
# the two indices are compared date for date, and with the column the parent sees in its universe
import json, warnings
import numpy as np, pandas as pd
warnings.filterwarnings("ignore")
import bt
from bt import algos as A
rs = np.random.RandomState(SEED)
fails, evals, distinct, samples = [], 0, set(), []
def bad(clause, **kw):
    if len(fails) < 8: fails.append(dict(clause=clause, **kw))
GATES = {"daily": A.RunDaily, "weekly": A.RunWeekly, "monthly": A.RunMonthly}
FEES = [None, lambda q, p: abs(q) * 0.01, lambda q, p: abs(q) * p * 0.001, lambda q, p: max(1.0, abs(q) * 0.005) if q != 0 else 0.0]
for it in range(N):
    n = int(rs.randint(25, 60)); idx = pd.bdate_range("2021-01-04", periods=n)
    px = 100 * np.exp(np.cumsum(rs.randn(n, 3) * 0.02, axis=0))
    lev = float(rs.choice([1.0, 1.0, 0.6, 2.5, 3.0]))
    if lev > 1 and rs.rand() < 0.6:
        k = int(rs.randint(5, n - 5)); px[k:, 0] *= float(rs.choice([0.55, 0.62]))      # a crash that sends a levered sub-strategy through zero
    data = pd.DataFrame(px, index=idx, columns=["a", "b", "c"])
    gate = str(rs.choice(list(GATES))); wa = float(rs.uniform(0.3, 1.0)); fk = int(rs.randint(len(FEES))); intpos = bool(rs.randint(2))
    after = int(rs.choice([0, 0, 3, 7]))
    def sub():
        stack = [GATES[gate]()] + ([A.RunAfterDays(after)] if after else []) + [A.SelectThese(["a", "b"]), A.WeighSpecified(a=lev * wa, b=lev * (1 - wa) * float(rs_b)), A.Rebalance()]
        return bt.Strategy("sub", stack, children=["a", "b"])
    rs_b = rs.choice([1.0, 1.0, -0.5])
    alone = bt.Backtest(sub(), data, integer_positions=intpos, commissions=FEES[fk], progress_bar=False); alone.run()
    mode = str(rs.choice(["early", "late", "never", "reweighted", "nested"]))
    share = float(rs.uniform(0.05, 0.6))
    if mode == "early": pa = [A.RunOnce(), A.SelectThese(["sub", "c"]), A.WeighSpecified(sub=share, c=1 - share), A.Rebalance()]
    elif mode == "late": pa = [A.RunAfterDays(int(rs.randint(5, 15))), A.RunOnce(), A.SelectThese(["sub", "c"]), A.WeighSpecified(sub=share, c=1 - share), A.Rebalance()]
    elif mode == "never": pa = [A.RunOnce(), A.SelectThese(["c"]), A.WeighSpecified(c=1.0), A.Rebalance()]
    else: pa = [A.RunWeekly(), A.SelectThese(["sub", "c"]), A.WeighRandomly(), A.Rebalance()]
    np.random.seed(SEED + it); import random; random.seed(SEED + it)
    if mode == "nested":
        mid = bt.Strategy("mid", [A.RunMonthly(), A.SelectThese(["sub", "b"]), A.WeighSpecified(sub=0.5, b=0.5), A.Rebalance()], children=[sub(), "b"])
        top = bt.Strategy("top", [A.RunMonthly(), A.SelectThese(["mid", "c"]), A.WeighSpecified(mid=share, c=1 - share), A.Rebalance()], children=[mid, "c"])
        t = bt.Backtest(top, data, integer_positions=intpos, commissions=FEES[fk], progress_bar=False); t.run()
        child = t.strategy["mid"]["sub"]; seen = t.strategy["mid"].universe["sub"]
    else:
        top = bt.Strategy("top", pa, children=[sub(), "c"])
        t = bt.Backtest(top, data, integer_positions=intpos, commissions=FEES[fk], progress_bar=False); t.run()
        child = t.strategy["sub"]; seen = t.strategy.universe["sub"]
    evals += 1; distinct.add((gate, lev > 1, fk, intpos, mode, after > 0))
    p1, p2 = alone.strategy.prices, child.prices
    if len(p1) != len(p2) or not np.allclose(p1.values, p2.values, rtol=1e-9, atol=1e-9):
        d = int(np.argmax(~np.isclose(p1.values, p2.values, rtol=1e-9, atol=1e-9))) if len(p1) == len(p2) else -1
        bad("index-in-parent-equals-stand-alone-index", gate=gate, leverage=lev, fee=fk, integer=intpos, parent=mode, warmup=after, first_difference=str(p1.index[d].date()) if d >= 0 else "length", alone=float(p1.iloc[d]) if d >= 0 else None, in_parent=float(p2.iloc[d]) if d >= 0 else None,
            stand_alone_bankrupt=bool(alone.strategy.bankrupt))
    col = seen.loc[: child.now]
    if not np.allclose(col.values[1:], p2.values[1:], rtol=1e-12, atol=1e-12): bad("parent-sees-the-child-index-as-its-price", parent=mode)
    if it < 2: samples.append(dict(gate=gate, leverage=lev, parent=mode, final=float(p1.iloc[-1]), bankrupt=bool(alone.strategy.bankrupt)))
print("JSON:" + json.dumps(dict(evaluations=evals, distinct=len(distinct), failures=fails[:5], samples=samples,
      rule="a two-asset sub-strategy (daily / weekly / monthly gate, optional warm-up, weights scaled by leverage 0.6-3 with an optional crash that drives a levered book through zero, 4 fee shapes, whole or fractional units) run alone and inside a parent that funds it at once, late, never, re-weights it weekly at random, or holds it two levels down; indices compared date for date (1e-9) and with the parent's universe column",
      bound="%d pairs of backtests, 25-59 dates" % N)))
