# bounded stand-in for C04: perturb every supplied data value dated after a cut date t and compare everything recorded up to t bit for bit
import json, random
import numpy as np, pandas as pd
import bt
from bt import algos as A
rs = np.random.RandomState(SEED)
fails, evals, distinct, samples = [], 0, set(), []
names = list("abcde")
def mkdata(n):
    idx = pd.bdate_range("2020-01-01", periods=n)
    return pd.DataFrame(100 * np.exp(np.cumsum(rs.randn(n, len(names)) * 0.02, axis=0)), index=idx, columns=names)
def build(kind, data, extra):
    lag = pd.DateOffset(days=int(extra["lag"])); lb = pd.DateOffset(days=int(extra["lookback"]))
    S = {
        "momentum": [A.RunWeekly(), A.SelectAll(), A.SelectMomentum(2, lookback=lb, lag=lag), A.WeighEqually(), A.Rebalance()],
        "invvol": [A.RunAfterDays(15), A.RunWeekly(), A.SelectHasData(lookback=lb, min_count=2), A.WeighInvVol(lookback=lb, lag=lag), A.Rebalance()],
        "where": [A.RunDaily(), A.SelectWhere("sig"), A.WeighEqually(), A.Rebalance()],
        "target": [A.RunDaily(), A.WeighTarget("tw"), A.Rebalance()],
        "stat": [A.RunWeekly(), A.SelectAll(), A.SetStat("st", lag=lag), A.SelectN(2), A.WeighEqually(), A.Rebalance()],
        "erc": [A.RunAfterDays(15), A.RunWeekly(), A.SelectAll(), A.WeighERC(lookback=lb, lag=lag), A.Rebalance()],
        "tvol": [A.RunAfterDays(15), A.RunWeekly(), A.SelectAll(), A.WeighEqually(), A.TargetVol(0.1, lookback=lb, lag=lag), A.Rebalance()],
        "nested": None,
    }
    if kind == "nested":
        sub = bt.Strategy("sub", [A.RunAfterDays(15), A.RunWeekly(), A.SelectThese(["a", "b"]), A.WeighInvVol(lookback=lb, lag=lag), A.Rebalance()], children=["a", "b"])
        return bt.Strategy("top", [A.RunMonthly(), A.SelectAll(), A.WeighEqually(), A.Rebalance()], children=[sub, "c", "d"])
    return bt.Strategy("s", S[kind])
def run(kind, data, extra, add):
    random.seed(1); np.random.seed(1)
    t = bt.Backtest(build(kind, data, extra), data, integer_positions=bool(extra["intpos"]), additional_data=add, commissions=(lambda q, p: abs(q) * 0.01) if extra["comm"] else None)
    t.run(); return t
def snapshot(t, cut):
    out = {}
    for n in t.strategy.members:
        d = n.data.loc[:cut]
        out[n.full_name] = d.to_numpy(dtype=float).tobytes()
    try:
        out["<tx>"] = t.strategy.get_transactions().loc[:cut].to_numpy(dtype=float).tobytes()
    except Exception:
        out["<tx>"] = b""
    return out
KINDS = ["momentum", "invvol", "where", "target", "stat", "erc", "tvol", "nested"]
for it in range(N):
    kind = KINDS[it % len(KINDS)]
    n = int(rs.randint(25, 45)); data = mkdata(n)
    extra = dict(lag=rs.randint(0, 3), lookback=rs.randint(5, 12), intpos=rs.randint(2), comm=rs.randint(2))
    sig = pd.DataFrame(rs.rand(n, len(names)) > 0.5, index=data.index, columns=names)
    tw = pd.DataFrame(rs.dirichlet(np.ones(len(names)), size=n) * 0.9, index=data.index, columns=names)
    st_ = pd.DataFrame(rs.randn(n, len(names)), index=data.index, columns=names)
    add = {"sig": sig, "tw": tw, "st": st_}
    cut_i = int(rs.randint(8, n - 3)); cut = data.index[cut_i]
    base = run(kind, data, extra, add)
    d2 = data.copy(); d2.iloc[cut_i + 1:] = d2.iloc[cut_i + 1:] * (1 + rs.rand(n - cut_i - 1, len(names)))
    add2 = {k: v.copy() for k, v in add.items()}
    add2["sig"].iloc[cut_i + 1:] = ~add2["sig"].iloc[cut_i + 1:]
    add2["tw"].iloc[cut_i + 1:] = add2["tw"].iloc[cut_i + 1:].values[::-1]
    add2["st"].iloc[cut_i + 1:] = -add2["st"].iloc[cut_i + 1:]
    pert = run(kind, d2, extra, add2)
    evals += 1; distinct.add((kind, extra["lag"], extra["lookback"], extra["intpos"], extra["comm"]))
    a, b = snapshot(base, cut), snapshot(pert, cut)
    # a security created on first use after the cut exists in one run only: its records up to the cut are its untouched initial rows
    def untouched(t, name, cut):
        n = [m for m in t.strategy.members if m.full_name == name][0]
        d = n.data.loc[:cut]
        return all(float(np.nan_to_num(d[c].abs().sum())) == 0.0 for c in d.columns if c not in ("price",))
    bad = [k for k in set(a) | set(b) if a.get(k) != b.get(k) and not ((k not in a and untouched(pert, k, cut)) or (k not in b and untouched(base, k, cut)))]
    if bad: fails.append(dict(clause="results-up-to-t-changed-when-later-data-changed", strategy=kind, cut=str(cut), nodes=bad[:4], params={k: int(v) for k, v in extra.items()}))
    if it < 2: samples.append(dict(strategy=kind, cut=str(cut.date()), nodes=len(a)))
print("JSON:" + json.dumps(dict(evaluations=evals, distinct=len(distinct), failures=fails[:5], samples=samples,
      rule="8 strategy kinds (momentum, inverse-vol, signal, target weights, stat+rank, ERC, vol target, nested) x random lag/lookback/position mode/commissions; all prices and auxiliary frames perturbed after a random cut date; every node's data frame and the transaction list up to the cut compared byte for byte",
      bound="%d backtest pairs, 25-45 dates, 5 tickers" % N)))
