# bounded stand-in for C08 on real objects: random operation histories (direct API) on flat / nested trees; at random points the tree is deep-copied and
# (a) read directly vs read after an explicit update - every property of every node must agree, (b) updated once vs several times - nothing observable
# may differ, (c) the rows recorded for earlier dates are compared with what they were when their date ended, (d) every series handed out ends at now
import json, warnings, copy
import numpy as np, pandas as pd
warnings.filterwarnings("ignore")
import bt
from bt.core import Strategy, SecurityBase, StrategyBase
rs = np.random.RandomState(SEED)
fails, evals, distinct, samples = [], 0, set(), []
def bad(clause, **kw):
    if len(fails) < 8: fails.append(dict(clause=clause, **{k: (float(v) if isinstance(v, (np.floating, float)) else v) for k, v in kw.items()}))
SCAL = ["value", "weight", "price", "notional_value"]
SER_STRAT = ["prices", "values", "notional_values", "cash", "fees", "flows"]
SER_SEC = ["prices", "values", "notional_values", "positions", "outlays"]
def reads(root, order):
    """every scalar and series property of every node, read in the given node order (a read may itself refresh the tree)"""
    out = {}
    ms = root.members
    for j in order:
        m = ms[j % len(ms)]
        attrs = [(a, False) for a in SCAL + (["capital"] if isinstance(m, StrategyBase) else ["position"])] + [(a, True) for a in (SER_STRAT if isinstance(m, StrategyBase) else SER_SEC)]
        if order != sorted(order): attrs = [attrs[i] for i in np.random.RandomState(int(sum(order)) + j).permutation(len(attrs))]      # any accessor may be the first to meet the pending changes
        for a, is_series in attrs:
            if is_series:
                ser = getattr(m, a)
                out[(m.full_name, a)] = (str(ser.index[-1]) if len(ser) else None, ser.to_numpy(dtype=float).tobytes())
            else:
                out[(m.full_name, a)] = float(getattr(m, a))
    return out
def same(a, b):
    for k in a:
        x, y = a[k], b.get(k)
        if isinstance(x, float):
            if not (x == y or (np.isnan(x) and np.isnan(y)) or abs(x - y) <= 1e-12 * max(1.0, abs(x))): return k
        elif x != y: return k
    return None
FEES = [None, lambda q, p: abs(q) * 0.01, lambda q, p: abs(q) * p * 0.001]
for it in range(N):
    n = int(rs.randint(4, 8)); idx = pd.date_range("2021-05-03", periods=n)
    data = pd.DataFrame(100 * np.exp(np.cumsum(rs.randn(n, 4) * 0.03, axis=0)), index=idx, columns=list("abcd"))
    nested = bool(rs.randint(2))
    if nested: root = Strategy("r", [], children=[Strategy("s1", [], children=["a", "b"]), "c", "d"]); decl = {"r": ["s1", "c", "d"], "s1": ["a", "b"]}
    else: root = Strategy("r", [], children=["a", "b", "c"]); decl = {"r": ["a", "b", "c"]}
    intpos = bool(rs.randint(2)); fk = int(rs.randint(len(FEES))); spread = bool(rs.randint(2))
    kw = {"bidoffer": pd.DataFrame(rs.uniform(0, 0.3, size=(n, 4)), index=idx, columns=list("abcd"))} if spread else {}
    root.setup(data, **kw); root.use_integer_positions(intpos)
    if FEES[fk] is not None: root.set_commissions(FEES[fk])
    root.adjust(1e6); root.update(idx[0])
    strats = [m for m in root.members if isinstance(m, StrategyBase)]
    for s_ in strats[1:]: root.allocate(2e5, s_.name)
    root.update(idx[0])
    distinct.add((nested, intpos, fk, spread))
    closed = {}          # date -> {node: bytes of the row} as it stood when the date ended
    try:
        dyn_at = int(rs.randint(2, n)) if rs.rand() < 0.5 else -1
        for d in range(1, n):
            root.update(idx[d])
            if d == dyn_at:         # a child strategy attached during the run: not updated yet (its own clock is still at the start), funded at once
                looked = rs.rand() < 0.5
                if looked: root.universe                                  # a read of the window placed before the child exists changes nothing afterwards
                dyn = Strategy("dyn", [], [], parent=root); dyn.setup_from_parent(); root.allocate(1000.0, "dyn")
                evals += 1
                if "dyn" not in root.universe.columns: fails.append(dict(clause="a-read-of-the-universe-before-a-child-is-attached-changes-nothing", it=it, date=str(idx[d].date()), looked_at_before=bool(looked), columns=list(map(str, root.universe.columns))))
            for _ in range(int(rs.randint(1, 5))):
                s = strats[int(rs.randint(len(strats)))]; k = str(rs.choice(decl[s.name]))
                op = str(rs.choice(["adjust", "fund", "rebalance", "close", "transact", "update", "flatten", "wash"]))
                if op == "wash":            # an inflow and a loss of the same size: the value does not move, the index has to
                    x_ = float(rs.choice([40.0, 100.0])); root.adjust(x_); root.adjust(-x_, flow=False)
                elif op == "adjust": s.adjust(float(rs.choice([5e4, -2e4]))) if s is root else s.adjust(float(rs.choice([-100.0, 50.0])), flow=False)
                elif op == "fund": s.allocate(float(rs.choice([2e4, -1e4])), k)
                elif op == "rebalance": s.rebalance(float(rs.choice([0.0, 0.1, 0.3, -0.1])), k)
                elif op == "close" and k in s.children: s.close(k)
                elif op == "transact" and k in s.children and isinstance(s.children[k], SecurityBase): s.children[k].transact(float(rs.choice([10.0, -4.0, 25.0])))
                elif op == "update": (root if rs.rand() < 0.5 else s).update(idx[d])        # the whole tree, or a sub-strategy alone (which must not resolve what is pending above it)
                elif op == "flatten": s.flatten()
                if rs.rand() < 0.5:
                    evals += 1
                    nm = len(root.members); order = list(rs.permutation(nm))
                    A_, B_, C_ = copy.deepcopy(root), copy.deepcopy(root), copy.deepcopy(root)
                    try:
                        ra = reads(A_, order)                               # read with changes pending (any node first)
                    except ZeroDivisionError: raise
                    except Exception as e_:
                        bad("a-read-with-pending-changes-raised", error=repr(e_)[:200], after=repr(op), root_now=str(A_.now)); raise StopIteration
                    B_.update(B_.now); rb = reads(B_, list(range(nm)))      # explicit update, then read
                    k_ = same(rb, ra)
                    if k_: bad("read-with-pending-changes-differs-from-read-after-update", node=k_[0], property=k_[1], after=repr(op), pending_flag=bool(root.stale)); raise StopIteration
                    for _r in range(int(rs.randint(1, 4))): C_.update(C_.now)
                    rc = reads(C_, list(range(nm)))
                    k_ = same(rb, rc)
                    if k_: bad("redundant-updates-change-something", node=k_[0], property=k_[1], after=repr(op)); raise StopIteration
                    for (nm_, a_), v in ra.items():
                        if isinstance(v, tuple) and v[0] is not None and pd.Timestamp(v[0]) > root.now: bad("series-extends-beyond-now", node=nm_, property=a_, last=v[0], now=str(root.now)); raise StopIteration
            root.update(idx[d])
            closed[d] = {m.full_name: m.data.loc[idx[d]].to_numpy(dtype=float).tobytes() for m in root.members}
            for d0, rows in closed.items():
                for m in root.members:
                    if m.full_name in rows and m.data.loc[idx[d0]].to_numpy(dtype=float).tobytes() != rows[m.full_name]:
                        bad("row-of-an-earlier-date-changed", node=m.full_name, row_date=str(idx[d0].date()), now=str(idx[d].date())); raise StopIteration
    except StopIteration: pass
    except ZeroDivisionError: pass       # a return base driven to zero: ill-formed history (C10)
    if it < 2: samples.append(dict(nested=nested, dates=n, final_value=float(root.value)))
print("JSON:" + json.dumps(dict(evaluations=evals, distinct=len(distinct), failures=fails[:5], samples=samples,
      rule="flat / nested trees (in half of the histories a child strategy is attached and funded during the run), whole or fractional units, 3 fee shapes, optional spreads; 1-4 random operations per date (adjust, fund a child, rebalance, close, transact, flatten, update) with the default update flag; after about half of them three deep copies of the tree are compared: read as is (random node order) / update then read / update 1-3 more times then read - 4-5 scalars and 5-6 series per node, byte for byte; rows of closed dates re-read at every later date",
      bound="%d histories of 3-7 dates" % N)))
