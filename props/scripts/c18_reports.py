# bounded stand-in for C18 on the real code: every report of a finished backtest recomputed from the node histories
import json, warnings
import numpy as np, pandas as pd
warnings.filterwarnings("ignore")
import bt
from bt import algos as A
from bt.core import Security, Strategy, StrategyBase, SecurityBase, FixedIncomeStrategy, FixedIncomeSecurity
rs = np.random.RandomState(SEED)
fails, evals, distinct, samples = [], 0, set(), []
def bad(clause, **kw):
    if len(fails) < 400: fails.append(dict(clause=clause, **{k: (float(v) if isinstance(v, (np.floating, float)) else v) for k, v in kw.items()}))
def close(a, b, tol=1e-9):
    a = np.asarray(a, dtype=float); b = np.asarray(b, dtype=float)
    return a.shape == b.shape and bool(np.allclose(a, b, rtol=tol, atol=tol, equal_nan=True))
TICK = list("abcde")
class WeighSigned(A.Algo):
    """long/short target weights summing to one (deterministic given the date): exercises shorts"""
    def __init__(self, table): super(WeighSigned, self).__init__(); self.table = table
    def __call__(self, target):
        if target.now in self.table.index:
            sel = target.temp.get("selected", list(self.table.columns))
            target.temp["weights"] = {k: float(v) for k, v in self.table.loc[target.now].items() if k in sel}
        return True
for it in range(N):
    n = int(rs.randint(10, 26))
    idx = pd.bdate_range("2020-01-01", periods=n)
    data = pd.DataFrame(100 * np.exp(np.cumsum(rs.randn(n, len(TICK)) * 0.02, axis=0)), index=idx, columns=TICK)
    cfg = dict(nested=bool(rs.randint(2)), shared=bool(rs.randint(2)), trades=rs.rand() > 0.15, shorts=bool(rs.randint(2)), bidoffer=bool(rs.randint(2)), intpos=bool(rs.randint(2)),
               mult=float(rs.choice([1.0, 1.0, 10.0, 0.5])), eager=bool(rs.randint(2)), frac=bool(rs.randint(2)))
    wt = pd.DataFrame(rs.dirichlet(np.ones(3), size=n), index=idx, columns=list("abc"))
    if cfg["shorts"]:
        wt["a"] = -0.3; wt["b"] = 0.8; wt["c"] = 0.5
    class Peek(A.Algo):
        """reads the aggregated reports in the middle of a date, before that date's trades (as PTE_Rebalance does): what is read later must not be the copy made here"""
        def __call__(self, target):
            _ = target.root.positions; _ = target.root.outlays
            return True
    class FracTrade(A.Algo):
        """quantity trades are never rounded, also in a tree flagged for whole units: a fractional lot on two dates"""
        def __call__(self, target):
            if target.now in (idx[3], idx[6]) and cols_of[target.name]: target.transact(2.5 if target.now == idx[3] else -0.75, cols_of[target.name][0])
            return True
    cols_of = {}
    def stack(cols):
        if not cfg["trades"]: return [A.RunOnDate("1999-01-01"), A.SelectAll(), A.WeighEqually(), A.Rebalance()]
        return [Peek(), A.Or([A.RunWeekly(), A.RunOnDate(idx[-1])]), A.SelectThese(cols), WeighSigned(wt), A.Rebalance()] + ([FracTrade()] if cfg.get("frac") else [])     # the last date trades too
    kinds = {nm: int(rs.randint(3)) for nm in TICK}
    def sec(nm):
        if not (cfg["eager"] or cfg["mult"] != 1.0): return nm
        if cfg["eager"] and kinds[nm] == 1: return bt.core.HedgeSecurity(nm, multiplier=cfg["mult"])
        if cfg["eager"] and kinds[nm] == 2: return FixedIncomeSecurity(nm, multiplier=cfg["mult"])
        return Security(nm, multiplier=cfg["mult"])
    cols_of.update({"top": ["a"], "s1": ["a"], "s2": ["c"]})
    if cfg["nested"]:
        c2 = ["b", "c"] if cfg["shared"] else ["c", "d"]
        top = Strategy("top", [A.RunMonthly(run_on_first_date=True), A.SelectAll(), A.WeighEqually(), A.Rebalance()] if cfg["trades"] else stack(["a"]),
                       children=[Strategy("s1", stack(["a", "b"]), children=[sec("a"), sec("b")]), Strategy("s2", stack(c2), children=[sec(x) for x in c2]), sec("e")])
    else:
        top = Strategy("top", stack(["a", "b", "c"]), children=[sec(x) for x in "abc"] if (cfg["eager"] or cfg["mult"] != 1.0) else None)
    extra = {}
    if cfg["bidoffer"]:
        quoted = [x for x in TICK if rs.rand() < 0.8] or TICK[:1]      # tickers without a quote trade at the mid price: no spread
        extra["bidoffer"] = pd.DataFrame(0.2 + rs.rand(n, len(quoted)) * 0.3, index=idx, columns=quoted)
    try:
        t = bt.Backtest(top, data, integer_positions=cfg["intpos"], additional_data=extra or None, progress_bar=False, commissions=lambda q, p: abs(q) * 0.001)
        res = bt.run(t)
    except Exception as e:
        skipped_raising = globals().get("skipped_raising", 0) + 1   # not a finished backtest: whether a well-formed run may raise is C10's question
        continue
    evals += 1; distinct.add(tuple(sorted(cfg.items())))
    s = t.strategy
    members = s.members
    rootv = s.values
    # 1. component weights
    w = t.weights
    for m in members:
        want = (m.values / rootv).to_numpy()
        if m.full_name not in w.columns or not close(w[m.full_name].to_numpy(), want): bad("component-weight-is-node-value-over-root-value", node=m.full_name, config=cfg)
    # 2. security weights aggregate same-named securities; with every strategy's cash fraction they sum to one
    sw = t.security_weights
    secs = [m for m in members if isinstance(m, SecurityBase)]
    for nm in sorted({m.name for m in secs}):
        agg = sum(m.values for m in secs if m.name == nm)
        if nm not in sw.columns or not close(sw[nm].to_numpy(), (agg / rootv).to_numpy()): bad("security-weight-aggregates-same-named-securities", ticker=nm, config=cfg)
    cash = sum(m.cash for m in members if isinstance(m, StrategyBase))
    tot = (sw.sum(axis=1) if len(sw.columns) else 0.0) + cash / rootv
    ok_rows = rootv.to_numpy() != 0
    if not close(np.asarray(tot)[ok_rows], np.ones(int(ok_rows.sum()))): bad("security-weights-plus-cash-fractions-sum-to-one", config=cfg, worst=float(np.nanmax(np.abs(np.asarray(tot)[ok_rows] - 1))))
    # 3. positions aggregate per ticker
    pos = t.positions
    for nm in sorted({m.name for m in secs}):
        agg = sum(m.positions for m in secs if m.name == nm)
        if nm not in pos.columns or not close(pos[nm].to_numpy(), agg.to_numpy()): bad("positions-aggregate-per-ticker", ticker=nm, config=cfg)
    # 4. transactions: quantities cumulate to positions; prices are execution prices
    try:
        tx = res.get_transactions()
        tx2 = s.get_transactions()
        if not tx.equals(tx2): bad("result-transactions-are-the-strategy's", config=cfg)
    except Exception as e:
        tx = None
        bad("get-transactions-raised", config=cfg, error=repr(e)[:160], securities=len(secs))
    if tx is not None:
        for nm in sorted({m.name for m in secs}):
            q = tx["quantity"].xs(nm, level="Security") if nm in tx.index.get_level_values("Security") else pd.Series(dtype=float)
            cum = q.groupby(level=0).sum().reindex(pos.index).fillna(0.0).cumsum()
            if not close(cum.to_numpy(), pos[nm].to_numpy(), 1e-7): bad("transaction-quantities-cumulate-to-positions", ticker=nm, config=cfg)
            same = [m for m in secs if m.name == nm]
            if len(q) and len({m.multiplier for m in same}) == 1:
                mult = same[0].multiplier
                dpos = pos[nm].diff(); dpos.iloc[0] = pos[nm].iloc[0]
                outl = sum(m.outlays for m in same)
                for d_ in q.index:
                    # execution price per unit: what was paid for the date's trades in this ticker (spread included, commission excluded) / (net quantity x multiplier)
                    execp = outl.loc[d_] / (dpos.loc[d_] * mult)
                    got = tx["price"].loc[(d_, nm)]
                    if not close([got], [execp], 1e-7): bad("transaction-price-is-the-execution-price", ticker=nm, date=str(d_), got=float(got), want=float(execp), multiplier=mult, bidoffer=cfg["bidoffer"], holders=len(same)); break
    if cfg["bidoffer"]:
        for m in secs:
            if m.name not in extra["bidoffer"].columns and float(np.abs(m.bidoffers_paid.to_numpy()).sum()) != 0.0: bad("no-spread-is-paid-on-a-ticker-without-a-quote", ticker=m.name, config=cfg)
    # 5. turnover and Herfindahl
    o = pd.DataFrame({nm: sum(m.outlays for m in secs if m.name == nm) for nm in sorted({m.name for m in secs})})
    so = s.outlays
    for nm in o.columns:
        if nm not in so.columns or not close(so[nm].to_numpy(), o[nm].to_numpy()): bad("outlays-aggregate-all-member-securities-per-ticker", ticker=nm, config=cfg)
    pos_o = o.where(o >= 0, 0.0).sum(axis=1) if len(o.columns) else pd.Series(0.0, index=rootv.index)
    neg_o = o.where(o < 0, 0.0).sum(axis=1).abs() if len(o.columns) else pd.Series(0.0, index=rootv.index)
    want_to = np.minimum(pos_o, neg_o) / rootv
    if not close(t.turnover.to_numpy(), want_to.to_numpy()): bad("turnover-is-min-of-buys-and-sells-over-nav", config=cfg)
    if not close(t.herfindahl_index.to_numpy(), (sw ** 2).sum(axis=1).to_numpy() if len(sw.columns) else np.zeros(len(rootv))): bad("herfindahl-is-sum-of-squared-security-weights", config=cfg)
    if not close(t.security_weights.to_numpy(), (pd.DataFrame({nm: sum(m.values for m in secs if m.name == nm) for nm in sorted({m.name for m in secs})}).div(rootv, axis=0))[list(t.security_weights.columns)].to_numpy() if len(secs) else np.zeros((len(rootv), 0))): bad("security-weights-unchanged-by-reading-other-reports", config=cfg)
    if not close(t.herfindahl_index.to_numpy(), (t.security_weights ** 2).sum(axis=1).to_numpy() if len(sw.columns) else np.zeros(len(rootv))): bad("herfindahl-stable-on-second-read", config=cfg)
    # the component weights are the same frame whatever was read before them (they were read first above; security weights and HHI since)
    w2 = t.weights
    if list(w2.columns) != list(w.columns) or not close(w2.to_numpy(), w.to_numpy()): bad("component-weights-unchanged-by-reading-other-reports", columns_first=list(map(str, w.columns))[:8], columns_now=list(map(str, w2.columns))[:8], config=cfg)
    # 6. the Result's price series is the strategy's index
    if not close(res.prices[t.name].to_numpy(), s.prices.to_numpy()): bad("result-prices-are-the-strategy-index", config=cfg)
    # 7. replaying the transaction list reproduces positions and values (flat trees: one holder per ticker)
    if tx is not None and len(tx) and not cfg["nested"]:
        rp = Strategy("replay", [A.ReplayTransactions("transactions")], children=[Security(nm, multiplier=cfg["mult"]) for nm in sorted({m.name for m in secs})])
        add = dict(extra); add.setdefault("bidoffer", {}); add["transactions"] = tx
        try:
            t2 = bt.Backtest(rp, data, integer_positions=cfg["intpos"], additional_data=add, progress_bar=False, commissions=lambda q, p: abs(q) * 0.001)
            t2.run(); evals += 1
            p2 = t2.positions
            for nm in pos.columns:
                if nm not in p2.columns or not close(p2[nm].to_numpy(), pos[nm].to_numpy(), 1e-7): bad("replay-reproduces-positions", ticker=nm, config=cfg); break
            if not close(t2.strategy.values.to_numpy(), s.values.to_numpy(), 1e-7): bad("replay-reproduces-values", config=cfg, worst=float(np.nanmax(np.abs(t2.strategy.values.to_numpy() - s.values.to_numpy()))))
            # the same list with its rows in another order (e.g. per-ticker or per-sleeve blotters put together) replays identically: the algo selects by timestamp
            rp3 = Strategy("replay", [A.ReplayTransactions("transactions")], children=[Security(nm, multiplier=cfg["mult"]) for nm in sorted({m.name for m in secs})])
            add3 = dict(add); add3["transactions"] = tx.iloc[rs.permutation(len(tx))]
            t3 = bt.Backtest(rp3, data, integer_positions=cfg["intpos"], additional_data=add3, progress_bar=False, commissions=lambda q, p: abs(q) * 0.001)
            t3.run(); evals += 1
            for nm in pos.columns:
                if nm not in t3.positions.columns or not close(t3.positions[nm].to_numpy(), pos[nm].to_numpy(), 1e-7): bad("replay-of-the-reordered-list-reproduces-positions", ticker=nm, config=cfg); break
        except Exception as e:
            bad("replay-raised", config=cfg, error=repr(e)[:200])
    if it < 2: samples.append(dict(config=cfg, final=float(s.value), transactions=0 if tx is None else int(len(tx))))
# ---- fixed-income root: component / security weights over notional values, turnover over NAV
for it in range(max(3, N // 8)):
    n = int(rs.randint(10, 20))
    idx = pd.bdate_range("2020-01-01", periods=n)
    data = pd.DataFrame(100 * np.exp(np.cumsum(rs.randn(n, 3) * 0.01, axis=0)), index=idx, columns=list("abc"))
    wt = pd.DataFrame(rs.dirichlet(np.ones(3), size=n), index=idx, columns=list("abc"))
    notional = pd.Series(1e6 * (1 + 0.1 * rs.rand(n)), index=idx)
    class WT(A.Algo):
        def __call__(self, target):
            if target.now in wt.index: target.temp["weights"] = {k: float(v) for k, v in wt.loc[target.now].items()}
            return True
    fis = FixedIncomeStrategy("fi", [A.RunWeekly(), WT(), A.SetNotional("notional"), A.Rebalance()], children=[FixedIncomeSecurity(x) for x in "abc"])
    try:
        t = bt.Backtest(fis, data, integer_positions=False, additional_data={"notional": notional}, progress_bar=False)
        t.run()
    except Exception as e:
        continue
    evals += 1
    s = t.strategy
    secs = [m for m in s.members if isinstance(m, SecurityBase)]
    nv = s.notional_values
    w = t.weights
    for m in s.members:
        if not close(w[m.full_name].to_numpy(), (m.notional_values / nv).to_numpy()): bad("fixed-income:component-weight-is-notional-over-root-notional", node=m.full_name)
    sw = t.security_weights
    for m in secs:
        if not close(sw[m.name].to_numpy(), (m.notional_values / nv).to_numpy()): bad("fixed-income:security-weight-is-notional-over-root-notional", ticker=m.name)
    o = pd.DataFrame({m.name: m.outlays for m in secs})
    want_to = np.minimum(o.where(o >= 0, 0.0).sum(axis=1), o.where(o < 0, 0.0).sum(axis=1).abs()) / s.values
    if not close(t.turnover.to_numpy(), want_to.to_numpy()): bad("fixed-income:turnover-is-min-of-buys-and-sells-over-nav")
# ---- direct API: positions opened on the very first date of the data (no synthetic first row as in Backtest)
for it in range(max(3, N // 8)):
    n = 6
    idx = pd.date_range("2021-05-03", periods=n)
    data = pd.DataFrame(50 + rs.rand(n, 3) * 5, index=idx, columns=list("abc"))
    s = Strategy("s", [], children=[Security(x) for x in "abc"])
    s.setup(data); s.adjust(1e6)
    for d_ in idx:
        s.update(d_)
        for nm in "abc":
            if rs.rand() < 0.6: s.transact(float(rs.randint(-20, 30)), nm)
        s.update(d_)
    tx = s.get_transactions(); evals += 1
    pos = s.positions
    for nm in "abc":
        q = tx["quantity"].xs(nm, level="Security") if nm in tx.index.get_level_values("Security") else pd.Series(dtype=float)
        cum = q.groupby(level=0).sum().reindex(pos.index).fillna(0.0).cumsum()
        if not close(cum.to_numpy(), pos[nm].to_numpy(), 1e-9): bad("transaction-quantities-cumulate-to-positions(direct API, first date traded)", ticker=nm)
print("JSON:" + json.dumps(dict(evaluations=evals, distinct=len(distinct), failures=fails[:PARAMS.get("maxfail", 6)], samples=samples,
      rule="random backtests (flat / nested, tickers shared by two sub-strategies, no-trade runs, long/short targets, bid/offer on or off, whole or fractional units, multipliers, lazy or eager securities): weights, security weights (+cash = 1), "
           "positions, transactions (cumulative quantities, execution prices), turnover, HHI, Result prices recomputed from node histories; transaction list replayed through ReplayTransactions",
      bound="%d random backtests, 10-25 dates, 5 tickers" % N), default=str))
